#!/usr/bin/env python3
"""kf_edit.py remove <property> <signature-substring>   : drop open entries whose signature contains the text"""
import sys, json, os, fcntl
P = os.path.join(os.path.dirname(os.path.dirname(os.path.abspath(__file__))), 'known_findings.json')
_lock = open(P + '.lock', 'w'); fcntl.flock(_lock, fcntl.LOCK_EX)
d = json.load(open(P))
cmd, prop, text = sys.argv[1:4]
if cmd == 'remove':
    keep = [f for f in d['findings'] if not (f['property'] == prop and f.get('status') == 'open' and text in f.get('signature', ''))]
    print('removed', len(d['findings']) - len(keep))
    d['findings'] = keep
json.dump(d, open(P, 'w'), indent=1, sort_keys=True)
