#!/usr/bin/env python3
"""Maintenance helper for known_findings.json (never used at check time).
usage: kf.py add <property> <signature> <what> [--model-based]
       kf.py fixed <property> <commit> <what>"""
import sys, json, os
P = os.path.join(os.path.dirname(os.path.dirname(os.path.abspath(__file__))), 'known_findings.json')
import fcntl
_lock = open(P + '.lock', 'w'); fcntl.flock(_lock, fcntl.LOCK_EX)
d = json.load(open(P)) if os.path.exists(P) else {'findings': []}
a = sys.argv[1:]
if a[0] == 'add':
    e = dict(property=a[1], status='open', signature=a[2], what=a[3], model_based='--model-based' in a)
    d['findings'] = [f for f in d['findings'] if not (f['property'] == a[1] and f.get('signature') == a[2])] + [e]
elif a[0] == 'fixed':
    d['findings'].append(dict(property=a[1], status='fixed', commit=a[2], what=a[3],
                              record='fixed: property=%s %s %s' % (a[1], a[2], a[3])))
d['findings'].sort(key=lambda f: (f['property'], f['status'], f.get('signature', '')))
json.dump(d, open(P, 'w'), indent=1, sort_keys=True)
