#!/usr/bin/env python3
"""Evaluate one seeded change against the checks, in a scratch worktree (never in /repo).
usage: seed_eval.py <patch.diff> <demo.py|-> <C09,C12,...> [--tier quick|thorough] [--skip-baseline]
Prints: baseline result, demo exit codes (clean / patched), and per check: exit code + first VIOLATION line."""
import sys, os, subprocess, tempfile, shutil
patch, demo, props = sys.argv[1], sys.argv[2], sys.argv[3].split(',')
tier = 'quick'
if '--tier' in sys.argv: tier = sys.argv[sys.argv.index('--tier') + 1]
wt = tempfile.mkdtemp(prefix='seedeval-', dir='/tmp'); os.rmdir(wt)
def sh(cmd, **kw): return subprocess.run(cmd, shell=True, stdout=subprocess.PIPE, stderr=subprocess.STDOUT, text=True, **kw)
try:
    r = sh('git -C /repo worktree add -q %s HEAD' % wt); assert r.returncode == 0, r.stdout
    if demo != '-':
        r = sh('/venv/bin/python -B %s %s' % (demo, wt)); print('demo on clean tree: exit', r.returncode)
    r = sh('git -C %s apply %s' % (wt, os.path.abspath(patch)))
    if r.returncode != 0:
        print('PATCH DOES NOT APPLY:', r.stdout[-500:]); sys.exit(3)
    if demo != '-':
        r = sh('/venv/bin/python -B %s %s' % (demo, wt)); print('demo on patched tree: exit', r.returncode, '|', r.stdout.strip().splitlines()[-1][:200] if r.stdout.strip() else '')
    if '--skip-baseline' not in sys.argv:
        r = sh('/verif/tools/baseline.py %s -n 8' % wt); print('baseline:', r.stdout.strip().splitlines()[0] if r.stdout.strip() else r.returncode)
    for p in props:
        r = sh('/venv/bin/python -B -m vf.run %s --tier %s' % (p, tier), cwd='/verif', env=dict(os.environ, VF_REPO=wt))
        lines = r.stdout.splitlines()
        viol = [l for l in lines if l.startswith('VIOLATION')]
        sigs = [l.strip() for l in lines if l.strip().startswith('signature:')]
        print('%s: exit %d, %d new violation signature(s)%s' % (p, r.returncode, len(viol), ('; e.g. ' + sigs[0][:160]) if sigs else ''))
        if r.returncode not in (0, 1): print('   ', '\n    '.join(lines[-4:]))
finally:
    sh('git -C /repo worktree remove --force %s' % wt)
    shutil.rmtree(wt, ignore_errors=True)
    sh('rm -f /verif/replays/*.json')
