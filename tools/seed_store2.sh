#!/bin/bash
# usage: seed_store2.sh c09 c10 ...   second-wave variant of seed_store.sh: copies /tmp/mut2-<p>-out/{patchN.diff,demoN.py,notes.json}
# into the next free /verif/seeded/<P>-<k> directories and removes the worktree /tmp/mut2-<p>; prints the new ids
for p in "$@"; do P=$(echo $p | tr a-z A-Z); [ -f /tmp/mut2-$p-out/notes.json ] || { echo "no notes for $p"; continue; }
 for n in 1 2; do [ -f /tmp/mut2-$p-out/patch$n.diff ] || continue
  k=1; while [ -d /verif/seeded/$P-$k ]; do k=$((k+1)); done; d=/verif/seeded/$P-$k; mkdir -p $d
  cp /tmp/mut2-$p-out/patch$n.diff $d/patch.diff; cp /tmp/mut2-$p-out/demo$n.py $d/demo.py; python3 - $p $n $d <<'PY'
import json,sys
p,n,d=sys.argv[1],int(sys.argv[2]),sys.argv[3]
notes=json.load(open('/tmp/mut2-%s-out/notes.json'%p))[n-1]
json.dump(dict(property=p.upper(), what=notes['what'], needs=notes['needs'], author='independent sub-agent (second wave) given only the property text, the list of earlier changes to avoid, and a scratch worktree', tests_with_change=notes.get('tests'), confirmed={}), open(d+'/meta.json','w'), indent=1)
PY
  echo -n "$P-$k "
 done; git -C /repo worktree remove --force /tmp/mut2-$p 2>/dev/null
done; echo
