#!/venv/bin/python
"""Run the repository's pinned test suite on a tree (default /repo) and compare the set of passing
tests with /root/.vp/BASELINE.json stable_pass.  Exit 0 iff every stable test still passes.
usage: tools/baseline.py [repo_dir] [-n WORKERS]"""
import sys, os, json, subprocess, tempfile, xml.etree.ElementTree as ET
repo = '/repo'; workers = None
args = sys.argv[1:]
while args:
    a = args.pop(0)
    if a == '-n': workers = args.pop(0)
    else: repo = a
out = tempfile.mktemp(suffix='.xml', dir='/dev/shm')
cmd = ['/venv/bin/python', '-B', '-m', 'pytest', '-q', '-p', 'no:cacheprovider', '--timeout=900',
       '--continue-on-collection-errors', '--junitxml=' + out]
if workers: cmd += ['-n', workers]
env = dict(os.environ, PYTHONPATH=repo, PYTHONDONTWRITEBYTECODE='1')
env.pop('PONYORM_PONY_VERIF', None)
p = subprocess.run(cmd, cwd=repo, env=env, stdout=subprocess.PIPE, stderr=subprocess.STDOUT, text=True)
passed = set()
try:
    for tc in ET.parse(out).getroot().iter('testcase'):
        if not any(ch.tag in ('failure', 'error', 'skipped') for ch in tc):
            passed.add('%s::%s' % (tc.get('classname'), tc.get('name')))
finally:
    if os.path.exists(out): os.unlink(out)
base = set(json.load(open('/root/.vp/BASELINE.json'))['stable_pass'])
missing = sorted(base - passed)
print('baseline stable=%d passed_now=%d missing=%d' % (len(base), len(passed & base), len(missing)))
for m in missing[:40]: print('  NOT PASSING:', m)
if missing: print(p.stdout[-3000:])
sys.exit(1 if missing else 0)
