#!/bin/bash
# usage: seed_sweep.sh <log> <id:checks> ...   e.g.  C13-1:C13,C10
log=$1; shift
for item in "$@"; do
  id=${item%%:*}; checks=${item#*:}
  echo "=== $id ($checks)" >> $log
  /verif/tools/seed_eval.py /verif/seeded/$id/patch.diff /verif/seeded/$id/demo.py $checks >> $log 2>&1
done
echo "=== done" >> $log
