#!/bin/bash
# usage: seed_store.sh c01 c03 ...   copies /tmp/mut-<p>-out/{patchN.diff,demoN.py,notes.json} into /verif/seeded/<P>-N and removes the worktree
for p in "$@"; do P=$(echo $p | tr a-z A-Z); [ -f /tmp/mut-$p-out/notes.json ] || { echo "no notes for $p"; continue; }
 for n in 1 2; do d=/verif/seeded/$P-$n; mkdir -p $d; cp /tmp/mut-$p-out/patch$n.diff $d/patch.diff; cp /tmp/mut-$p-out/demo$n.py $d/demo.py; python3 - $p $n $d <<'PY'
import json,sys
p,n,d=sys.argv[1],int(sys.argv[2]),sys.argv[3]
notes=json.load(open('/tmp/mut-%s-out/notes.json'%p))[n-1]
json.dump(dict(property=p.upper(), what=notes['what'], needs=notes['needs'], author='independent sub-agent given only the property text and a scratch worktree', tests_with_change=notes.get('tests'), confirmed={}), open(d+'/meta.json','w'), indent=1)
PY
 done; git -C /repo worktree remove --force /tmp/mut-$p 2>/dev/null; echo stored $P
done
