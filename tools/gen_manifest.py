#!/usr/bin/env python3
"""Regenerates /verif/MANIFEST.json from the table below (single source of truth for the
interface). Run after adding a check:  python3 tools/gen_manifest.py"""
import json, os
V = os.path.dirname(os.path.dirname(os.path.abspath(__file__)))
PY = '/venv/bin/python -B -m vf.run'

# id -> (engine, category, technique, level text, level_note, design_ref)
CHECKS = {
 'C07': ('VX+DM', 'exploration',
         'bounded-exhaustive product of attribute declarations x boundary value grids x write paths, five independent read paths as differential oracle',
         '114 attribute declarations (every basic type with each converter-relevant option, Required and Optional) x per-type boundary grids x {INSERT, UPDATE} on real SQLite: the value a fresh session reads by pk, by projection, and finds when the value is used as query parameter / get() argument / optimistic-check operand equals the value the writing session saw after flush. Plus exhaustive grids over the pure-Python interval, timestamp and DATETIME codecs, precision 0..6 and converter round trips of the PostgreSQL and MySQL providers.',
         'PostgreSQL/MySQL server-side storage is out of reach: only their Python converters run (stub drivers, model-based). Float equality uses the documented 1e-14 tolerance, NaN is not judged, values Pony refuses are counted.', 'DESIGN.md section 3 C07'),
 'C08': ('VX', 'exploration',
         'bounded-exhaustive product of declarations x candidates around every bound x six entry points against a three-valued reference predicate',
         'About 900 (thorough 2,000) declarations mapped for real (int size x unsigned x min x max, float/Decimal bounds incl. zero/negative/fractional, str max_len x autostrip x nullable, py_check, default, the other basic types, malformed declarations) x candidates b-1,b,b+1 around every bound plus wrong types, through constructor, default, assignment, set(), Entity.get(attr=v) and select(attr=v); compared with a reference predicate written from the API reference and differentially across entry points.',
         'the reference predicate (vf/props/_c08_ref.py) is trusted base; undocumented conversions are "undecided": both outcomes accepted, soundness of the stored value still checked. max_len=0 is treated as "no limit" as Pony does throughout.', 'DESIGN.md section 3 C08'),
 'C23': ('SX', 'model_checking',
         'explicit-state BFS over read/modify histories; the same history replayed under seven loading strategies, observation sequences must be identical',
         'Histories of depth <= 2 (thorough 3) of attribute reads, navigation, collection iteration/len/count/in/is_empty, key look-ups, scans and modifications on the populated fixture of 10 relationship models, replayed under: default, every scalar lazy, to-one relationships lazy, nplus1_threshold=0, nplus1_threshold=None, max_params_count=2, full prefetch first. Only statement counts may differ (guard: they do).',
         'SQLite only; prefetch strategy = a prefetching scan of every entity at the start of the session.', 'DESIGN.md section 3 C23'),
 'C26': ('VX+DM', 'exploration',
         'bounded-exhaustive enumeration of entity diagrams x naming overlays; catalog introspection (SQLite) and parsed DDL (PostgreSQL/MySQL/Oracle) against a spec-derived model',
         'Every diagram of the option space (5 relationship kinds, required/optional, 6 primary-key kinds, cascade_delete, unique/composite_key/composite_index/index, nullable, defaults, inheritance chain/fork/diamond x 3 discriminator forms) with <= 3 entities plus naming overlays is rendered to class statements and mapped on four dialects. SQLite: real catalog vs model (columns, nullability, pk, uniques, indexes, FK targets, ON DELETE, m2m tables, table set), check_tables on a second Database, create order. Others: DDL of the real providers parsed and held to the same model plus name length/distinctness, FK types, statement order.',
         'PostgreSQL/MySQL/Oracle servers are replaced by a DDL parser with modelled identifier limits and namespaces (model-based). Names the user wrote are not judged; any exception up to script generation counts as refusal.', 'DESIGN.md section 3 C26'),
 'C28': ('VX', 'model_checking',
         'exhaustive enumeration of mutation programs of length <= 2 executed on a real tracked value and on a plain deep copy (reference model), state graph over documents',
         'Every program of length <= 2 over 55 mutating method/operator forms of dict and list, at every container of two Json documents spanning all nesting chains to depth 2 and of Int/Str/Float arrays, reached through the attribute, through aliases bound at every path prefix and through 9 last-hop access forms, with/without flush, from 5 object origins: in-memory value, status, value read by a new session after commit and neighbouring attributes equal the plain-copy reference. ~8k read-only programs must leave the status unchanged and emit no write SQL.',
         'SQLite only (the other backends share the TrackedValue code). Programs that build shared sub-objects through *= are not judged.', 'DESIGN.md section 3 C28'),
 'C09': ('SX', 'model_checking',
         'explicit-state BFS over operation histories on the real session cache; twin execution (session view before commit) vs independent raw dump after commit',
         'All histories of depth 2 (+ depth 3 ending in commit/end/rollback/raise) over the generated operation alphabet of 13 (thorough 21) entity models, from an empty and a populated database: after every commit the raw rows decoded with the column mapping equal the public view a twin read just before the commit; every other transition leaves the committed rows untouched.',
         'SQLite only; alphabets are small by construction (two objects per entity + one creatable, ints {0,1}, strs {u1,u2}); bulk Query.delete(bulk=True) is excluded here because it bypasses the cache by design (judged in C15).', 'DESIGN.md section 3 C09'),
 'C10': ('SX', 'model_checking',
         'explicit-state BFS; differential of every read inside the session vs the same read in a fresh session after commit',
         'For every distinct state reached by histories of depth <= 2 and every read of a ~100-member read family (Entity[pk], get, exists, select by keyword/generator, count/sum/max, projections, attribute reads, collection len/count/is_empty/in/iteration/select, to_dict, select_by_sql) the answer inside the session equals the answer a fresh session gives after the history is committed. flush is part of the alphabet, so reads after a flush are compared with the same reference.',
         'quick tier: depth 2 only for six core models and only reads naming objects/attributes of the history; latent key conflicts with unloaded rows are skipped (C14).', 'DESIGN.md section 3 C10'),
 'C11': ('SX', 'model_checking',
         'explicit-state BFS; identity probes over 9+ routes per object and an index-consistency probe in every state',
         'In every distinct state of depth <= 2: Entity[pk], get, select(**kw), select(generator), select_by_sql, navigation from every neighbour and back, pickle round trip and make_proxy all return the identical object; SessionCache.indexes agrees with the values the live objects hold.',
         'the index probe reads internal names (indexes, _vals_, _pkval_, _status_); SQLite only.', 'DESIGN.md section 3 C11'),
 'C12': ('SX', 'model_checking',
         'explicit-state BFS; symmetry check of the public view in every state',
         'In every distinct state of depth <= 2 (thorough 3) the public view, read once without and once with a preceding flush, is symmetric for every pair of reverse attributes (one-to-many, one-to-one, many-to-many, symmetric, self-referencing).',
         'views that raise (implicit flush of a latent conflict) are not judged here (C10/C13).', 'DESIGN.md section 3 C12'),
 'C13': ('SX', 'model_checking',
         'explicit-state BFS; twin differential around every failing modification call (observable state, writes and rows of a following commit)',
         'For every create/assignment/set(**kw)/collection change/delete that raises at the end of a history of depth <= 2 (thorough 3): the public view, the outcome of a following commit, the multiset of write statements of the whole session and the committed rows equal those of the twin in which the call was not made.',
         'failures raised by an implicit flush roll the session back by design and are skipped; SQLite only.', 'DESIGN.md section 3 C13'),
 'C14': ('SX', 'model_checking',
         'explicit-state BFS; duplicate-key checks on committed rows and on the session view, flush-time conflicts leave rows unchanged',
         'Histories of depth <= 2 (+ depth 3 ending in flush/commit) with key moves, delete-then-recreate, explicit ids meeting unloaded rows and optional unique keys holding None: no commit leaves two rows with equal declared keys, no state holds two live objects with equal keys, and a conflict found at flush time leaves the committed rows exactly as they were.',
         'SQLite enforces the UNIQUE constraints Pony declares (schema correctness is C26); any exception counts as reported, AssertionError/KeyError are counted as ungraceful.', 'DESIGN.md section 3 C14'),
 'C15': ('SX', 'model_checking',
         'explicit-state BFS; declarative deletion closure as reference model, PRAGMA foreign_key_check / integrity_check after commit',
         'Every obj.delete(), delete(query) and Query.delete(bulk=True) at the end of histories of depth <= 2 (thorough 3) over all 21 models (cascade True/False/default x required/optional x relationship kind): the view after equals the deletion closure of the view before, a refused delete changes nothing, the committed database has no dangling reference.',
         'closure computed from the declaration as resolved at mapping time (cascade_delete, is_required); delete(query) may stop half way (object-by-object) and bulk delete is judged for dangling references only.', 'DESIGN.md section 3 C15'),
 'C16': ('SX', 'model_checking',
         'explicit-state BFS; outcome classification of every flush/commit with a cycle oracle computed from a twin',
         'Every flush/commit/leave at the end of histories of depth <= 3: success, a key conflict with an unloaded row, or UnresolvableCyclicDependency exactly when the unsaved created objects reference each other in a cycle; a FOREIGN KEY failure is a violation; a failing flush leaves no committed rows.',
         'single session (no concurrent deletions); SQLite enforces foreign keys immediately.', 'DESIGN.md section 3 C16'),
 'C25': ('VX+DM', 'exploration',
         'bounded-exhaustive enumeration of (dialect, form, length, start, stop) with a Python oracle',
         'Every string length 0..5 x start/stop/index in {omitted,None,-7..7} x {constant, parameter, column} is translated by the '
         'real translator/builder of SQLite, PostgreSQL, MySQL and Oracle and the SQL is executed (SQLite: real engine; others: '
         'SQLite substrate with the documented substr/length/greatest semantics) and compared with Python. The formulas are piecewise '
         'linear with breakpoints at 0 and +-len, so the box covers every region.',
         'PostgreSQL/MySQL/Oracle function semantics are a model (vf/engines/dm.py) written from the vendor manuals; no live server. '
         'NULL column bounds are counted but not judged.', 'DESIGN.md section 3 C25'),
}

NOT_APPLICABLE = {
}

def main():
    props = [json.loads(l) for l in open(os.path.join(V, 'properties.jsonl'))]
    ids = [p['id'] for p in props]
    checks = []
    for pid in ids:
        if pid not in CHECKS: continue
        engine, cat, tech, text, note, ref = CHECKS[pid]
        checks.append(dict(property_id=pid,
                           quick_cmd='%s %s --tier quick' % (PY, pid),
                           thorough_cmd='%s %s --tier thorough' % (PY, pid),
                           evidence_file='/verif/evidence/%s.json' % pid,
                           replay_cmd_template='%s %s --replay {path}' % (PY, pid),
                           engine=engine, technique=tech,
                           level_claimed=dict(category=cat, text=text, design_ref=ref),
                           level_note=note))
    na = []
    for pid in ids:
        if pid in CHECKS: continue
        na.append(dict(property_id=pid, reason=NOT_APPLICABLE.get(pid, 'check not built yet in this tree (planned: see DESIGN.md section 3)')))
    m = dict(version=1,
             setup_cmd='/venv/bin/python -B -c "import sys; sys.path.insert(0, \'/repo\'); import pony.orm, vf.core, vf.stubs; vf.stubs.install_all(); print(\'vf ok\')"',
             hooks=dict(guard='PONYORM_PONY_VERIF', enable='no source hooks: all seams are public/instance-level (DESIGN.md section 0)',
                        baseline_off_cmd='/verif/tools/baseline.py /repo', source_commits=[], add_only=True),
             engines=[
                 dict(name='SX', path='vf/engines/sx.py', serves_properties=[], kind_free_text='session explorer: explicit-state BFS over operation histories on the real session cache, canonical-state deduplication, twin executions as oracles'),
                 dict(name='VX', path='vf/props', serves_properties=[], kind_free_text='bounded-exhaustive value/declaration/expression enumerators'),
                 dict(name='DM', path='vf/engines/dm.py', serves_properties=['C02', 'C06', 'C25'], kind_free_text='dialect models: capture databases on stub drivers + SQLite substrate with documented function semantics'),
             ],
             checks=checks, not_applicable=na,
             notes='All checks explore the real code of /repo (imported from the working tree, no build step). known_findings.json lists genuine defects recorded rather than repaired; fixed entries suppress nothing.')
    for e in m['engines']:
        if not e['serves_properties']:
            e['serves_properties'] = [c['property_id'] for c in checks if e['name'] in c['engine']]
    json.dump(m, open(os.path.join(V, 'MANIFEST.json'), 'w'), indent=1)
    print('MANIFEST.json: %d checks, %d not_applicable' % (len(checks), len(na)))

if __name__ == '__main__':
    main()
