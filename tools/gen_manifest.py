#!/usr/bin/env python3
"""Regenerates /verif/MANIFEST.json from the table below (single source of truth for the
interface). Run after adding a check:  python3 tools/gen_manifest.py"""
import json, os
V = os.path.dirname(os.path.dirname(os.path.abspath(__file__)))
PY = '/venv/bin/python -B -m vf.run'

# id -> (engine, category, technique, level text, level_note, design_ref)
CHECKS = {
 'C05': ('QX(histories)+PX', 'model_checking',
         'bounded exhaustive exploration of statement histories on the real implementation: every result compared with the same statement executed alone in a pristine forked process',
         'All ordered pairs over a 134-statement pool (78 code-sharing families: one genexpr / lambda / query string run with different values, types and namespaces; raw SQL; aggregates; filters; hybrid functions) x 6 in-session modifications, and (thorough) all ordered triples over a 20-statement core x 36 modification combinations, one db_session per history; quick: all ordered pairs over the core x 6 modifications plus every core statement before and after every other pool statement. Reference: a child forked from a zygote that imported Pony and mapped the schema but never executed a statement. Mismatches are shrunk and re-run in fresh forks before they are reported.',
         'SQLite only (other paramstyles: C30; threads: C22). Histories longer than 3 statements are covered only by the two whole-pool histories. Workers restore the pristine content of all 179 tracked cache containers between histories.', 'DESIGN.md section 3 C05'),
 'C22': ('TX(line points)', 'model_checking',
         'stateless search over thread schedules of the real code under a baton scheduler with line-level scheduling points in the shared-cache functions; iterative preemption bounding',
         'Two (thorough: also three) real OS threads; scheduling points are sys.settrace line events in Query._get_translator, decompile, create_extractors, string2ast, adapt_sql, parse_raw_sql, the cache get/store lines of Query.__init__/_order_by/_process_lambda/_apply_kwargs/_construct_sql_and_arguments/delete, driver calls and the provider locks. 24 two-thread scenarios (thorough + 5 three-thread) built to share cache keys (slice bounds and getattr names invalidating a cached translator, same query strings, raw SQL with $params, hybrid methods, kwargs/order_by, aggregates, limit/offset, bulk delete, collection queries, vartypes), complete up to preemption bound 2 for the stale-translator scenarios and 1 otherwise (thorough 3/2): each thread gets the results and errors it gets running alone. Plus a sequential 15-case matrix: every use of an object of another thread\'s live session must raise.',
         'Not explored: races inside one source line, inside loop bodies over thread-local data, inside functions not listed; schedules beyond the bound. CPython 3.12 with the GIL. The free-running smoke pass decides nothing.', 'DESIGN.md section 3 C22'),
 'C36': ('PX', 'model_checking',
         'exhaustive enumeration of fork histories executed as real process trees with tagged driver-call logs',
         '4 pools (real SQLitePool; PGPool, base Pool and OraPool on recording fakes) x 6 fork points (before bind, idle connection after bind, idle after a session, another thread in an open read session, another thread in an open write transaction that then commits or rolls back, after disconnect) x forking thread x session order x first child sessions x fork depth 1-2: no driver call in a child on a connection or session pool created by another process; the parent keeps working; every read sees exactly the rows committed before it by any process; the child\'s first write session does not block (structural detection under SIGALRM).',
         'pg/base/oracle pools run on fakes over a sqlite file (model-based; shared-socket effects on a real server are not observable). A fork from inside an open session of the forking thread and a fork during another thread\'s running SELECT are excluded.', 'DESIGN.md section 3 C36'),
 'C02': ('QX+DM', 'exploration',
         'bounded-exhaustive enumeration of the C01 query space translated by the real SQLite/PostgreSQL/MySQL code; dialect SQL executed on a SQLite substrate under documented function models',
         'All 3,891 depth-1 QX expressions (+ depth-0 operands) in every C01 quick position, 40 join/group/inheritance forms, 24 LIMIT/OFFSET/page/first forms, 18 count()/exists() forms and 7 COUNT(DISTINCT row) forms (thorough: + 102,996 depth-2 expressions of the decided fragment) through five real provider classes: SQLite (real engine), PostgreSQL and MySQL (SQL text executed on the DM substrate, results returned through Pony\'s own fetch pipeline), Oracle and CockroachDB (render and bind only). Judged against the Python reference evaluator; only what differs between dialects, or fails on a non-SQLite dialect while SQLite agrees with Python, is reported under C02.',
         'Conformance to DOCUMENTED dialect semantics on the decided fragment only (DM function models are trusted base): 31% (PostgreSQL) / 38% (MySQL) of translated queries are undecided (collation, decimal/float division, date arithmetic, ...) and never judged; Oracle/CockroachDB are only rendered. Agreement with live PostgreSQL/MySQL/Oracle/CockroachDB servers is NOT established.', 'DESIGN.md section 3 C02'),
 'C03': ('VX', 'exploration',
         'bounded-exhaustive enumeration of generator/lambda sources compiled by CPython and decompiled; exhaustive truth-table / symbolic equivalence of the ast.unparse-rendered tree',
         'All boolean-structure skeletons (and/or/not/==/</chains/is None/conditional expression) of depth <= 2 in 13 loop/position contexts (thorough: all with <= 4 operators, plus all with 5 in the if position), constant-leaf labelings, a leaf-form catalogue of about 430 forms (operators, attribute chains, calls with */** arguments, subscripts, slices, displays, f-strings, nested generators, lambdas) under 6 wrappers in 4 contexts: the decompiled tree, rendered with ast.unparse, has the same loop structure and the same value/truthiness under every assignment of free names over {0,1,2} ({None,1} for is-None operands) or under symbolic evaluation. Rejections are counted. Decompile-cache histories over dropped code objects (recycled id(code)) and closures.',
         'Decided for CPython 3.12 bytecode only. 5-operator skeletons are covered in the if position only. 133 known minimal shapes (conditional expressions in boolean contexts, chained comparisons, constant operands, *args calls).', 'DESIGN.md section 3 C03'),
 'C04': ('VX', 'exploration',
         'bounded-exhaustive regeneration check of ast2src plus end-to-end comparison of bound parameters with in-place Python evaluation; cache histories over call sites',
         'Oracle 1: ast2src over an 87-operator, 20-leaf alphabet (all single-compound-child pairs, full depth-2 trees over level representatives; thorough: all 3-chains and depth-3 class representatives, 2.2M trees) judged by re-parsing. Oracle 2: 2.7k (thorough 35k) typed expressions used as external sub-expression of a real query on SQLite through 5 front ends with names shadowed across locals/closure/globals under 6 assignments; the bound DB-API parameter (read from the driver log) equals in-place Python evaluation. Cache histories: 129 steps over call sites with differing namespaces, parameter types and shadowing.',
         'SQLite only; values within +-2^62; decompiler mis-decompilations are attributed to C03; ast.parse/unparse/compile of CPython 3.12 are trusted. 32 known findings.', 'DESIGN.md section 3 C04'),
 'C17': ('FX', 'fault_enumeration',
         'enumeration of every driver-call index x fault class (and real fork crashes) over write programs, judged against the committed snapshots of the fault-free run',
         'Write programs of depth <= 3 (creates, updates, cascading deletes, many-to-many links, raw db.execute statements, optional commit() in the middle, guarded commit/raw statements) x {optimistic, immediate, serializable} x every driver-call index x {OperationalError, IntegrityError, InterfaceError, lost acknowledgement} on the real SQLite engine with the default rollback journal; an observer connection reads the committed rows before every call (what abandoning the connection there leaves) and forked children os._exit at chosen calls (hot journals replayed). Oracle: the committed rows equal snapshot S_a, or S_a+1 only if a driver commit was issued since the last acknowledgement, and the injected error leaves the session. PostgreSQL path: the real PGProvider and core.py on a fake psycopg2 connection with autocommit flag and statement log, 5 fault classes including reconnectable ones: no write with autocommit on, the writes of a commit interval sit in one transaction which is the one committed.',
         'Process death only (no power-loss / fsync model). PostgreSQL is MODEL-BASED; server-side behaviour and the MySQL reconnect path are out of reach. Thorough adds fault pairs and more fork crashes; its full size (about 170k plans) was run as a 1/9 sample in this sandbox.', 'DESIGN.md section 3 C17'),
 'C19': ('FX+TX', 'fault_enumeration',
         'enumeration of every driver-call index x fault class over 19 session shapes x pool states with lock/pool/session-state post-conditions, plus thread schedules with one faulted session',
         '19 session shapes (read-only, optimistic, immediate, serializable, strict, ddl with create/drop, raw execute/insert/select, get_connection() user transaction, nested, generator run/closed/thrown into, commit/rollback inside, allowed exception, retry, two sessions in a row, disconnect) x {cold pool, warm pool, fresh thread} x every driver-call index x 3 fault classes + lost acknowledgement (thorough: all fault pairs x 9 class combinations). Afterwards: transaction lock not held, pooled connection absent or idle, close at most once per connection and exactly once when dropped, no session state left, a following write session in the same thread and in a new thread succeeds without blocking. Schedule part (TX engine): 2-3 threads, one suffering a fault at its k-th call: no deadlock, unfaulted sessions commit.',
         'SQLite provider only; a violation is reported only if it reproduces on a second execution.', 'DESIGN.md section 3 C19'),
 'C24': ('QX', 'exploration',
         'bounded-exhaustive enumeration of query-method chains with all bounds against list semantics of the predecessor result',
         '20 base queries (entities, value/tuple projections with duplicates, joins, grouped, aggregate-only) over data sets of 0-4 rows with ties, duplicates and None x all method chains of length <= 2 (thorough: restricted length 3) over {slices, limit, page, first, get, exists, count, sum/min/max/avg/group_concat, distinct/without_distinct, 9 filter/where forms, 11 order_by/sort_by forms, order_by(None), random, iteration over / membership in a limited subquery, delete bulk or not} with all bounds 0..n+1: every step equals the Python list operation on the actual result of its predecessor (cross-checked with the QX evaluator for the base); positions are demanded only under total orders; deletes are judged on a fresh-session dump.',
         'SQLite only. Length-3 chains are restricted (n <= 3 data sets, 15 bases, reduced grids) as stated in coverage.length_3_chains. Exceptions are refusals and counted.', 'DESIGN.md section 3 C24'),
 'C29': ('QX', 'exploration',
         'bounded-exhaustive enumeration of JSON documents and arrays x query operations x JSON1 on/off against the operation on the decoded value',
         '2,847 JSON documents (quick: a stated 229-document covering subset) of nesting <= 2 over keys {a, "b c", q"t, "1"} and 7 scalars, and all 40 Int/Str/Float arrays of length <= 3, x 1,883 operations (path access by key/index/negative index/parameter, six comparison operators with each scalar type as constant and parameter, None tests, truthiness, len, key/item membership, array index/slice/in/subset/len/equality) executed on SQLite with JSON1 and with json1_available=False (Python fallback UDFs): the result equals the operation on the decoded Python value under the typed three-valued rules.',
         'PostgreSQL/MySQL JSON SQL is only rendered (undecided). Where Python raises or JSON typing differs from Python (False == 0, bool ordering, substring on a string) either answer is accepted and counted.', 'DESIGN.md section 3 C29'),
 'C20': ('TX', 'model_checking',
         'stateless exploration of real thread schedules (cooperative baton passing, iterative preemption bounding) with commit-order monitors',
         '38 session programs over two shared rows (read-modify-write, read-a-write-b, blind writes, float / optimistic=False / volatile control groups, reads through select/get, get_for_update, non-optimistic sessions, delete, create): quick = preemption bound 2 inside a 22-program core, bound 1 for the other of 741 pairs, three sessions at bound 1; thorough = all interleavings of the pairs and three sessions at bound 3. Monitors at every scheduling point with an independent observer connection: stale read at commit, per-row composition in commit order (no committed update lost), rows change only in commits of sessions that end OK, a failing optimistic check is justified by a committed change of a checked column. PostgreSQL: the UPDATE WHERE clause emitted by the real PGProvider covers the read set (statement-log model).',
         'Statement granularity (driver calls and provider-lock acquires); races inside one driver call are not explored. timeout=0 turns SQLite busy-waits into immediate errors ("writers wait or fail"). PostgreSQL/MySQL server behaviour is out of reach.', 'DESIGN.md section 3 C20'),
 'C21': ('TX', 'model_checking',
         'stateless exploration of reader x committing-writer schedules; equality of repeated observations as oracle',
         '30 reader programs that re-observe attributes, collections and link attributes by different routes (query, other side of a relationship, get_for_update, lazy load, prefetch, collection.load, len/count/in/is_empty) x 14 committing writers (update, delete, move/unlink/insert into a loaded collection, many-to-many add/remove, one-to-one swap, volatile-only changes): quick preemption bound 2 (420 pairs), thorough all interleavings plus reader + two writers at bound 2. Every key observed twice has equal values or the reader gets an exception; volatile attributes are the control group (a volatile-only change must not raise).',
         'SQLite only; statement granularity.', 'DESIGN.md section 3 C21'),
 'C35': ('TX', 'model_checking',
         'stateless exploration of locker x writer and locker x locker schedules with a lock-window monitor; emission check on the PostgreSQL builder',
         '18 locker programs (get_for_update, query.for_update, nowait, skip_locked, read-then-lock, two rows, serializable, immediate) against 12 writers and each other: quick bound 2 (387 pairs) + triples at bound 1, thorough all interleavings + triples at bound 3. No other session\'s commit changes a locked or serializably-read row between the lock and the locker\'s last commit/rollback; re-reads under lock are equal; composition in commit order; no deadlock. PostgreSQL: FOR UPDATE [NOWAIT|SKIP LOCKED] rendered exactly when requested (41 request shapes), locking SELECT with autocommit off, SET TRANSACTION ISOLATION LEVEL SERIALIZABLE first (statement-log model).',
         'On SQLite the lock is the process-wide provider lock plus BEGIN IMMEDIATE. PostgreSQL row-lock blocking is out of reach (emission and transaction mode only, model-based).', 'DESIGN.md section 3 C35'),
 'C18': ('VX', 'exploration',
         'bounded-exhaustive enumeration of db_session forms x configurations x body scripts against a reference outcome function, with leak probes',
         'Every combination of db_session form (decorator with retry 0-2, context manager, 2-3 nested sessions, generator functions driven by next/send/throw/close, the Flask and Bottle integrations on stub frameworks), configuration (allowed_exceptions / retry_exceptions as lists, callables and raising callables; strict/immediate/serializable/optimistic/ddl/sql_debug) and body script (<= 3 operations over write/flush/commit/rollback/8 exception kinds, a different script per attempt) is executed on real SQLite and compared with a reference outcome function (rows read through an independent connection, number of body executions, propagated exception class), plus leak probes of the thread-local session state, the SQLite transaction lock and a follow-up session.',
         'Flask and Bottle are stubs that call the real integration code. Undocumented points (exception both allowed and retryable, raising callables, ddl/serializable nested in a plain session, allowed_exceptions on generators) accept every reading and are counted. Later attempts are bounded to <= 1-2 operations.', 'DESIGN.md section 3 C18'),
 'C34': ('VX', 'exploration',
         'bounded-exhaustive enumeration of access-rule sets in every declaration order x users x targets against a reference decision and reading-independent laws',
         'All rule sets of 1, 2 and (reduced domain) 3 rules over permissions x target entities (with subclass) x groups x roles x labels x entity exclusions x attribute exclusions on both ends of a relationship, evaluated in every rule order, for every user group subset and every entity/attribute/object target, are checked against a reference decision and against reading-independent laws (order-irrelevance, monotonicity, repeatability, to_json never emitting what can_view denies, can_* consistency).',
         'Rule order is forced through an ordered container substituted for entity._access_rules_[perm] (internal name). For relationship attributes the answer is demanded only when the forward and the reverse reading agree. Repeatability/to_json laws are checked on single rules and the reduced pair domain only.', 'DESIGN.md section 3 C34'),
 'C01': ('QX', 'exploration',
         'bounded-exhaustive enumeration of a typed expression grammar in every query position through three front ends against a typed three-valued reference evaluator',
         'Every expression of a typed grammar (int/float/Decimal arithmetic, comparisons and chains, None tests, in/not in over lists/collections/subqueries, and/or/not, conditional expressions, string operations and slices, casts, date parts and date arithmetic, relationship navigation, aggregates over collections and nested generators, between/coalesce/concat/f-strings, hybrid methods, isinstance) at depth 1 (3,891 expressions + 33 leaves; thorough adds 135,865 depth-2 expressions with operand lists pruned by type) in every position (filter, projection, (p.id, E) tuple, order_by asc/desc, nested subquery, aggregate argument) with column, constant and bound-parameter operands, through select("text"), select(generator) and Entity.select(lambda), on SQLite over a pairwise product of boundary values, compared per row with a reference evaluator working on the expression tree (set / bag / sequence-up-to-ties as documented); failures are reduced to the minimal failing operator and its operand value classes.',
         'SQLite only. Depth 2 is exhaustive over pruned operand lists and runs in projection/filter positions. Rows for which Python has no answer (ZeroDivisionError, attribute of None, None slice bound, None against a non-empty collection, ordering of None, group_concat order) accept either outcome. Decimal compared with tolerance 0.005, floats 1e-9 relative. 12 defect families are recorded as known findings (integer //, %, / follow SQL truncation; Decimal parameters bound as text; ...).', 'DESIGN.md section 3 C01'),
 'C27': ('VX', 'model_checking',
         'exhaustive enumeration of access-route sequences over inheritance hierarchies; Python isinstance on creation classes as reference',
         '5 hierarchies (chain of 3, fork, diamond, int discriminator, explicit str discriminator values) x every sequence of <= 2 (thorough 3) access routes in one fresh session (base-class reference seeds with and without attribute access, Base[pk], Sub[pk], Sub.get, select over every class by generator / Entity.select / select_by_sql, isinstance / not isinstance / isinstance with a tuple inside queries): every object obtained has exactly its creation class, every query over C returns exactly the stored instances of C, Sub[pk] of a non-instance raises ObjectNotFound.',
         'SQLite only; one stored object per class.', 'DESIGN.md section 3 C27'),
 'C06': ('VX+DM', 'exploration',
         'bounded-exhaustive enumeration of parameter patterns, literal strings/values, LIKE patterns and identifiers; executed on SQLite or lexed under dialect lexical models',
         '(a) all order/repetition patterns of <= 4 (thorough 5) parameter occurrences over 3 keys x 4 AST templates x 5 paramstyles x 4 builders, built by the real SQLBuilder, bound by the PEP 249 binder model and executed on SQLite; (b) every string of length <= 3 (thorough 4) over a quote/backslash/percent/LIKE-metacharacter alphabet plus 68 numeric/date/time/bytes/bool boundary values through Value/SQLiteValue/PGValue/MySQLValue x 5 styles, executed (SQLite) or lexed and decoded (others); (c) every LIKE pattern of length <= 3 (thorough 4) over {% _ ! a} as constant/parameter/column in startswith/endswith/in/not in against all subjects through real queries on SQLite; (d) every name of length <= 2 (thorough 3) over {" ` . space ; a} in 8 schema positions with schema creation + CRUD on SQLite, and quote_name re-lexing per dialect.',
         'PostgreSQL/MySQL/Oracle lexical rules and driver %-interpolation are small models (the standard-SQL model is self-checked against SQLite on every string); SQLite date/time literals are judged against the provider\'s own bound-parameter encoding; exceptions raised by Pony itself count as refusals.', 'DESIGN.md section 3 C06'),
 'C30': ('VX+PX', 'exploration',
         'bounded-exhaustive enumeration of raw SQL strings over a fragment alphabet x paramstyles x entry points against a reference substituter; all ordered pairs vs cold results from pristine forked processes',
         'Every SQL string of <= 3 (thorough 4) fragments over {text, $x, $o.y.z, $f(x,\'a)b\'), $d[\'k\'], $(x+1), $x;, $$, %, %%, %s, \'$quoted\', lone $} through adapt_sql x 5 paramstyles, Database.select/get/exists/execute, select_by_sql/get_by_sql and six raw_sql() query forms, with frame scope and explicit dicts, on SQLite (qmark and named, real engine) and PostgreSQL/MySQL/Oracle/numeric capture providers; text+values reaching the database after driver binding are compared with a reference substituter written from the documentation, and on SQLite the echoed rows. All ordered pairs of (entry, style, statement) items are compared with cold results; pristine forked processes give the cold references.',
         'format/pyformat interpolation and numeric/Oracle-named binding are DM models; malformed strings are counted, not judged; pairs are separated by restoring the pristine content of every container/*cache* attribute of pony modules and objects (a cache hidden in a closure is seen only through the forked references).', 'DESIGN.md section 3 C30'),
 'C31': ('SX+VX', 'model_checking',
         'explicit-state BFS; serialisations of every object in every state against the twin session view; pickle round trips across sessions; exhaustive composite-key encoding pairs',
         'In every state of depth <= 1 (thorough 2) from both fixtures: obj.to_dict() under 12 option combinations, serialization.to_dict/Bag/to_json equal the public view of a twin; every loaded object, collection and entity scan is pickled and unpickled in a new session (equal values, identity-map object). All two-part composite keys with parts of length <= 3 over {*, comma, a} are encoded distinctly (encoder and end to end).',
         'SQLite only; the auto-pk model is skipped for dictionary comparison.', 'DESIGN.md section 3 C31'),
 'C32': ('SX', 'model_checking',
         'exhaustive enumeration of (history, pre-read, end kind, strict) session endings x stale-operation alphabet, inside and outside a new session',
         'Sessions of depth <= 1 (thorough 2) x {everything read, nothing read} x {commit, exception, rollback()+leave} x strict {False, True} leave objects of every status; then ~80 stale operations per object are applied outside any session and inside a new one: values read before the end stay readable and equal (non-strict); assignment, set(), collection changes, delete, obj.flush() with pending changes, load() raise a Pony session error, issue no driver call and leave the rows unchanged.',
         '"session error" = any pony.orm.core.OrmError subclass; strict sessions: reads are not judged.', 'DESIGN.md section 3 C32'),
 'C33': ('SX', 'model_checking',
         'explicit-state BFS over histories ending in flush/commit/obj.flush() under 8 hook-body configurations; matching of the merged hook + driver log',
         'For 6 before_* hook bodies (nothing, read, modify self, modify another object, create an object, delete another object) x 2 after_* bodies: every INSERT/UPDATE/DELETE of an object (attributed by table and primary-key parameter of the real SQL) is preceded by exactly one matching before_* call since its previous statement and followed by exactly one after_* call; edits and objects made in before_* hooks are in the committed rows.',
         'a before_* call whose statement is later cancelled by another hook is not excluded by the property and not flagged; SQLite only.', 'DESIGN.md section 3 C33'),
 'C07': ('VX+DM', 'exploration',
         'bounded-exhaustive product of attribute declarations x boundary value grids x write paths, five independent read paths as differential oracle',
         '114 attribute declarations (every basic type with each converter-relevant option, Required and Optional) x per-type boundary grids x {INSERT, UPDATE} on real SQLite: the value a fresh session reads by pk, by projection, and finds when the value is used as query parameter / get() argument / optimistic-check operand equals the value the writing session saw after flush. Plus exhaustive grids over the pure-Python interval, timestamp and DATETIME codecs, precision 0..6 and converter round trips of the PostgreSQL and MySQL providers.',
         'PostgreSQL/MySQL server-side storage is out of reach: only their Python converters run (stub drivers, model-based). Float equality uses the documented 1e-14 tolerance, NaN is not judged, values Pony refuses are counted.', 'DESIGN.md section 3 C07'),
 'C08': ('VX', 'exploration',
         'bounded-exhaustive product of declarations x candidates around every bound x six entry points against a three-valued reference predicate',
         'About 900 (thorough 2,000) declarations mapped for real (int size x unsigned x min x max, float/Decimal bounds incl. zero/negative/fractional, str max_len x autostrip x nullable, py_check, default, the other basic types, malformed declarations) x candidates b-1,b,b+1 around every bound plus wrong types, through constructor, default, assignment, set(), Entity.get(attr=v) and select(attr=v); compared with a reference predicate written from the API reference and differentially across entry points.',
         'the reference predicate (vf/props/_c08_ref.py) is trusted base; undocumented conversions are "undecided": both outcomes accepted, soundness of the stored value still checked. max_len=0 is treated as "no limit" as Pony does throughout.', 'DESIGN.md section 3 C08'),
 'C23': ('SX', 'model_checking',
         'explicit-state BFS over read/modify histories; the same history replayed under seven loading strategies, observation sequences must be identical',
         'Histories of depth <= 2 (thorough 3) of attribute reads, navigation, collection iteration/len/count/in/is_empty, key look-ups, scans and modifications on the populated fixture of 10 relationship models, replayed under: default, every scalar lazy, to-one relationships lazy, nplus1_threshold=0, nplus1_threshold=None, max_params_count=2, full prefetch first. Only statement counts may differ (guard: they do).',
         'SQLite only; prefetch strategy = a prefetching scan of every entity at the start of the session.', 'DESIGN.md section 3 C23'),
 'C26': ('VX+DM', 'exploration',
         'bounded-exhaustive enumeration of entity diagrams x naming overlays; catalog introspection (SQLite) and parsed DDL (PostgreSQL/MySQL/Oracle) against a spec-derived model',
         'Every diagram of the option space (5 relationship kinds, required/optional, 6 primary-key kinds, cascade_delete, unique/composite_key/composite_index/index, nullable, defaults, inheritance chain/fork/diamond x 3 discriminator forms) with <= 3 entities plus naming overlays is rendered to class statements and mapped on four dialects. SQLite: real catalog vs model (columns, nullability, pk, uniques, indexes, FK targets, ON DELETE, m2m tables, table set), check_tables on a second Database, create order. Others: DDL of the real providers parsed and held to the same model plus name length/distinctness, FK types, statement order.',
         'PostgreSQL/MySQL/Oracle servers are replaced by a DDL parser with modelled identifier limits and namespaces (model-based). Names the user wrote are not judged; any exception up to script generation counts as refusal.', 'DESIGN.md section 3 C26'),
 'C28': ('VX', 'model_checking',
         'exhaustive enumeration of mutation programs of length <= 2 executed on a real tracked value and on a plain deep copy (reference model), state graph over documents',
         'Every program of length <= 2 over 55 mutating method/operator forms of dict and list, at every container of two Json documents spanning all nesting chains to depth 2 and of Int/Str/Float arrays, reached through the attribute, through aliases bound at every path prefix and through 9 last-hop access forms, with/without flush, from 5 object origins: in-memory value, status, value read by a new session after commit and neighbouring attributes equal the plain-copy reference. ~8k read-only programs must leave the status unchanged and emit no write SQL.',
         'SQLite only (the other backends share the TrackedValue code). Programs that build shared sub-objects through *= are not judged.', 'DESIGN.md section 3 C28'),
 'C09': ('SX', 'model_checking',
         'explicit-state BFS over operation histories on the real session cache; twin execution (session view before commit) vs independent raw dump after commit',
         'All histories of depth 2 (+ depth 3 ending in commit/end/rollback/raise) over the generated operation alphabet of 13 (thorough 21) entity models, from an empty and a populated database: after every commit the raw rows decoded with the column mapping equal the public view a twin read just before the commit; every other transition leaves the committed rows untouched.',
         'SQLite only; alphabets are small by construction (two objects per entity + one creatable, ints {0,1}, strs {u1,u2}); bulk Query.delete(bulk=True) is excluded here because it bypasses the cache by design (judged in C15).', 'DESIGN.md section 3 C09'),
 'C10': ('SX', 'model_checking',
         'explicit-state BFS; differential of every read inside the session vs the same read in a fresh session after commit',
         'For every distinct state reached by histories of depth <= 2 and every read of a ~100-member read family (Entity[pk], get, exists, select by keyword/generator, count/sum/max, projections, attribute reads, collection len/count/is_empty/in/iteration/select, to_dict, select_by_sql) the answer inside the session equals the answer a fresh session gives after the history is committed. flush is part of the alphabet, so reads after a flush are compared with the same reference.',
         'quick tier: depth 2 only for six core models and only reads naming objects/attributes of the history; latent key conflicts with unloaded rows are skipped (C14).', 'DESIGN.md section 3 C10'),
 'C11': ('SX', 'model_checking',
         'explicit-state BFS; identity probes over 9+ routes per object and an index-consistency probe in every state',
         'In every distinct state of depth <= 2: Entity[pk], get, select(**kw), select(generator), select_by_sql, navigation from every neighbour and back, pickle round trip and make_proxy all return the identical object; SessionCache.indexes agrees with the values the live objects hold.',
         'the index probe reads internal names (indexes, _vals_, _pkval_, _status_); SQLite only.', 'DESIGN.md section 3 C11'),
 'C12': ('SX', 'model_checking',
         'explicit-state BFS; symmetry check of the public view in every state',
         'In every distinct state of depth <= 2 (thorough 3) the public view, read once without and once with a preceding flush, is symmetric for every pair of reverse attributes (one-to-many, one-to-one, many-to-many, symmetric, self-referencing).',
         'views that raise (implicit flush of a latent conflict) are not judged here (C10/C13).', 'DESIGN.md section 3 C12'),
 'C13': ('SX', 'model_checking',
         'explicit-state BFS; twin differential around every failing modification call (observable state, writes and rows of a following commit)',
         'For every create/assignment/set(**kw)/collection change/delete that raises at the end of a history of depth <= 2 (thorough 3): the public view, the outcome of a following commit, the multiset of write statements of the whole session and the committed rows equal those of the twin in which the call was not made.',
         'failures raised by an implicit flush roll the session back by design and are skipped; SQLite only.', 'DESIGN.md section 3 C13'),
 'C14': ('SX', 'model_checking',
         'explicit-state BFS; duplicate-key checks on committed rows and on the session view, flush-time conflicts leave rows unchanged',
         'Histories of depth <= 2 (+ depth 3 ending in flush/commit) with key moves, delete-then-recreate, explicit ids meeting unloaded rows and optional unique keys holding None: no commit leaves two rows with equal declared keys, no state holds two live objects with equal keys, and a conflict found at flush time leaves the committed rows exactly as they were.',
         'SQLite enforces the UNIQUE constraints Pony declares (schema correctness is C26); any exception counts as reported, AssertionError/KeyError are counted as ungraceful.', 'DESIGN.md section 3 C14'),
 'C15': ('SX', 'model_checking',
         'explicit-state BFS; declarative deletion closure as reference model, PRAGMA foreign_key_check / integrity_check after commit',
         'Every obj.delete(), delete(query) and Query.delete(bulk=True) at the end of histories of depth <= 2 (thorough 3) over all 21 models (cascade True/False/default x required/optional x relationship kind): the view after equals the deletion closure of the view before, a refused delete changes nothing, the committed database has no dangling reference.',
         'closure computed from the declaration as resolved at mapping time (cascade_delete, is_required); delete(query) may stop half way (object-by-object) and bulk delete is judged for dangling references only.', 'DESIGN.md section 3 C15'),
 'C16': ('SX', 'model_checking',
         'explicit-state BFS; outcome classification of every flush/commit with a cycle oracle computed from a twin',
         'Every flush/commit/leave at the end of histories of depth <= 3: success, a key conflict with an unloaded row, or UnresolvableCyclicDependency exactly when the unsaved created objects reference each other in a cycle; a FOREIGN KEY failure is a violation; a failing flush leaves no committed rows.',
         'single session (no concurrent deletions); SQLite enforces foreign keys immediately.', 'DESIGN.md section 3 C16'),
 'C25': ('VX+DM', 'exploration',
         'bounded-exhaustive enumeration of (dialect, form, length, start, stop) with a Python oracle',
         'Every string length 0..5 x start/stop/index in {omitted,None,-7..7} x {constant, parameter, column} is translated by the '
         'real translator/builder of SQLite, PostgreSQL, MySQL and Oracle and the SQL is executed (SQLite: real engine; others: '
         'SQLite substrate with the documented substr/length/greatest semantics) and compared with Python. The formulas are piecewise '
         'linear with breakpoints at 0 and +-len, so the box covers every region.',
         'PostgreSQL/MySQL/Oracle function semantics are a model (vf/engines/dm.py) written from the vendor manuals; no live server. '
         'NULL column bounds are counted but not judged.', 'DESIGN.md section 3 C25'),
}

NOT_APPLICABLE = {
}

def main():
    props = [json.loads(l) for l in open(os.path.join(V, 'properties.jsonl'))]
    ids = [p['id'] for p in props]
    checks = []
    for pid in ids:
        if pid not in CHECKS: continue
        engine, cat, tech, text, note, ref = CHECKS[pid]
        checks.append(dict(property_id=pid,
                           quick_cmd='%s %s --tier quick' % (PY, pid),
                           thorough_cmd='%s %s --tier thorough' % (PY, pid),
                           evidence_file='/verif/evidence/%s.json' % pid,
                           replay_cmd_template='%s %s --replay {path}' % (PY, pid),
                           engine=engine, technique=tech,
                           level_claimed=dict(category=cat, text=text, design_ref=ref),
                           level_note=note))
    na = []
    for pid in ids:
        if pid in CHECKS: continue
        na.append(dict(property_id=pid, reason=NOT_APPLICABLE.get(pid, 'check not built yet in this tree (planned: see DESIGN.md section 3)')))
    m = dict(version=1,
             setup_cmd='/venv/bin/python -B -c "import sys; sys.path.insert(0, \'/repo\'); import pony.orm, vf.core, vf.stubs; vf.stubs.install_all(); print(\'vf ok\')"',
             hooks=dict(guard='PONYORM_PONY_VERIF', enable='no source hooks: all seams are public/instance-level (DESIGN.md section 0)',
                        baseline_off_cmd='/verif/tools/baseline.py /repo', source_commits=[], add_only=True),
             engines=[
                 dict(name='SX', path='vf/engines/sx.py', serves_properties=[], kind_free_text='session explorer: explicit-state BFS over operation histories on the real session cache, canonical-state deduplication, twin executions as oracles'),
                 dict(name='QX', path='vf/engines/qx.py', serves_properties=[], kind_free_text='query-space enumerator with a typed three-valued reference evaluator'),
                 dict(name='TX', path='vf/engines/tx.py', serves_properties=[], kind_free_text='stateless explorer of real thread schedules: baton passing at driver calls and provider locks, iterative preemption bounding, deadlock detection, replay determinism check'),
                 dict(name='FX', path='vf/engines/fx.py', serves_properties=[], kind_free_text='fault and crash enumerator over numbered driver calls (error classes, lost acknowledgements, observer crash, fork + os._exit)'),
                 dict(name='VX', path='vf/props', serves_properties=[], kind_free_text='bounded-exhaustive value/declaration/expression enumerators'),
                 dict(name='DM', path='vf/engines/dm.py', serves_properties=['C02', 'C06', 'C25'], kind_free_text='dialect models: capture databases on stub drivers + SQLite substrate with documented function semantics'),
             ],
             checks=checks, not_applicable=na,
             notes='All checks explore the real code of /repo (imported from the working tree, no build step). known_findings.json lists genuine defects recorded rather than repaired; fixed entries suppress nothing.')
    for e in m['engines']:
        if not e['serves_properties']:
            e['serves_properties'] = [c['property_id'] for c in checks if e['name'] in c['engine']]
    json.dump(m, open(os.path.join(V, 'MANIFEST.json'), 'w'), indent=1)
    print('MANIFEST.json: %d checks, %d not_applicable' % (len(checks), len(na)))

if __name__ == '__main__':
    main()
