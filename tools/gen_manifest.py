#!/usr/bin/env python3
"""Regenerates /verif/MANIFEST.json from the table below (single source of truth for the
interface). Run after adding a check:  python3 tools/gen_manifest.py"""
import json, os
V = os.path.dirname(os.path.dirname(os.path.abspath(__file__)))
PY = '/venv/bin/python -B -m vf.run'

# id -> (engine, category, technique, level text, level_note, design_ref)
CHECKS = {
 'C25': ('VX+DM', 'exploration',
         'bounded-exhaustive enumeration of (dialect, form, length, start, stop) with a Python oracle',
         'Every string length 0..5 x start/stop/index in {omitted,None,-7..7} x {constant, parameter, column} is translated by the '
         'real translator/builder of SQLite, PostgreSQL, MySQL and Oracle and the SQL is executed (SQLite: real engine; others: '
         'SQLite substrate with the documented substr/length/greatest semantics) and compared with Python. The formulas are piecewise '
         'linear with breakpoints at 0 and +-len, so the box covers every region.',
         'PostgreSQL/MySQL/Oracle function semantics are a model (vf/engines/dm.py) written from the vendor manuals; no live server. '
         'NULL column bounds are counted but not judged.', 'DESIGN.md section 3 C25'),
}

NOT_APPLICABLE = {
}

def main():
    props = [json.loads(l) for l in open(os.path.join(V, 'properties.jsonl'))]
    ids = [p['id'] for p in props]
    checks = []
    for pid in ids:
        if pid not in CHECKS: continue
        engine, cat, tech, text, note, ref = CHECKS[pid]
        checks.append(dict(property_id=pid,
                           quick_cmd='%s %s --tier quick' % (PY, pid),
                           thorough_cmd='%s %s --tier thorough' % (PY, pid),
                           evidence_file='/verif/evidence/%s.json' % pid,
                           replay_cmd_template='%s %s --replay {path}' % (PY, pid),
                           engine=engine, technique=tech,
                           level_claimed=dict(category=cat, text=text, design_ref=ref),
                           level_note=note))
    na = []
    for pid in ids:
        if pid in CHECKS: continue
        na.append(dict(property_id=pid, reason=NOT_APPLICABLE.get(pid, 'check not built yet in this tree (planned: see DESIGN.md section 3)')))
    m = dict(version=1,
             setup_cmd='/venv/bin/python -B -c "import sys; sys.path.insert(0, \'/repo\'); import pony.orm, vf.core, vf.stubs; vf.stubs.install_all(); print(\'vf ok\')"',
             hooks=dict(guard='PONYORM_PONY_VERIF', enable='no source hooks: all seams are public/instance-level (DESIGN.md section 0)',
                        baseline_off_cmd='/verif/tools/baseline.py /repo', source_commits=[], add_only=True),
             engines=[
                 dict(name='VX', path='vf/props', serves_properties=[], kind_free_text='bounded-exhaustive value/declaration/expression enumerators'),
                 dict(name='DM', path='vf/engines/dm.py', serves_properties=['C02', 'C06', 'C25'], kind_free_text='dialect models: capture databases on stub drivers + SQLite substrate with documented function semantics'),
             ],
             checks=checks, not_applicable=na,
             notes='All checks explore the real code of /repo (imported from the working tree, no build step). known_findings.json lists genuine defects recorded rather than repaired; fixed entries suppress nothing.')
    for e in m['engines']:
        if not e['serves_properties']:
            e['serves_properties'] = [c['property_id'] for c in checks if e['name'] in c['engine']]
    json.dump(m, open(os.path.join(V, 'MANIFEST.json'), 'w'), indent=1)
    print('MANIFEST.json: %d checks, %d not_applicable' % (len(checks), len(na)))

if __name__ == '__main__':
    main()
