#!/opt/veriftools/pyvenv/bin/python
import sys, json, glob, jsonschema
schema = json.load(open('/root/.vp/EVIDENCE.schema.json'))
bad = 0
for f in sorted(sys.argv[1:] or glob.glob('/verif/evidence/*.json')):
    try: jsonschema.validate(json.load(open(f)), schema)
    except Exception as e: bad += 1; print('INVALID', f, str(e)[:300])
m = json.load(open('/verif/MANIFEST.json'))
jsonschema.validate(m, json.load(open('/root/.vp/MANIFEST.schema.json')))
print('manifest ok; evidence files invalid:', bad)
sys.exit(1 if bad else 0)
