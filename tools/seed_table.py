#!/usr/bin/env python3
"""[--write: into DESIGN.md between the SEED-TABLE markers] Prints the markdown table of seeded changes (DESIGN.md section 11.5) from seeded/*/meta.json."""
import json, os, glob
V = os.path.dirname(os.path.dirname(os.path.abspath(__file__)))
def short(s, n):
    s = ' '.join(s.split())
    return s if len(s) <= n else s[:n - 1].rsplit(' ', 1)[0] + ' …'
import sys, io
out = io.StringIO()
_print = print
def print(*a): _print(*a, file=out)
print('| id | change | needs | result |')
print('|---|---|---|---|')
for d in sorted(glob.glob(os.path.join(V, 'seeded', '*'))):
    p = os.path.join(d, 'meta.json')
    if not os.path.exists(p): continue
    m = json.load(open(p)); c = m.get('confirmed', {})
    checks = c.get('checks', {})
    caught = sorted('%s (%s)' % (k, t) for k, tv in checks.items() for t, v in tv.items() if v.get('exit') == 1)
    caught = [x for x in caught if not (x.endswith('(thorough)') and x.replace('(thorough)', '(quick)') in caught)]
    missed = sorted(k for k, tv in checks.items() if all(v.get('exit') == 0 for v in tv.values()))
    if c.get('note'): res = c['note']
    elif caught: res = 'caught by ' + ', '.join(caught)
    elif missed: res = 'MISSED by ' + ', '.join(missed)
    else: res = 'not evaluated'
    print('| %s | %s | %s | %s |' % (os.path.basename(d), short(m['what'], 150).replace('|', '/'), short(m['needs'], 130).replace('|', '/'), res))
if '--write' in sys.argv:
    p = os.path.join(V, 'DESIGN.md'); d = open(p).read()
    a, b = d.index('<!-- SEED-TABLE-BEGIN -->') + len('<!-- SEED-TABLE-BEGIN -->'), d.index('<!-- SEED-TABLE-END -->')
    open(p, 'w').write(d[:a] + '\n' + out.getvalue() + d[b:])
else: sys.stdout.write(out.getvalue())
