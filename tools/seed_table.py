#!/usr/bin/env python3
"""Prints the markdown table of seeded changes (DESIGN.md section 11.5) from seeded/*/meta.json."""
import json, os, glob
V = os.path.dirname(os.path.dirname(os.path.abspath(__file__)))
def short(s, n):
    s = ' '.join(s.split())
    return s if len(s) <= n else s[:n - 1].rsplit(' ', 1)[0] + ' …'
print('| id | change | needs | result |')
print('|---|---|---|---|')
for d in sorted(glob.glob(os.path.join(V, 'seeded', '*'))):
    p = os.path.join(d, 'meta.json')
    if not os.path.exists(p): continue
    m = json.load(open(p)); c = m.get('confirmed', {})
    checks = c.get('checks', {})
    caught = sorted(k for k, v in checks.items() if v.get('exit') == 1)
    missed = sorted(k for k, v in checks.items() if v.get('exit') == 0)
    if c.get('note'): res = c['note']
    elif caught: res = 'caught by ' + ', '.join('%s (%s)' % (k, checks[k].get('tier', 'quick')) for k in caught)
    elif missed: res = 'MISSED by ' + ', '.join(missed)
    else: res = 'not evaluated'
    print('| %s | %s | %s | %s |' % (os.path.basename(d), short(m['what'], 150).replace('|', '/'), short(m['needs'], 130).replace('|', '/'), res))
