#!/bin/bash
# usage: all_tiers.sh quick|thorough [ids...]  - runs the checks sequentially, one summary line each
tier=$1; shift
ids="$@"; [ -z "$ids" ] && ids=$(python3 -c "import json;print(' '.join(c['property_id'] for c in json.load(open('/verif/MANIFEST.json'))['checks']))")
for p in $ids; do
  out=$(/venv/bin/python -B -m vf.run $p --tier $tier 2>&1); rc=$?
  echo "$p rc=$rc $(echo "$out" | grep "^$p tier" | cut -c1-200)"
  echo "$out" | grep -A1 "^VIOLATION\|HARNESS" | cut -c1-300
done
