"""Standalone repro (C30, unchanged tree): the result_type of raw_sql() is not part of RawSQLType
identity, so the same query code called again with another result_type reuses the first translation.
usage: python C30-rawsql-result-type-repro.py [repo]   -> exit 1 when the defect is present"""
import sys
sys.path.insert(0, sys.argv[1] if len(sys.argv) > 1 else '/repo')
from pony.orm import *
db = Database()
class P(db.Entity):
    name = Required(str)
db.bind('sqlite', ':memory:')
db.generate_mapping(create_tables=True)
with db_session:
    P(name='6'); P(name='7')
def q(rt): return sorted(select(raw_sql('p.name', rt) for p in P)[:])
with db_session:
    first = q(str)      # ['6', '7']
    second = q(int)     # cold process: [6, 7]; here: ['6', '7'] (translation of the first call reused)
print(first, second)
sys.exit(0 if second == [6, 7] else 1)
