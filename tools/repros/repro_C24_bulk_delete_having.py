"""Query.delete(bulk=True) after a filter with an aggregate over a collection deletes EVERY row of the entity."""
import sys; sys.path.insert(0, sys.argv[1] if len(sys.argv) > 1 else '/repo')
from pony.orm import *
db = Database()
class Person(db.Entity):
    name = Required(str)
    tags = Set('Tag')
class Tag(db.Entity):
    w = Required(int)
    persons = Set(Person)
db.bind('sqlite', ':memory:'); db.generate_mapping(create_tables=True)
with db_session:
    t1, t2 = Tag(w=1), Tag(w=1)
    Person(name='a', tags=[t1, t2]); Person(name='b'); Person(name='c', tags=[t1])
with db_session:
    q = select(p for p in Person).filter(lambda p: count(p.tags) < 2)
    print('selected:', sorted(p.name for p in q))
    sql_debug(True)
    n = q.delete(bulk=True)
    sql_debug(False)
    commit()
    left = sorted(p.name for p in Person.select())
    print('deleted', n, 'left:', left)
    sys.exit(0 if left == ['a'] else 1)
