#!/usr/bin/env python3
"""seed_record.py <sweep.log> [...]: parse seed_sweep logs and record per seeded change what was run and
what each check answered into seeded/<ID>/meta.json (key 'confirmed'); prints a summary table."""
import sys, re, json, os
V = os.path.dirname(os.path.dirname(os.path.abspath(__file__)))
rows = {}
TIER = 'quick'
args = sys.argv[1:]
if '--tier' in args: TIER = args[args.index('--tier') + 1]; del args[args.index('--tier'):args.index('--tier') + 2]
for log in args:
    cur = None
    for line in open(log):
        m = re.match(r'=== (\S+) \((.*)\)', line)
        if m: cur = m.group(1); rows.setdefault(cur, {}); continue
        if cur is None: continue
        m = re.match(r'demo on (clean|patched) tree: exit (\d+)', line)
        if m: rows[cur]['demo_' + m.group(1)] = int(m.group(2)); continue
        m = re.match(r'baseline: baseline stable=(\d+) passed_now=(\d+) missing=(\d+)', line)
        if m: rows[cur]['baseline_missing'] = int(m.group(3)); continue
        if line.startswith('PATCH DOES NOT APPLY'): rows[cur]['patch'] = 'does not apply to current HEAD'; continue
        m = re.match(r'(C\d+): exit (\d+), (\d+) new violation signature', line)
        if m: rows[cur].setdefault('checks', {}).setdefault(m.group(1), {})[TIER] = dict(exit=int(m.group(2)), new_signatures=int(m.group(3)))
for sid, r in sorted(rows.items()):
    p = os.path.join(V, 'seeded', sid, 'meta.json')
    if not os.path.exists(p): continue
    meta = json.load(open(p))
    conf = meta.setdefault('confirmed', {})
    for k, v in r.items():
        if k == 'checks':
            for ck, tv in v.items(): conf.setdefault('checks', {}).setdefault(ck, {}).update(tv)
        else: conf[k] = v
    conf['how'] = 'tools/seed_eval.py in a scratch worktree of /repo HEAD: demo on clean and patched tree, tools/baseline.py on the patched tree, named checks with VF_REPO=<worktree>'
    json.dump(meta, open(p, 'w'), indent=1)
    caught = ['%s(%s)' % (c, t) for c, tv in conf.get('checks', {}).items() for t, v in tv.items() if v['exit'] == 1]
    print('%-7s demo %s/%s baseline_missing=%s caught_by=%s' % (sid, conf.get('demo_clean'), conf.get('demo_patched'), conf.get('baseline_missing'), ','.join(caught) or '-'))
