"""Runner core: context object handed to every property module, evidence writer,
known-findings matcher, replay files, process pool helper.

Contract with the harness (MANIFEST.json):
  exit 0  property held on everything explored (KNOWN-FINDING lines allowed)
  exit 1  at least one violation not listed in known_findings.json; a line
          "VIOLATION property=<id> replay=<path>" is printed for each distinct signature
  exit 2  the harness itself is broken (vacuity guard, replay divergence, internal error)
"""
import os, sys, json, time, hashlib, traceback, random

VERIF = os.path.dirname(os.path.dirname(os.path.abspath(__file__)))
REPO = os.environ.get('VF_REPO', '/repo')

def setup_paths():
    """/repo first on sys.path so that the working tree is what gets imported."""
    if REPO in sys.path: sys.path.remove(REPO)
    sys.path.insert(0, REPO)
    sys.dont_write_bytecode = True

setup_paths()

LEVELS = ('exploration', 'fault_enumeration', 'model_checking', 'proof',
          'translation_validation', 'other')

class HarnessError(Exception):
    pass

def jsonable(x, depth=0):
    if depth > 12: return repr(x)
    if x is None or isinstance(x, (bool, int, str)): return x
    if isinstance(x, float):
        if x != x or x in (float('inf'), float('-inf')): return repr(x)
        return x
    if isinstance(x, (list, tuple)): return [jsonable(i, depth + 1) for i in x]
    if isinstance(x, (set, frozenset)):
        return sorted((jsonable(i, depth + 1) for i in x), key=lambda v: json.dumps(v, sort_keys=True, default=repr))
    if isinstance(x, dict): return {str(k): jsonable(v, depth + 1) for k, v in x.items()}
    return repr(x)

class Ctx(object):
    def __init__(self, prop, tier, seed, level):
        assert level in LEVELS
        self.prop, self.tier, self.seed, self.level = prop, tier, seed, level
        self.quick = tier == 'quick'
        self.rng = random.Random(seed)      # only ever used to permute enumeration order
        self.t0 = time.time()
        self.counters = {}
        self.cov = {}                       # extra coverage keys
        self.samples = []
        self.assumptions = []
        self.found = {}                     # signature -> dict(case, message, n)
        self.guards = []                    # (name, value, minimum)
        self.caps = []
        self.exhaustive = True
        self.nworkers = int(os.environ.get('VF_WORKERS', '0')) or min(16, os.cpu_count() or 1)

    # ---- bookkeeping ----------------------------------------------------------------------
    def count(self, name, n=1):
        self.counters[name] = self.counters.get(name, 0) + n
    def merge_counters(self, d):
        for k, v in d.items(): self.count(k, v)
    def sample(self, obj, limit=8):
        if len(self.samples) < limit: self.samples.append(jsonable(obj))
    def assume(self, text):
        if text not in self.assumptions: self.assumptions.append(text)
    def cap(self, text):
        self.exhaustive = False
        if text not in self.caps: self.caps.append(text)
    def guard(self, name, value, minimum=1):
        self.guards.append((name, value, minimum))
    def shuffled(self, seq):
        """Enumeration order is permuted by VERIF_SEED; the covered set is not."""
        seq = list(seq)
        if self.seed: self.rng.shuffle(seq)
        return seq

    # ---- violations -----------------------------------------------------------------------
    def violation(self, signature, case, message=''):
        """Record one failing case under its (minimal-shape) signature. The first case per
        signature is kept for the replay file; later ones are only counted."""
        e = self.found.get(signature)
        if e is None:
            self.found[signature] = dict(case=jsonable(case), message=message, n=1)
        else:
            e['n'] += 1
    def merge_found(self, found):
        for sig, e in found.items():
            mine = self.found.get(sig)
            if mine is None: self.found[sig] = dict(e)
            else: mine['n'] += e['n']

    # ---- parallel map ---------------------------------------------------------------------
    def pmap(self, func, items, chunksize=1, workers=None, hang_timeout=None, on_hang=None):
        """Fork-based pool; func must be a module-level function. Falls back to serial.
        hang_timeout (seconds without ANY task finishing): code under test that blocks for good (a leaked
        lock, a deadlock outside the scheduler) must end as a finding, not as a check that never returns.
        on_hang(unfinished_items) is called, the pool is killed and the results so far are returned."""
        items = list(items)
        n = workers or self.nworkers
        if n <= 1 or len(items) <= 1:
            return [func(i) for i in items]
        import multiprocessing as mp
        from vf.seams import dbapi
        dbapi.scratch_dir()          # created in the parent so that it is also removed by the parent
        pool = mp.get_context('fork').Pool(min(n, len(items)))
        if hang_timeout is None:
            try:
                return pool.map(func, items, chunksize)
            finally:
                pool.close(); pool.join()
        pending = [(it, pool.apply_async(func, (it,))) for it in items]
        results, last_progress, done = {}, time.time(), set()
        try:
            while len(done) < len(pending):
                progressed = False
                for i, (it, ar) in enumerate(pending):
                    if i in done or not ar.ready(): continue
                    results[i] = ar.get(); done.add(i); progressed = True
                if progressed: last_progress = time.time()
                elif time.time() - last_progress > hang_timeout:
                    unfinished = [it for i, (it, ar) in enumerate(pending) if i not in done]
                    if on_hang is not None: on_hang(unfinished)
                    self.cap('%d task(s) did not finish within %ds of the last progress and were killed' % (len(unfinished), hang_timeout))
                    break
                else: time.sleep(0.2)
        finally:
            pool.terminate(); pool.join()
        return [results[i] for i in sorted(results)]

class Sub(object):
    """Light-weight stand-in for Ctx inside worker processes: collects counters / found /
    samples and is merged back by Ctx.absorb()."""
    def __init__(self):
        self.counters, self.found, self.samples, self.caps = {}, {}, [], []
    count = Ctx.count
    violation = Ctx.violation
    def sample(self, obj, limit=4):
        if len(self.samples) < limit: self.samples.append(jsonable(obj))
    def cap(self, text):
        if text not in self.caps: self.caps.append(text)
    def dump(self):
        return dict(counters=self.counters, found=self.found, samples=self.samples, caps=self.caps)

def absorb(ctx, dumped):
    ctx.merge_counters(dumped['counters'])
    ctx.merge_found(dumped['found'])
    for s in dumped['samples']: ctx.sample(s)
    for c in dumped.get('caps', ()): ctx.cap(c)

# ---- known findings ------------------------------------------------------------------------
def load_known():
    path = os.path.join(VERIF, 'known_findings.json')
    if not os.path.exists(path): return []
    with open(path) as f: return json.load(f)['findings']

def match_known(known, prop, signature):
    for k in known:
        if k['property'] == prop and k.get('status', 'open') == 'open' and k['signature'] == signature:
            return k
    return None

# ---- finish ----------------------------------------------------------------------------------
def finish(ctx, coverage):
    """coverage: dict with the level's keys filled in by the property module."""
    known = load_known()
    new, matched = [], []
    for sig in sorted(ctx.found):
        k = match_known(known, ctx.prop, sig)
        (matched if k else new).append((sig, k))
    for sig, k in matched:
        print('KNOWN-FINDING: property=%s %s [signature=%s cases=%d]'
              % (ctx.prop, k['what'], sig, ctx.found[sig]['n']))
    replay_dir = os.path.join(VERIF, 'replays')
    for sig, _ in new:
        os.makedirs(replay_dir, exist_ok=True)
        h = hashlib.sha1(sig.encode()).hexdigest()[:10]
        path = os.path.join(replay_dir, '%s-%s.json' % (ctx.prop, h))
        e = ctx.found[sig]
        with open(path, 'w') as f:
            json.dump(dict(property=ctx.prop, signature=sig, message=e['message'], case=e['case'],
                           cases_with_this_signature=e['n']), f, indent=1, sort_keys=True, default=repr)
        print('VIOLATION property=%s replay=%s' % (ctx.prop, path))
        print('  signature: %s' % sig)
        if e['message']: print('  ' + str(e['message'])[:600])
    broken = [(n, v, m) for (n, v, m) in ctx.guards if v < m]
    cov = dict(coverage)
    cov.setdefault('samples', ctx.samples or ['(no sample recorded)'])
    cov['exhaustive'] = bool(ctx.exhaustive and cov.get('exhaustive', True))
    cov['counters'] = dict(sorted(ctx.counters.items()))
    cov['caps_hit'] = ctx.caps
    cov['guards'] = [dict(name=n, value=v, minimum=m) for (n, v, m) in ctx.guards]
    cov['known_findings_matched'] = [dict(signature=s, cases=ctx.found[s]['n']) for s, _ in matched]
    cov['new_violation_signatures'] = [s for s, _ in new]
    for k, v in ctx.cov.items(): cov.setdefault(k, v)
    ev = dict(property_id=ctx.prop, tier=ctx.tier, seed=ctx.seed, level=ctx.level,
              coverage=jsonable(cov), assumptions=ctx.assumptions,
              wall_s=round(time.time() - ctx.t0, 3), violations=len(new))
    os.makedirs(os.path.join(VERIF, 'evidence'), exist_ok=True)
    with open(os.path.join(VERIF, 'evidence', ctx.prop + '.json'), 'w') as f:
        json.dump(ev, f, indent=1, sort_keys=True)
    summ = ' '.join('%s=%s' % (k, cov[k]) for k in
                    ('evaluations', 'distinct_nontrivial', 'states', 'transitions',
                     'traces_validated_against_impl', 'exhaustive') if k in cov)
    print('%s tier=%s seed=%d %s known=%d new=%d wall=%.1fs'
          % (ctx.prop, ctx.tier, ctx.seed, summ, len(matched), len(new), ev['wall_s']))
    if broken:
        for n, v, m in broken:
            print('HARNESS-BROKEN: vacuity guard %r = %r < %r' % (n, v, m))
        if not new: return 2
    return 1 if new else 0
