"""FX - fault and crash enumerator over the REAL code (DESIGN section 2).

A *program* is a callable program(world, px) that runs one or more complete sessions against
world.db through Pony's public API. px is a Progress object on which the program announces its
commit points: px.start() right before it asks Pony to commit (explicit commit() or leaving the
db_session), px.ack() right after that returned normally.

One execution = World.run(program, plan):
  * the file database (default rollback journal, NOT journal_mode=MEMORY) is restored from a pristine
    copy in /dev/shm, Pony's pool is disconnected, thread-local session state is verified clean;
  * every driver call of the calling thread is numbered 0..N-1 by a Monitor installed as
    vf.seams.dbapi.ENV.handler (connect, cursor, execute, executemany, commit, rollback, close and the
    connection-level PRAGMA executes Pony issues itself);
  * plan = {k: fault} raises the fault *instead of* driver call k; {('after', k): fault} performs
    commit call k for real and fails afterwards (lost acknowledgement); fault is one of FAULT_KINDS
    or 'crash' (os._exit(77), only meaningful inside crash_run's forked child);
  * with observe=True the committed rows are read through an independent raw sqlite3 connection
    before every driver call (except right after a cursor() call, which executes nothing): obs[k] is exactly what abandoning the connection at call k (a crash
    without the journal replay) leaves behind - the quick tier's crash plan;
  * the result (Exec) carries the driver-call log, which faults fired, the propagated exception, the
    progress events, the observed committed states and the final committed rows (fresh connection).

World.crash_run(program, k) is the real thing: the program runs in a forked child that os._exit()s
at driver call k; progress events travel through a pipe; the parent then opens the file with a new
connection (SQLite replays a hot journal) and dumps it.

Fault plans are enumerated by the property modules with single_plans() / pair_plans(): every k of a
shape, then every pair k1 < k2 where k2 ranges over the calls of the run that already suffered the
first fault (failed commit then failed rollback, failed rollback then failed close, ...).
"""
import os, sys, sqlite3, threading, shutil, weakref, gc, itertools
from vf import core
from vf.seams import dbapi

FAULT_KINDS = ('operational', 'integrity', 'interface')

def sqlite_exc(kind):
    if kind == 'operational': return sqlite3.OperationalError('vf injected')
    if kind == 'integrity': return sqlite3.IntegrityError('vf injected')
    if kind == 'interface': return sqlite3.InterfaceError('vf injected')
    raise AssertionError(kind)

# every controlled connection created in this process since the last World.reset(): (serial, weak reference, thread).
# Weak references on purpose: a connection Pony has forgotten must be free to die (its destructor closes it), as it
# would in an application - e.g. after a failed rollback followed by a failed close.
REGISTRY = []
_serial = itertools.count(1)

def register(con):
    con.vf_serial = next(_serial)
    con.vf_thread = threading.get_ident()
    REGISTRY.append((con.vf_serial, weakref.ref(con), con.vf_thread))

class ExcSummary(object):
    """what is kept of the exception a program ended with (the object itself would keep frames, and through them
    connections, alive)"""
    def __init__(self, e):
        self.cls, self.name, self.text = type(e), type(e).__name__, str(e)[:300]
    def __repr__(self): return '%s(%r)' % (self.name, self.text)

class FxConnection(dbapi.VfConnection):
    """VfConnection + registration + a post-commit hook (fault after the real commit happened)."""
    def __init__(self, *a, **k):
        dbapi.VfConnection.__init__(self, *a, **k)
        register(self)
    def commit(self):
        r = dbapi.VfConnection.commit(self)
        h = dbapi.ENV.handler
        if h is not None and hasattr(h, 'after_call'): h.after_call('commit', self)
        return r

class Monitor(object):
    """dbapi.ENV.handler for one execution. Only calls of the thread that created it are numbered
    and can be hit by the plan; calls of other threads are only recorded (close counting)."""
    def __init__(self, world, plan=None, observe=False, progress_fd=None, make_exc=sqlite_exc):
        self.world, self.plan, self.observe = world, dict(plan or {}), observe
        self.progress_fd, self.make_exc = progress_fd, make_exc
        self.thread = threading.get_ident()
        self.armed = True
        self.n = 0
        self.calls = []            # (kind, sql) of numbered calls
        self.fired = []            # (key, kind of the driver call, fault)
        self.obs = []              # (k, dump): committed rows seen by an independent connection before call k, when changed
        self.last = None
        self.raw = None
        self.close_attempts = {}   # connection serial -> number of close() calls (any thread, any phase)
        self.other_calls = 0
    def __call__(self, kind, sql, args, con):
        if kind == 'close' and con is not None:
            self.close_attempts[con.vf_serial] = self.close_attempts.get(con.vf_serial, 0) + 1
        if not self.armed or threading.get_ident() != self.thread:
            self.other_calls += 1
            return
        k = self.n
        self.n = k + 1
        self.calls.append((kind, sql))
        if self.progress_fd is not None and kind == 'commit': os.write(self.progress_fd, b'c')
        if self.observe and not (k and self.calls[k - 1][0] == 'cursor'): self.look(k)   # cursor() cannot change committed rows
        f = self.plan.get(k)
        if f is not None: self.fire(k, kind, f)
    def after_call(self, kind, con):
        if not self.armed or threading.get_ident() != self.thread: return
        key = ('after', self.n - 1)
        f = self.plan.get(key)
        if f is not None: self.fire(key, kind, f)
    def fire(self, key, kind, f):
        self.fired.append((key, kind, f))
        if f == 'crash': os._exit(77)
        raise self.make_exc(f)
    def look(self, k):
        if self.raw is None: self.raw = self.world.raw_connection()
        d = self.world.dump(self.raw)
        if d != self.last:
            self.obs.append((k, d)); self.last = d
    def stop(self):
        self.armed = False
        if self.raw is not None:
            self.raw.close(); self.raw = None

class Progress(object):
    """commit points announced by the program: events are (name, driver calls issued so far)"""
    def __init__(self, mon, snapshots=False):
        self.mon, self.events, self.snaps, self.snapshots = mon, [], [], snapshots
        self.notes = []
    def _ev(self, name, byte):
        self.events.append((name, self.mon.n))
        if self.mon.progress_fd is not None: os.write(self.mon.progress_fd, byte)
    def start(self): self._ev('start', b's')
    def ack(self):
        self._ev('ack', b'a')
        if self.snapshots: self.snaps.append(self.mon.world.dump())
    def caught(self, exc):
        """the program itself caught an exception and goes on"""
        self._ev('caught', b'x')
        self.notes.append(type(exc).__name__)
    def note(self, x): self.notes.append(x)

def summarize(events):
    """(acked, started) commit points of an event list"""
    return sum(1 for e in events if e[0] == 'ack'), sum(1 for e in events if e[0] == 'start')

class Exec(object):
    __slots__ = ('n', 'calls', 'fired', 'exc', 'events', 'snaps', 'obs', 'final', 'notes', 'mon', 'hygiene')
    def acked(self): return summarize(self.events)[0]
    def started(self): return summarize(self.events)[1]
    def exc_name(self): return None if self.exc is None else self.exc.name
    def commit_issued_since(self, pos):
        return any(kind == 'commit' for kind, _ in self.calls[pos:])
    def kinds(self): return [c[0] for c in self.calls]

class World(object):
    """One bound Database over a file in /dev/shm. define(db, orm) declares entities; populate(E, orm)
    builds the initial committed rows through Pony once (captured as a pristine file copy)."""
    _n = 0
    def __init__(self, name, define, populate=None, create_tables=True, **bind_kwargs):
        from pony import orm
        self.orm, self.name = orm, name
        World._n += 1
        d = dbapi.scratch_dir()
        self.path = os.path.join(d, 'fx-%s-%d-%d.sqlite' % (name, os.getpid(), World._n))
        self.pristine = self.path + '.pristine'
        self._unlink()
        self.db = db = orm.Database()
        define(db, orm)
        dbapi.ENV.reset()
        db.bind('sqlite', self.path, create_db=True, factory=FxConnection, timeout=0, **bind_kwargs)
        db.generate_mapping(create_tables=create_tables)
        self.E = dict(db.entities)
        if populate is not None:
            with orm.db_session: populate(self.E, orm)
        db.disconnect()
        shutil.copyfile(self.path, self.pristine)
        raw = self.raw_connection()
        self.tables = [r[0] for r in raw.execute(
            "select name from sqlite_master where type='table' and name not like 'sqlite_%' order by name")]
        jm = raw.execute('PRAGMA journal_mode').fetchone()[0]
        raw.close()
        if jm.lower() != 'delete': raise core.HarnessError('FX expects the default rollback journal, got %r' % jm)
        self.mon = None
        del REGISTRY[:]

    # ---- files / raw access -----------------------------------------------------------------
    def _unlink(self):
        for p in (self.path, self.path + '-journal', self.path + '-wal', self.path + '-shm', self.pristine):
            if os.path.exists(p): os.unlink(p)
    def raw_connection(self):
        return sqlite3.connect(self.path, isolation_level=None, timeout=0)
    def dump(self, con=None, tables=None):
        """committed rows as an independent connection sees them now: ((table, rows), ...). Tables that
        do not exist (ddl shapes) are reported as None."""
        own = con is None
        if own: con = self.raw_connection()
        try:
            out = []
            for t in (tables or self.tables):
                try: rows = tuple(sorted(con.execute('select * from "%s"' % t).fetchall(), key=repr))
                except sqlite3.OperationalError as e:
                    if 'no such table' not in str(e): raise
                    rows = None
                out.append((t, rows))
            return tuple(out)
        finally:
            if own: con.close()

    # ---- hygiene between executions -----------------------------------------------------------
    def hygiene(self):
        """Bring process state back to 'no session, no connection, locks free'. Returns the list of
        things that had to be forced (the property modules have judged the state before this)."""
        forced = []
        local = self.orm.core.local
        if local.db2cache or local.db_session is not None or local.db_context_counter:
            forced.append('thread-local session state')
            local.db2cache.clear(); local.db_session = None; local.db_context_counter = 0
        prov = self.db.provider
        for name in ('transaction_lock', 'pre_transaction_lock'):
            lk = getattr(prov, name, None)
            if lk is not None and lk.locked():
                forced.append(name); setattr(prov, name, threading.Lock())
        dbapi.ENV.reset()
        try: self.db.disconnect()
        except Exception: forced.append('disconnect failed')
        pool = prov.pool
        if getattr(pool, 'con', None) is not None:
            forced.append('pool connection'); pool.con = None
        for serial, ref, thread in REGISTRY:
            con = ref()
            if con is not None and con.vf_pid == os.getpid(): self.force_close(con)
        del REGISTRY[:]
        return forced
    def force_close(self, con):
        try: sqlite3.Connection.close(con)
        except Exception: pass
    def reset(self):
        forced = self.hygiene()
        shutil.copyfile(self.pristine, self.path)
        for suffix in ('-journal', '-wal', '-shm'):
            if os.path.exists(self.path + suffix): os.unlink(self.path + suffix)
        return forced
    def warm_up(self):
        """leave an idle connection in the calling thread's pool (not numbered, not faulted)"""
        with self.orm.db_session:
            self.db.select('select 1')

    # ---- executions -------------------------------------------------------------------------
    def run(self, program, plan=None, warm=False, observe=False, snapshots=False, make_exc=sqlite_exc):
        x = Exec()
        x.hygiene = self.reset()
        if warm: self.warm_up()
        self.mon = mon = Monitor(self, plan, observe=observe, make_exc=make_exc)
        dbapi.ENV.reset(handler=mon)
        px = Progress(mon, snapshots)
        x.exc = None
        try: program(self, px)
        except Exception as e: x.exc = ExcSummary(e)
        if any(kind == 'close' for _, kind, _ in mon.fired): gc.collect()    # forgotten connections die as they would in an application
        mon.stop()
        x.n, x.calls, x.fired, x.obs, x.mon = mon.n, mon.calls, mon.fired, mon.obs, mon
        x.events, x.snaps, x.notes = px.events, px.snaps, px.notes
        x.final = self.dump()
        return x

    def crash_run(self, program, k, after=False):
        """program in a forked child that dies at driver call k (after=True: right after the real
        commit call k returned). Returns dict(code, events, commit_issued_after_last_ack, final,
        journal_left)."""
        self.reset()
        sys.stdout.flush(); sys.stderr.flush()
        r, w = os.pipe()
        pid = os.fork()
        if pid == 0:
            code = 3
            try:
                os.close(r)
                mon = Monitor(self, {(('after', k) if after else k): 'crash'}, progress_fd=w)
                dbapi.ENV.reset(handler=mon)
                try: program(self, Progress(mon)); code = 0
                except BaseException: code = 4
            finally:
                os._exit(code)
        os.close(w)
        data = b''
        while True:
            chunk = os.read(r, 4096)
            if not chunk: break
            data += chunk
        os.close(r)
        _, status = os.waitpid(pid, 0)
        code = os.waitstatus_to_exitcode(status)
        journal_left = os.path.exists(self.path + '-journal')
        final = self.dump()                     # new connection: replays a hot journal
        text = data.decode()
        last_ack = text.rfind('a')
        return dict(code=code, acked=text.count('a'), started=text.count('s'),
                    commit_issued=('c' in text[last_ack + 1:]), final=final, journal_left=journal_left,
                    progress=text)

    def close(self):
        self.hygiene()
        self._unlink()

# ---- plan enumeration -----------------------------------------------------------------------------
def single_plans(n, kinds=FAULT_KINDS, after_commits=()):
    """every driver-call index x every fault kind (+ 'after' plans on the given commit indexes)"""
    out = [{k: f} for k in range(n) for f in kinds]
    out += [{('after', k): f} for k in after_commits for f in kinds[:1]]
    return out

def pair_plans(k1, f1, n1, kinds=FAULT_KINDS):
    """second faults for a run that already has fault f1 at k1 and issued n1 driver calls"""
    return [{k1: f1, k2: f2} for k2 in range(k1 + 1, n1) for f2 in kinds]

def plan_key(plan):
    return sorted(('%s%s' % ('after' if isinstance(k, tuple) else '', k[1] if isinstance(k, tuple) else k), f)
                  for k, f in plan.items())

def plan_from_key(key):
    out = {}
    for k, f in key:
        out[('after', int(k[5:])) if str(k).startswith('after') else int(k)] = f
    return out

def call_class(call):
    """stable class of a driver call for signatures: kind + statement verb"""
    kind, sql = call
    if sql:
        words = sql.split()
        verb = words[0].upper()
        if verb in ('PRAGMA', 'BEGIN', 'CREATE', 'DROP') and len(words) > 1: verb += '_' + words[1].upper().split('(')[0].split('=')[0]
        return '%s:%s' % (kind, verb)
    return kind
