"""SX - session explorer: explicit-state search over operation histories on the REAL session cache.

A state is the history that reaches it (live sessions cannot be copied): every execution resets the
rows of a file database in /dev/shm, opens a db_session and replays the history. Canonical states are
used for deduplication only (frontier pruning); oracles are attached by the property modules as
visitors and compare *observations* of twin executions.
"""
import os, sys, sqlite3, itertools, json
from vf import core
from vf.seams import dbapi

EXC = 'exc'

class Skip(Exception):
    """operation not applicable in this state (operand does not exist)"""

class Blocked(BaseException):
    """the operation did not return within the guard time: it is blocked for good"""

def _alarm_guard(seconds):
    """SIGALRM watchdog around one operation (main thread only; lock.acquire is interruptible on POSIX).
    Returns the function that cancels it."""
    import signal, threading
    if threading.current_thread() is not threading.main_thread(): return lambda: None
    def handler(signum, frame): raise Blocked()
    try: old = signal.signal(signal.SIGALRM, handler)
    except ValueError: return lambda: None
    signal.alarm(seconds)
    def cancel():
        signal.alarm(0)
        try: signal.signal(signal.SIGALRM, old)
        except Exception: pass
    return cancel

class Env(object):
    def __init__(self, model, **bind_kwargs):
        from pony import orm
        self.orm = orm
        self.model = model
        d = dbapi.scratch_dir()
        Env._n = getattr(Env, '_n', 0) + 1
        self.path = os.path.join(d, 'sx-%s-%d-%d.sqlite' % (model.name, os.getpid(), Env._n))
        for suffix in ('', '-journal', '-wal', '-shm'):
            if os.path.exists(self.path + suffix): os.unlink(self.path + suffix)
        self.db = db = orm.Database()
        model.define(db)
        db.bind('sqlite', self.path, create_db=True, factory=dbapi.VfConnection, timeout=0, **bind_kwargs)
        @db.on_connect(provider='sqlite')
        def _fast_journal(db, con):
            # SX does not study crashes (FX does, with the default journal): keep the rollback journal in memory
            import sqlite3 as _s
            _s.Connection.execute(con, 'PRAGMA journal_mode = MEMORY')
        db.generate_mapping(create_tables=True)
        self.E = dict((name, e) for name, e in db.entities.items())
        # entity classes are built dynamically: give them an importable home so that they can be pickled
        import types as _types
        modname = 'vf_sx_model_%d' % Env._n
        mod = _types.ModuleType(modname); sys.modules[modname] = mod
        for ename, e in self.E.items():
            e.__module__ = modname; setattr(mod, ename, e)
        self.raw = sqlite3.connect(self.path, isolation_level=None, timeout=0)
        self.raw.execute('PRAGMA journal_mode = MEMORY')
        self.tables = [r[0] for r in self.raw.execute(
            "select name from sqlite_master where type='table' and name not like 'sqlite_%' order by name")]
        self.has_seq = bool(self.raw.execute("select 1 from sqlite_master where name='sqlite_sequence'").fetchall())
        self.fixtures = {'empty': {t: [] for t in self.tables}}
        # populated fixture built through Pony once, captured raw
        with orm.db_session:
            model.populate(self.E)
        self.fixtures['populated'] = self.dump()
        self.fixtures['populated-seeds'] = self.fixtures['populated']     # same rows; sessions start with a navigation prelude
        self.seq = {'empty': [], 'populated-seeds': self.raw.execute('select name, seq from sqlite_sequence').fetchall() if self.has_seq else [], 'populated': self.raw.execute('select name, seq from sqlite_sequence').fetchall() if self.has_seq else []}
        self.roots = {}
        for name, e in self.E.items():
            self.roots[name] = e._root_.__name__
        self.root_entities = sorted(set(self.roots.values()))
        db.disconnect()
        self._ops = None; self._reads = None

    # ---- raw database access ------------------------------------------------------------------
    def dump(self, con=None):
        con = con or self.raw
        out = {}
        for t in self.tables:
            out[t] = sorted(sqlite3.Connection.execute(con, 'select * from "%s"' % t).fetchall(), key=repr)
        return out
    def reset(self, fixture):
        raw = self.raw
        rows = self.fixtures[fixture]
        raw.execute('PRAGMA foreign_keys = false')
        raw.execute('BEGIN IMMEDIATE')
        for t in self.tables:
            raw.execute('delete from "%s"' % t)
            rs = rows[t]
            if rs:
                raw.executemany('insert into "%s" values (%s)' % (t, ','.join('?' * len(rs[0]))), rs)
        if self.has_seq:
            raw.execute('delete from sqlite_sequence')
            if self.seq[fixture]: raw.executemany('insert into sqlite_sequence (name, seq) values (?, ?)', self.seq[fixture])
        raw.execute('COMMIT')
    def close(self):
        try: self.db.disconnect()
        except Exception: pass
        self.raw.close()
        for suffix in ('', '-journal', '-wal', '-shm'):
            if os.path.exists(self.path + suffix): os.unlink(self.path + suffix)

    # ---- decoding the committed rows into the public-view shape --------------------------------
    def decode_dump(self, dump, pk2label=None):
        """{label: {attr: value}} computed from raw rows with the model's column mapping only
        (independent of Pony's loading code)."""
        pk2label = pk2label or {}
        out = {}
        def lab(root, pk):
            return pk2label.get((root, pk), '%s:%s' % (root, pk if not isinstance(pk, tuple) else ','.join(map(str, pk))))
        for rootname in self.root_entities:
            root = self.E[rootname]
            table = root._table_
            tname = table if isinstance(table, str) else table[-1]
            cols = [r[1] for r in self.raw.execute('PRAGMA table_info("%s")' % tname)]
            for row in dump[tname]:
                r = dict(zip(cols, row))
                cls = root
                if root._discriminator_attr_ is not None:
                    dval = r[root._discriminator_attr_.column]
                    for e in [root] + sorted(root._subclasses_, key=lambda e: e.__name__):
                        if e._discriminator_ == dval: cls = e
                pk = tuple(r[c] for c in root._pk_columns_)
                pk = pk[0] if len(pk) == 1 else pk
                vals = {'__class__': cls.__name__}
                for attr in cls._attrs_:
                    if attr.is_collection or attr.is_discriminator: continue
                    if not attr.columns: continue
                    raw = tuple(r[c] for c in attr.columns)
                    if attr.reverse:
                        if any(v is None for v in raw): v = None
                        else: v = lab(attr.py_type._root_.__name__, raw[0] if len(raw) == 1 else raw)
                    else:
                        v = raw[0]
                        if v == '' and attr.py_type is str and not attr.is_required: v = ''
                    vals[attr.name] = v
                out[lab(rootname, pk)] = vals
        # one-to-one reverse sides without column, one-to-many sets, many-to-many sets
        for name in sorted(self.E):
            e = self.E[name]
            for attr in e._new_attrs_:
                rev = attr.reverse
                if not rev: continue
                if attr.is_collection and rev.is_collection:
                    if attr.entity.__name__ + '.' + attr.name > rev.entity.__name__ + '.' + rev.name and attr is not rev: pass
                    tname = attr.table if isinstance(attr.table, str) else attr.table[-1]
                    cols = [r[1] for r in self.raw.execute('PRAGMA table_info("%s")' % tname)]
                    mine = attr.reverse_columns if attr.symmetric else rev.columns  # columns pointing to attr.entity
                    theirs = attr.columns
                    for row in dump[tname]:
                        r = dict(zip(cols, row))
                        a = tuple(r[c] for c in mine); b = tuple(r[c] for c in theirs)
                        a = a[0] if len(a) == 1 else a; b = b[0] if len(b) == 1 else b
                        la = lab(attr.entity._root_.__name__, a); lb = lab(attr.py_type._root_.__name__, b)
                        pairs = [(la, lb)] + ([(lb, la)] if attr.symmetric else [])
                        for x, y in pairs:
                            if x in out: out[x].setdefault(attr.name, set()).add(y)
                elif not attr.columns:
                    # the other side holds the FK
                    for lbl, vals in list(out.items()):
                        pass
        # derive column-less sides from the FK side
        for name in sorted(self.E):
            e = self.E[name]
            for attr in e._new_attrs_:
                rev = attr.reverse
                if not rev or (attr.is_collection and rev.is_collection): continue
                if attr.columns: continue          # this side holds the FK
                for lbl, vals in out.items():
                    cls = self.E[vals['__class__']]
                    if not issubclass(cls, attr.entity): continue
                    if attr.is_collection: vals.setdefault(attr.name, set())
                    else: vals.setdefault(attr.name, None)
                for lbl2, vals2 in out.items():
                    cls2 = self.E[vals2['__class__']]
                    if not issubclass(cls2, rev.entity): continue
                    tgt = vals2.get(rev.name)
                    if tgt is None or tgt not in out: continue
                    if attr.is_collection: out[tgt].setdefault(attr.name, set()).add(lbl2)
                    else: out[tgt][attr.name] = lbl2
        for lbl, vals in out.items():
            cls = self.E[vals['__class__']]
            for attr in cls._attrs_:
                if attr.is_collection: vals[attr.name] = sorted(vals.get(attr.name, ()))
        return out

    # ---- operation alphabet, derived from the model by introspection ---------------------------
    def universe(self, ename):
        return [1, 2, 3]
    def labels_of(self, ename, pks=(1, 2)):
        return ['%s:%d' % (self.roots[ename], k) for k in pks]
    def scalar_domain(self, attr):
        if attr.py_type is int:
            d = [0, 1]
        elif attr.py_type is str:
            d = ['u1', 'u2']
        else: return []
        if not attr.is_required: d = [None] + d
        return d
    def ops(self):
        if self._ops is not None: return self._ops
        ops = []
        auto = self.model.opts.get('pk') == 'auto'
        concrete = sorted(self.E)                       # entity class names incl. subclasses
        for ename in concrete:
            e = self.E[ename]
            req_refs = [a for a in e._attrs_ if a.reverse and a.is_required and not a.is_collection]
            req_scalars = [a for a in e._attrs_ if a.is_required and not a.reverse and not a.is_pk
                           and not a.is_discriminator and a.default is None]
            for pk in ([None] if auto else [1, 2, 3]):
                choices = [[(a.name, ('ref', l)) for l in self.labels_of(a.py_type.__name__)] for a in req_refs]
                choices += [[(a.name, v) for v in self.scalar_domain(a)[:1]] for a in req_scalars]
                combos = list(itertools.product(*choices))
                for combo in combos:
                    ops.append(('create', ename, pk, dict(combo)))
                # the new object receives an existing object through a collection argument: the existing one gets a
                # reference to an object that has no row (and, with an automatic key, no primary key) yet
                if pk in (None, 3):
                    # a value for every optional unique attribute: a creation that fails later must not leave it behind
                    for a in e._attrs_:
                        if a.is_unique and not a.is_pk and not a.is_required and not a.reverse and a.py_type in (int, str):
                            for v in self.scalar_domain(a)[1:]: ops.append(('create', ename, pk, dict(combos[0], **{a.name: v})))
                    for a in e._attrs_:
                        if a.is_collection and a.reverse is not None:
                            items = self.labels_of(a.py_type.__name__)
                            if items: ops.append(('create', ename, pk, dict(combos[0], **{a.name: ('refs', (items[0],))})))
        for root in self.root_entities:
            e = self.E[root]
            all_attrs = []
            for cls in [e] + sorted(e._subclasses_, key=lambda c: c.__name__):
                for a in cls._new_attrs_:
                    if a not in all_attrs: all_attrs.append((cls, a))
            for lbl in self.labels_of(root):
                for cls, a in all_attrs:
                    if a.is_pk or a.is_discriminator: continue
                    if getattr(a, 'pk_offset', None) is not None: continue
                    if a.is_collection:
                        items = self.labels_of(a.py_type.__name__)
                        for it in items:
                            ops.append(('add', lbl, a.name, it))
                            ops.append(('remove', lbl, a.name, it))
                        ops.append(('add', lbl, a.name, self.labels_of(a.py_type.__name__, (3,))[0]))   # an object created in this session
                        ops.append(('clear', lbl, a.name))
                        ops.append(('assign', lbl, a.name, (items[0],)))
                        ops.append(('assign', lbl, a.name, tuple(items)))
                    elif a.reverse:
                        vals = [('ref', l) for l in self.labels_of(a.py_type.__name__, (1, 2, 3))]    # 3: an object created in this session
                        if not a.is_required: vals = [None] + vals
                        for v in vals: ops.append(('set', lbl, a.name, v))
                    else:
                        for v in self.scalar_domain(a): ops.append(('set', lbl, a.name, v))
                # obj.set(**two attributes): first int attr together with first key-ish / reference attr
                plain = [a for cls, a in all_attrs if cls is e and not a.is_collection and not a.is_pk
                         and not a.is_discriminator and not a.reverse and self.scalar_domain(a)]
                refs_ = [a for cls, a in all_attrs if cls is e and a.reverse and not a.is_collection]
                if refs_ and plain:
                    r0, p0 = refs_[0], plain[-1]
                    for tgt in self.labels_of(r0.py_type.__name__):
                        ops.append(('setm', lbl, ((r0.name, ('ref', tgt)), (p0.name, self.scalar_domain(p0)[-1]))))
                if len(plain) >= 2:
                    a1, a2 = plain[0], plain[1]
                    for v1, v2 in ((self.scalar_domain(a1)[-1], self.scalar_domain(a2)[-1]),
                                   (self.scalar_domain(a1)[-2], self.scalar_domain(a2)[-2])):
                        ops.append(('setm', lbl, ((a1.name, v1), (a2.name, v2))))
                keyish = [a for cls, a in all_attrs if cls is e and not a.is_collection and not a.is_pk and not a.reverse
                          and not a.is_discriminator and (a.is_unique or a.composite_keys) and self.scalar_domain(a)]
                for i, k1 in enumerate(keyish):
                    for k2 in keyish[i + 1:]:
                        for v1 in self.scalar_domain(k1)[-2:]:
                            for v2 in self.scalar_domain(k2)[-2:]:
                                ops.append(('setm', lbl, ((k1.name, v1), (k2.name, v2))))
                ops.append(('delete', lbl))
                ops.append(('objflush', lbl))
            ops.append(('bulkdel', root, 'all'))
            ints = [a for a in e._attrs_ if a.py_type is int and not a.is_pk and not a.reverse]
            if ints: ops.append(('bulkdel', root, ints[0].name + ' == 0'))
            ops.append(('qdel', root))
        ops += [('flush',), ('commit',), ('rollback',), ('end',), ('raise',)]
        self._ops = ops
        return ops

    def shaping_reads(self):
        """reads used as history operations because they change the cache state a later operation starts
        from: navigation to an unloaded reference (the program then holds a seed object), count(),
        is_empty(), membership test (partial loads) and iteration (full load) of collections"""
        R = []
        for root in self.root_entities:
            e = self.E[root]
            for lbl in self.labels_of(root):
                for cls in [e] + sorted(e._subclasses_, key=lambda c: c.__name__):
                    for a in cls._new_attrs_:
                        if a.is_collection:
                            R += [('r_ccount', lbl, a.name), ('r_cempty', lbl, a.name), ('r_citer', lbl, a.name),
                                  ('r_cin', lbl, a.name, self.labels_of(a.py_type.__name__)[0])]
                        elif a.reverse: R.append(('r_attr', lbl, a.name))
        return R

    def reads(self):
        if self._reads is not None: return self._reads
        R = []
        for root in self.root_entities:
            e = self.E[root]
            for lbl in self.labels_of(root, (1, 2, 3)):
                R.append(('r_get', lbl)); R.append(('r_idx', lbl))
            R.append(('r_count', root)); R.append(('r_all', root)); R.append(('r_bysql', root))
            for cls in [e] + sorted(e._subclasses_, key=lambda c: c.__name__):
                if cls is not e: R.append(('r_all', cls.__name__)); R.append(('r_count', cls.__name__))
            for a in e._attrs_:
                if a.is_pk or a.is_discriminator or a.is_collection: continue
                if a.reverse:
                    vals = [('ref', l) for l in self.labels_of(a.py_type.__name__)] + [None]
                else:
                    vals = self.scalar_domain(a)
                    if None not in vals: vals = vals + [None]
                for v in vals:
                    R.append(('r_exists', root, a.name, v)); R.append(('r_getby', root, a.name, v))
                    R.append(('r_selkw', root, a.name, v)); R.append(('r_selq', root, a.name, v))
                if a.py_type is int and not a.reverse:
                    R.append(('r_sum', root, a.name)); R.append(('r_max', root, a.name))
                    R.append(('r_proj', root, a.name))
            for lbl in self.labels_of(root):
                R.append(('r_todict', lbl))
                for cls in [e] + sorted(e._subclasses_, key=lambda c: c.__name__):
                    for a in cls._new_attrs_:
                        if a.is_pk or a.is_discriminator: continue
                        if a.is_collection:
                            R += [('r_clen', lbl, a.name), ('r_ccount', lbl, a.name), ('r_cempty', lbl, a.name),
                                  ('r_citer', lbl, a.name), ('r_cselect', lbl, a.name)]
                            for it in self.labels_of(a.py_type.__name__):
                                R.append(('r_cin', lbl, a.name, it))
                        else:
                            R.append(('r_attr', lbl, a.name))
        self._reads = R
        return R

    def run(self, history, fixture='empty', **kw):
        x = Exec(self, fixture, **kw)
        try:
            x.replay(history)
        finally:
            x.finish()
        return x

OPERAND_POS = {'objflush': [1], 'set': [1], 'setm': [1], 'add': [1, 3], 'remove': [1, 3], 'clear': [1], 'assign': [1],
               'delete': [1], 'r_get': [], 'r_idx': [], 'r_todict': [1], 'r_attr': [1], 'r_clen': [1],
               'r_ccount': [1], 'r_cempty': [1], 'r_citer': [1], 'r_cselect': [1], 'r_cin': [1, 3]}

def operands(op):
    """labels an operation needs resolved to objects before the call under test"""
    out = [op[i] for i in OPERAND_POS.get(op[0], ())]
    if op[0] == 'assign': out += list(op[3])
    if op[0] == 'set' and isinstance(op[3], tuple) and op[3][:1] == ('ref',): out.append(op[3][1])
    if op[0] == 'create':
        out += [v[1] for v in op[3].values() if isinstance(v, tuple) and v[:1] == ('ref',)]
        for v in op[3].values():
            if isinstance(v, tuple) and v[:1] == ('refs',): out += list(v[1])
    if op[0] in ('r_exists', 'r_getby', 'r_selkw', 'r_selq') and isinstance(op[3], tuple): out.append(op[3][1])
    return out

MODIFYING = {'objflush', 'create', 'set', 'setm', 'add', 'remove', 'clear', 'assign', 'delete', 'bulkdel', 'qdel'}

class Exec(object):
    """One execution: reset rows, open a db_session, apply operations one by one."""
    def __init__(self, env, fixture='empty', record_sql=True, track_dumps=False):
        self.env = env; self.orm = env.orm
        self.fixture = fixture
        self.obs = []
        self.refs = {}            # label -> object (current session)
        self.labels = {}          # id(object) -> label
        self.keep = []            # strong refs so that id() values stay unique
        self.pk2label = {}        # (root, pk) -> label      (auto pk models)
        self.label2pk = {}
        self.created = {}         # root -> count
        self.sql = []             # driver log (kind, sql, args) of the whole execution
        self.sess = None
        self.skipped = False
        self.died = False         # the last exception rolled the session cache back
        env.reset(fixture)
        self.dumps = [] if track_dumps else None      # [dump before the last operation, dump after it]
        if fixture.startswith('populated') and env.model.opts.get('pk') == 'auto':
            for root in env.root_entities: self.created[root] = 2
        dbapi.ENV.reset(log=self.sql if record_sql else None)
        self.enter()

    # ---- session handling ----------------------------------------------------------------------
    def enter(self):
        self.sess = self.orm.db_session()
        self.sess.__enter__()
        self.refs = {}
        if self.fixture == 'populated-seeds': self.prelude()
    def prelude(self):
        """the program first fetches every object that holds a reference column and navigates the
        reference: the referenced objects are then known to the session as unloaded seeds, and no
        later operand look-up needs a query (so nothing auto-flushes between the operations)"""
        from pony.orm.core import Entity
        E = self.env.E
        def ref_attrs(e):
            out = []
            for cls in [e] + list(e._subclasses_):
                out += [a for a in cls._new_attrs_ if a.reverse and not a.is_collection and a.columns]
            return out
        targets = {}                                 # root entity -> set of root entities that reference it by a column
        for root in self.env.root_entities:
            for a in ref_attrs(E[root]):
                targets.setdefault(a.py_type._root_.__name__, set()).add(root)
        for root in self.env.root_entities:
            incoming = targets.get(root, set())
            if incoming - {root}: continue           # reached by navigation from another entity: stays a seed
            labels = self.env.labels_of(root)
            if root in incoming: labels = labels[1:]  # self-referencing: fetch the second object, meet the first as a seed
            for label in labels:
                try: obj = self.resolve(label)
                except Skip: continue
                for a in ref_attrs(E[root]):
                    if not hasattr(type(obj), a.name): continue
                    v = getattr(obj, a.name)
                    if isinstance(v, Entity):
                        l = self.label_of(v)
                        if l not in self.refs: self.remember(l, v)
    def leave(self, exc=None):
        s, self.sess = self.sess, None
        self.refs = {}
        if exc is None: s.__exit__(None, None, None)
        else: s.__exit__(type(exc), exc, None)
    def finish(self):
        if self.sess is not None:
            try: self.leave(ZeroDivisionError('vf: discard'))
            except Exception: pass
        # make sure nothing is left of the session whatever happened
        from pony.orm import core as pcore
        try:
            if pcore.local.db_session is not None: pcore.local.db_session = None
            cache = pcore.local.db2cache.get(self.env.db)
            if cache is not None:
                try: cache.rollback()
                except Exception: pcore.local.db2cache.pop(self.env.db, None)
        except Exception: pass
        dbapi.ENV.reset()

    # ---- labels -----------------------------------------------------------------------------
    def label_of(self, obj):
        l = self.labels.get(id(obj))
        if l is not None: return l
        root = type(obj)._root_.__name__
        try: pk = obj.get_pk()
        except AttributeError: return '%s:<unfinished object>' % root      # handed out although its creation failed midway
        l = self.pk2label.get((root, pk))
        if l is None:
            l = '%s:%s' % (root, pk if not isinstance(pk, tuple) else ','.join(map(str, pk)))
        return l
    def remember(self, label, obj):
        self.refs[label] = obj
        self.labels[id(obj)] = label
        self.keep.append(obj)
    def sync_pks(self):
        """after a flush: record the primary keys that auto-pk objects received"""
        for label, obj in list(self.refs.items()):
            try: pk = obj._pkval_
            except Exception: pk = None
            if pk is not None:
                root = type(obj)._root_.__name__
                self.pk2label.setdefault((root, pk), label); self.label2pk.setdefault(label, pk)
    def resolve(self, label):
        obj = self.refs.get(label)
        if obj is not None:
            # an object this session has deleted is not a legal operand any more
            if obj._status_ in ('marked_to_delete', 'deleted', 'cancelled'): raise Skip(label)
            return obj
        ename, key = label.split(':')
        e = self.env.E[ename]
        pk = self.label2pk.get(label)
        if pk is None:
            if self.env.model.opts.get('pk') == 'auto' and int(key) > 2 and self.fixture.startswith('populated') or \
               self.env.model.opts.get('pk') == 'auto' and self.fixture == 'empty':
                raise Skip(label)         # auto-pk object that was never flushed / never created
            pk = int(key) if ',' not in key else tuple(int(k) for k in key.split(','))
        obj = e.get(**{a.name: v for a, v in zip(e._pk_attrs_, pk if isinstance(pk, tuple) else (pk,))})
        if obj is None: raise Skip(label)
        self.remember(label, obj)
        return obj
    def val(self, v):
        if isinstance(v, (tuple, list)) and len(v) == 2 and v[0] == 'ref': return self.resolve(v[1])
        if isinstance(v, (tuple, list)) and len(v) == 2 and v[0] == 'refs': return [self.resolve(l) for l in v[1]]
        return v

    # ---- canonical values ------------------------------------------------------------------------
    def cv(self, x):
        from pony.orm.core import Entity, SetInstance, Multiset, QueryResult
        if isinstance(x, Entity): return self.label_of(x)
        if isinstance(x, SetInstance): return sorted(self.label_of(i) for i in x)
        if isinstance(x, (list, tuple, QueryResult)): return [self.cv(i) for i in x]
        if isinstance(x, (set, frozenset)): return sorted((self.cv(i) for i in x), key=repr)
        if isinstance(x, dict): return dict((str(k), self.cv(v)) for k, v in x.items())
        if x is None or isinstance(x, (int, float, str, bool)): return x
        return repr(x)

    # ---- applying operations -----------------------------------------------------------------
    def replay(self, history):
        n = len(history)
        for i, op in enumerate(history):
            if self.dumps is not None and i == n - 1: self.dumps = [self.env.dump()]
            self.apply(op)
            if self.skipped: break
        return self
    def apply(self, op):
        op = tuple(op)
        guard = _alarm_guard(120)
        try:
            r = ('ok', self.cv(getattr(self, 'op_' + op[0])(*op[1:])))
            self._model_update(op, r)
        except Blocked:
            # an operation that blocks for good (e.g. on a leaked provider lock) must end as an observation
            r = (EXC, 'BlockedForGood'); self.last_exc = None; self.died = True; self.refs = {}
            self._force_unlock()
            self.obs.append(r)
            if self.dumps: self.dumps.append(self.env.dump())
            return r
        except Skip:
            self.skipped = True
            r = ('skip', None)
        except Exception as e:
            r = (EXC, type(e).__name__)
            self.last_exc = e
            # delete(query) deletes object by object: when it is refused midway the objects before stay deleted
            # (no atomicity is promised for a multi-object delete), so nothing assigned earlier is certain any more
            if op[0] in ('bulkdel', 'qdel'): self.__dict__.setdefault('facts', {}).clear()
            self._after_exception()
        finally:
            guard()
        self.obs.append(r)
        if self.dumps: self.dumps.append(self.env.dump())
        return r
    def _force_unlock(self):
        import threading
        prov = self.env.db.provider
        for name in ('transaction_lock', 'pre_transaction_lock'):
            lk = getattr(prov, name, None)
            if lk is not None and lk.locked(): setattr(prov, name, threading.Lock())
    # ---- boring reference model of what the program did (facts that later reads must confirm) -------
    def _model_update(self, op, r):
        """facts: (label, attr) -> ('val', v) for scalars / references, ('is', items) | ('has', item) |
        ('hasnot', item) for collections. A fact is dropped as soon as any later operation could
        legitimately change it (same attribute, or any operation on the same relationship from either
        side, deletion, rollback), so a surviving fact is unconditional."""
        F = self.__dict__.setdefault('facts', {})
        k = op[0]
        if k in ('rollback', 'raise'): F.clear(); return
        if k in ('bulkdel', 'qdel'): F.clear(); return
        def rel_names(label, attr):
            e = self.env.E.get(label.split(':')[0])
            a = None
            for cls in [e] + list(e._subclasses_):
                a = a or cls._adict_.get(attr)
            names = {attr}
            if a is not None and a.reverse: names.add(a.reverse.name)
            return names, a
        def invalidate_relationship(names, a=None):
            for key in [key for key in F if key[1] in names]: del F[key]
            if a is not None and a.reverse:
                # changing a link may cascade-delete the objects on either end of the relationship
                ents = {a.py_type._root_.__name__, a.entity._root_.__name__}
                for key in [key for key in F if key[0].split(':')[0] in ents and key[1] not in names]:
                    if a.cascade_delete or a.reverse.cascade_delete: del F[key]
        if k == 'delete':
            F.clear(); return          # cascades may delete or unlink anything
        if k == 'create':
            lbl = r[1]
            for key in [key for key in F if key[0] == lbl]: del F[key]
            for an, v in op[3].items():
                names, a = rel_names(lbl, an)
                if a is not None and a.reverse: invalidate_relationship(names, a)
                if isinstance(v, (tuple, list)) and v[:1] == ('refs',): F[(lbl, an)] = ('is', sorted(v[1]))
                else: F[(lbl, an)] = ('val', v[1] if isinstance(v, (tuple, list)) else v)
            return
        if k in ('set', 'setm'):
            pairs = [(op[2], op[3])] if k == 'set' else list(op[2])
            for an, v in pairs:
                names, a = rel_names(op[1], an)
                if a is not None and a.reverse: invalidate_relationship(names, a)
                F[(op[1], an)] = ('val', v[1] if isinstance(v, (tuple, list)) else v)
            return
        if k in ('add', 'remove', 'clear', 'assign'):
            names, a = rel_names(op[1], op[2])
            invalidate_relationship(names, a)
            if k == 'add': F[(op[1], op[2])] = ('has', op[3])
            elif k == 'remove': F[(op[1], op[2])] = ('hasnot', op[3])
            elif k == 'clear': F[(op[1], op[2])] = ('is', [])
            else: F[(op[1], op[2])] = ('is', sorted(op[3]))
    def facts_violated(self, view):
        """facts contradicted by a public view {label: {attr: value}}"""
        bad = []
        for (lbl, an), (kind, v) in sorted(self.__dict__.get('facts', {}).items()):
            vals = view.get(lbl)
            if vals is None: bad.append('%s.%s:object-missing' % (lbl.split(':')[0], an)); continue
            if an not in vals: continue
            got = vals[an]
            ok = (got == v) if kind == 'val' else (got == v) if kind == 'is' else (v in got) if kind == 'has' else (v not in got)
            if not ok: bad.append('%s.%s:%s' % (lbl.split(':')[0], an, {'val': 'assigned-value-lost', 'is': 'assigned-collection-differs', 'has': 'added-item-missing', 'hasnot': 'removed-item-present'}[kind]))
        return sorted(set(bad))

    def _after_exception(self):
        if self.__dict__.get('facts') and (getattr(self, 'last_exc', None) is not None):
            pass

        # a failing flush/commit inside the session rolls the cache back: objects of it are dead
        from pony.orm import core as pcore
        cache = pcore.local.db2cache.get(self.env.db)
        self.died = cache is None or not cache.is_alive
        if self.died:
            self.refs = {}
            self.__dict__.setdefault('facts', {}).clear()
        else:
            for l, o in list(self.refs.items()):
                if o._session_cache_ is not cache: del self.refs[l]

    def resolve_only(self, labels):
        for l in labels: self.resolve(l)
    op_resolve = lambda self, labels: self.resolve_only(labels)

    def op_create(self, ename, pk, kw):
        e = self.env.E[ename]
        root = self.env.roots[ename]
        kwargs = dict((k, self.val(v)) for k, v in kw.items())
        if pk is not None:
            label = '%s:%d' % (root, pk)
            kwargs[e._pk_attrs_[0].name] = pk
        else:
            n = self.created.get(root, 0) + 1
            label = '%s:%d' % (root, n)
        obj = e(**kwargs)
        if pk is None: self.created[root] = n
        self.remember(label, obj)
        return label
    def op_set(self, label, attr, v):
        obj = self.resolve(label); v = self.val(v)
        if not hasattr(type(obj), attr): raise Skip(label)
        setattr(obj, attr, v)
    def op_setm(self, label, pairs):
        obj = self.resolve(label)
        obj.set(**dict((k, self.val(v)) for k, v in pairs))
    def _coll(self, label, attr):
        obj = self.resolve(label)
        if not hasattr(type(obj), attr): raise Skip(label)
        return getattr(obj, attr)
    def op_add(self, label, attr, item):
        c = self._coll(label, attr); c.add(self.resolve(item))
    def op_remove(self, label, attr, item):
        c = self._coll(label, attr); c.remove(self.resolve(item))
    def op_clear(self, label, attr):
        self._coll(label, attr).clear()
    def op_assign(self, label, attr, items):
        obj = self.resolve(label)
        if not hasattr(type(obj), attr): raise Skip(label)
        setattr(obj, attr, [self.resolve(i) for i in items])
    def op_delete(self, label):
        self.resolve(label).delete()
    def op_bulkdel(self, ename, cond):
        e = self.env.E[ename]
        src = 'x for x in E' + ('' if cond == 'all' else ' if x.' + cond)
        return self.orm.delete(src, {'E': e}, {})
    def op_qdel(self, ename):
        e = self.env.E[ename]
        return self.orm.select('x for x in E', {'E': e}, {}).delete(bulk=True)
    def op_objflush(self, label):
        # an object the session has marked for deletion is a legal operand here: obj.flush() sends its DELETE
        obj = self.refs.get(label)
        if obj is None or obj._status_ != 'marked_to_delete': obj = self.resolve(label)
        obj.flush(); self.sync_pks()
    def op_flush(self):
        self.orm.flush(); self.sync_pks()
    def op_commit(self):
        self.orm.commit(); self.sync_pks()
    def op_rollback(self):
        self.orm.rollback(); self.refs = {}
    def op_end(self):
        try:
            self.sync_pks_before_end = True
            objs = dict(self.refs)
            self.leave()
        finally:
            if self.sess is None:
                for label, obj in objs.items():
                    try: pk = obj._pkval_
                    except Exception: pk = None
                    if pk is not None:
                        root = type(obj)._root_.__name__
                        self.pk2label.setdefault((root, pk), label); self.label2pk.setdefault(label, pk)
                self.enter()
    def op_raise(self):
        try: self.leave(ZeroDivisionError('vf: body failed'))
        finally:
            if self.sess is None: self.enter()

    # ---- reads -------------------------------------------------------------------------------------
    def _pkdict(self, e, label):
        pk = self.label2pk.get(label)
        if pk is None:
            key = label.split(':')[1]
            if self.env.model.opts.get('pk') == 'auto':
                # an object that has no primary key yet cannot be looked up by key
                if label not in self.refs and not (self.fixture.startswith('populated') and int(key) <= 2): raise Skip(label)
                if label in self.refs:
                    pk = self.refs[label]._pkval_
                    if pk is None: raise Skip(label)
                else: pk = int(key)
            else: pk = int(key)
        return pk
    def op_r_get(self, label):
        e = self.env.E[label.split(':')[0]]
        return e.get(**{e._pk_attrs_[0].name: self._pkdict(e, label)})
    def op_r_idx(self, label):
        e = self.env.E[label.split(':')[0]]
        return e[self._pkdict(e, label)]
    def op_r_count(self, ename):
        return self.orm.count('x for x in E', {'E': self.env.E[ename]}, {})
    def op_r_all(self, ename):
        return sorted(self.cv(list(self.env.E[ename].select())))
    def op_r_bysql(self, ename):
        e = self.env.E[ename]
        t = e._table_ if isinstance(e._table_, str) else e._table_[-1]
        return sorted(self.cv(list(e.select_by_sql('select * from "%s"' % t))))
    def op_r_exists(self, ename, attr, v):
        return self.env.E[ename].exists(**{attr: self.val(v)})
    def op_r_getby(self, ename, attr, v):
        return self.env.E[ename].get(**{attr: self.val(v)})
    def op_r_selkw(self, ename, attr, v):
        return sorted(self.cv(list(self.env.E[ename].select(**{attr: self.val(v)}))))
    def op_r_selq(self, ename, attr, v):
        v = self.val(v)
        cond = 'x.%s is None' % attr if v is None else 'x.%s == v' % attr
        return sorted(self.cv(list(self.orm.select('x for x in E if ' + cond, {'E': self.env.E[ename]}, {'v': v}))))
    def op_r_sum(self, ename, attr):
        return self.orm.sum('x.%s for x in E' % attr, {'E': self.env.E[ename]}, {})
    def op_r_max(self, ename, attr):
        return self.orm.max('x.%s for x in E' % attr, {'E': self.env.E[ename]}, {})
    def op_r_proj(self, ename, attr):
        return sorted(self.cv(list(self.orm.select('(x, x.%s) for x in E' % attr, {'E': self.env.E[ename]}, {}))), key=repr)
    def op_r_todict(self, label):
        return self.resolve(label).to_dict(with_collections=True, with_lazy=True)
    def op_r_attr(self, label, attr):
        obj = self.resolve(label)
        if not hasattr(type(obj), attr): raise Skip(label)
        v = getattr(obj, attr)
        from pony.orm.core import Entity
        if isinstance(v, Entity):
            # the program now holds the object it navigated to (possibly an unloaded seed)
            l = self.label_of(v)
            if l not in self.refs: self.remember(l, v)
        return v
    def op_r_clen(self, label, attr): return len(self._coll(label, attr))
    def op_r_ccount(self, label, attr): return self._coll(label, attr).count()
    def op_r_cempty(self, label, attr): return self._coll(label, attr).is_empty()
    def op_r_citer(self, label, attr): return sorted(self.cv(list(self._coll(label, attr))))
    def op_r_cselect(self, label, attr): return sorted(self.cv(list(self._coll(label, attr).select())))
    def op_r_cin(self, label, attr, item):
        c = self._coll(label, attr); return self.resolve(item) in c

    def op_view(self):
        """full public view of the session: every attribute and collection of every object that a
        query over each root entity returns (so it flushes first)"""
        out = {}
        for root in self.env.root_entities:
            e = self.env.E[root]
            for obj in list(e.select()):
                d = {'__class__': type(obj).__name__}
                for a in type(obj)._attrs_:
                    if a.is_discriminator: continue
                    v = getattr(obj, a.name)
                    d[a.name] = self.cv(v)
                out[self.label_of(obj)] = d
        return out
    def universe(self, root):
        """the labels 1..3 of an entity plus every further object the program holds (a second object with an
        automatic key created in this session)"""
        base = self.env.labels_of(root, (1, 2, 3))
        return base + sorted(l for l in self.refs if l.split(':')[0] == root and l not in base)
    def op_view_noflush(self):
        """public view of the objects the program holds or can reach through key lookups,
        read without issuing a query over the entity (does not force a flush by itself)"""
        out = {}
        for root in self.env.root_entities:
            for label in self.universe(root):
                try: obj = self.resolve(label)
                except Skip: out[label] = None; continue
                d = {'__class__': type(obj).__name__}
                for a in type(obj)._attrs_:
                    if a.is_discriminator: continue
                    d[a.name] = self.cv(getattr(obj, a.name))
                out[label] = d
        return out

    def op_view_counts(self):
        """count() and is_empty() of every collection of every universe object, asked BEFORE anything else
        touches the collections (cached counts are an observable of their own)"""
        out = {}
        for root in self.env.root_entities:
            for label in self.universe(root):
                try: obj = self.resolve(label)
                except Skip: continue
                for a in type(obj)._attrs_:
                    if a.is_collection:
                        c = getattr(obj, a.name)
                        out['%s.%s' % (label, a.name)] = (c.count(), c.is_empty())
        return out

    def op_view_created(self):
        """reference attributes of the objects created in this session and not saved yet, read from
        memory only (no look-up, hence no implicit flush)"""
        out = {}
        for label, obj in sorted(self.refs.items()):
            if obj._status_ != 'created': continue
            d = {'__class__': type(obj).__name__}
            for a in type(obj)._attrs_:
                if a.is_collection or not a.reverse: continue
                d[a.name] = self.cv(obj._vals_.get(a))
            out[label] = d
        return out

    # ---- driver log helpers --------------------------------------------------------------------
    def writes(self):
        """write statements of the whole execution, one entry per row for executemany (whose row
        order follows set iteration order and is not an observable)"""
        out = []
        for (k, s, a) in self.sql:
            if k not in ('execute', 'executemany') or not dbapi.is_write(s): continue
            if k == 'executemany': out += [(s, repr(tuple(row))) for row in (a or ())]
            else: out.append((s, repr(tuple(a) if isinstance(a, (list, tuple)) else a)))
        return sorted(out)
    def statements(self):
        return [(k, s) for (k, s, a) in self.sql]

    # ---- canonical state (deduplication only) ---------------------------------------------------
    def canon(self):
        from pony.orm import core as pcore
        env = self.env
        cache = pcore.local.db2cache.get(env.db)
        committed = env.dump()
        if cache is None or not cache.is_alive:
            c = None; pending = None
        else:
            pending = env.dump(cache.connection) if cache.connection is not None and cache.in_transaction else None
            objs = []
            for obj in cache.objects:
                vals = {}
                for attr, v in obj._vals_.items():
                    if attr.is_collection:
                        if v is None: vals[attr.name] = None; continue
                        f = lambda s: None if s is None else sorted(self.label_of(i) for i in s)
                        vals[attr.name] = ('set', f(v), v.is_fully_loaded, f(v.added), f(v.removed), f(v.absent), v.count)
                    else:
                        vals[attr.name] = self.cv(v)
                dbv = None if obj._dbvals_ is None else sorted((a.name, self.cv(v)) for a, v in obj._dbvals_.items())
                objs.append((self.label_of(obj), type(obj).__name__, obj._status_, obj._wbits_, obj._rbits_,
                             sorted(vals.items(), key=repr), dbv, getattr(obj, '_save_pos_', None) is not None))
            objs.sort(key=repr)
            idx = []
            for key, d in cache.indexes.items():
                kname = key.name if not isinstance(key, tuple) else ','.join(a.name for a in key)
                ename = (key if not isinstance(key, tuple) else key[0]).entity.__name__
                idx.append((ename, kname, sorted(((self.cv(k), self.label_of(o)) for k, o in d.items()), key=repr)))
            idx.sort(key=repr)
            c = (objs, [None if o is None else self.label_of(o) for o in cache.objects_to_save], idx,
                 sorted((self.label_of(o) for s in cache.seeds.values() for o in s)),
                 cache.modified, cache.in_transaction, cache.immediate,
                 sorted((a.name, sorted(self.label_of(o) for o in os_)) for a, os_ in cache.modified_collections.items()))
        held = sorted(self.refs)
        return repr((committed, pending, c, held, sorted(self.label2pk.items()), sorted(self.created.items())))

# ---- exploration ---------------------------------------------------------------------------------
class Explorer(object):
    """Breadth-first search over histories with canonical-state deduplication.
    visit(env, fixture, history, x) is called once for every executed transition (x: the finished
    Exec of history; x.obs[-1] is the observation of the last operation). New canonical states
    extend the frontier; histories that skip (operand absent) are pruned."""
    def __init__(self, env, fixtures=('empty', 'populated'), ops=None):
        self.env = env
        self.fixtures = fixtures
        self.ops = ops if ops is not None else env.ops()
        self.states = 0; self.transitions = 0; self.executions = 0; self.skipped = 0
        self.samples = []
    def run(self, depth, visit=None, order=None, last_only=None, on_state=None):
        """depth: complete BFS depth. last_only: optional predicate on ops; if given, one extra
        level is explored whose last operation satisfies it (no frontier growth)."""
        env = self.env
        ops = self.ops
        if order is not None: ops = order(ops)
        for fixture in self.fixtures:
            x0 = env.run([], fixture, record_sql=False)
            seen = {self._canon(env, [], fixture)}
            self.states += 1
            if on_state is not None: on_state(env, fixture, [])
            frontier = [[]]
            for level in range(1, depth + 1 + (1 if last_only else 0)):
                nxt = []
                extra = level == depth + 1
                for h in frontier:
                    for op in ops:
                        if extra and not last_only(op): continue
                        hist = h + [op]
                        x = Exec(env, fixture, track_dumps=getattr(self, 'track_dumps', False))
                        try: x.replay(hist)
                        except Exception:
                            x.finish(); raise
                        self.executions += 1
                        if x.skipped:
                            self.skipped += 1; x.finish(); continue
                        self.transitions += 1
                        key = None
                        if not extra:
                            key = x.canon()
                        x.finish()
                        if visit is not None: visit(env, fixture, hist, x)
                        if key is not None and key not in seen:
                            seen.add(key); self.states += 1; nxt.append(hist)
                            if on_state is not None: on_state(env, fixture, hist)
                            if len(self.samples) < 3 and level == depth: self.samples.append(dict(model=env.model.name, fixture=fixture, history=hist, obs=x.obs))
                frontier = nxt
    def _canon(self, env, hist, fixture):
        x = Exec(env, fixture, record_sql=False)
        try:
            x.replay(hist); return x.canon()
        finally: x.finish()

# ---- running a per-model worker over the catalogue in parallel -----------------------------------
def run_catalogue(ctx, worker, tier=None, models=None, fixtures=('populated', 'empty')):
    """worker(args) with args=(model_name, tier, seed, fixture) is a module-level function returning
    dict(sub=Sub.dump(), states=, transitions=, executions=). One task per (model, fixture), largest
    models first. Returns the aggregate."""
    from vf.models import catalog
    names = models or [m.name for m in catalog.catalogue(tier or ctx.tier)]
    if os.environ.get('VF_MODELS'):      # debugging aid: restrict to some models (the run is then marked non-exhaustive)
        names = [n for n in names if n in os.environ['VF_MODELS'].split(',')]
        ctx.cap('VF_MODELS restricts the catalogue to %s' % names)
    no_refs = ('none', 'm2m', 'sym_m2m')         # models without a to-one reference column: the prelude finds no seed
    items = [(n, ctx.tier, ctx.seed, f) for n in names for f in fixtures
             if not (f == 'populated-seeds' and n.split('-')[0] in no_refs)]
    items.sort(key=lambda it: (it[3] != 'populated', -len(it[0])))
    results = ctx.pmap(worker, items)
    agg = dict(states=0, transitions=0, executions=0, per_model={})
    for it, r in zip(items, results):
        core.absorb(ctx, r['sub'])
        for k in ('states', 'transitions', 'executions'): agg[k] += r[k]
        agg['per_model'][it[0] + '/' + it[3]] = dict((k, r[k]) for k in ('states', 'transitions', 'executions'))
    return agg

def seeded_order(seed):
    """SX keeps the canonical operation order whatever VERIF_SEED is: which history represents a
    deduplicated state (and therefore the shrunk counterexample that names a finding) must not depend
    on the seed. The explored set is the same for every order; there is no random choice to seed."""
    def order(ops):
        return list(ops)
    return order

def shrink(hist, fails):
    """Greedy minimisation while fails(history) stays true: remove operations (never the last one),
    then replace remaining non-final operations by a plain flush (an operation is often needed only
    for the auto-flush its operand look-up triggers)."""
    hist = list(hist)
    def still(cand):
        try: return bool(fails(cand))
        except Exception: return False
    changed = True
    while changed:
        changed = False
        for i in range(len(hist) - 1):
            cand = hist[:i] + hist[i + 1:]
            if still(cand):
                hist = cand; changed = True
                break
    for i in range(len(hist) - 1):
        if hist[i][0] in ('flush', 'commit', 'end', 'rollback', 'raise'): continue
        cand = hist[:i] + [('flush',)] + hist[i + 1:]
        if still(cand): hist = cand
    # a flush directly followed by another flush is redundant
    changed = True
    while changed:
        changed = False
        for i in range(len(hist) - 1):
            if hist[i] == ('flush',):
                cand = hist[:i] + hist[i + 1:]
                if still(cand):
                    hist = cand; changed = True
                    break
    return hist

def has_self_link(hist):
    """the history links an object to ITSELF (legal but exotic for symmetric / self-referencing
    relationships); findings that need it are named 'self-link' whatever the surrounding operations"""
    for op in hist:
        if op[0] in ('add', 'remove') and op[1] == op[3]: return True
        if op[0] == 'assign' and op[1] in op[3]: return True
        if op[0] == 'set' and isinstance(op[3], (tuple, list)) and len(op[3]) == 2 and op[3][0] == 'ref' and op[3][1] == op[1]: return True
        if op[0] == 'setm' and any(isinstance(v, (tuple, list)) and len(v) == 2 and v[0] == 'ref' and v[1] == op[1] for k, v in op[2]): return True
    return False

def kinds(hist, norm_end=True):
    if has_self_link(hist): return 'self-link'
    ks = [op[0] for op in hist]
    if norm_end: ks = ['commit' if k == 'end' else k for k in ks]
    return '>'.join(ks)

# ---- extra read operations used by the C11/C12 monitors ------------------------------------------
def _op_r_identity(self, label):
    """every way of obtaining the object with this primary key inside the session yields the very
    same Python object: returns the list of routes that produced a different object"""
    import pickle
    from pony.orm import core as pcore
    obj = self.resolve(label)
    e = self.env.E[label.split(':')[0]]
    pk = obj.get_pk()
    if pk is None: raise Skip(label)
    pkd = {a.name: v for a, v in zip(e._pk_attrs_, pk if isinstance(pk, tuple) else (pk,))}
    routes = {}
    routes['Entity[pk]'] = e[pk]
    routes['get'] = e.get(**pkd)
    routes['select(**kw)'] = list(e.select(**pkd))
    cond = ' and '.join('x.%s == v%d' % (k, i) for i, k in enumerate(pkd))
    routes['select(gen)'] = list(self.orm.select('x for x in E if ' + cond, {'E': e}, dict(('v%d' % i, v) for i, v in enumerate(pkd.values()))))
    t = e._table_ if isinstance(e._table_, str) else e._table_[-1]
    routes['select_by_sql'] = [o for o in e.select_by_sql('select * from "%s"' % t) if o.get_pk() == pk]
    routes['pickle'] = pickle.loads(pickle.dumps(obj))
    routes['proxy'] = pcore.make_proxy(obj)._get_object()
    # navigation from every neighbour
    for a in type(obj)._attrs_:
        if not a.reverse: continue
        v = getattr(obj, a.name)
        neigh = list(v) if a.is_collection else ([v] if v is not None else [])
        for nb in neigh:
            back = getattr(nb, a.reverse.name)
            back = list(back) if a.reverse.is_collection else [back]
            routes['nav:%s.%s' % (a.name, a.reverse.name)] = [o for o in back if o is not None and o.get_pk() == pk and type(o)._root_ is type(obj)._root_]
    bad = []
    for r, got in sorted(routes.items()):
        gl = got if isinstance(got, list) else [got]
        if r.startswith('nav:'):
            # whether the other end points back at all is C12's question; here: if it does, it is the same object
            if any(o is not obj for o in gl): bad.append(r)
        elif len(gl) != 1 or gl[0] is not obj: bad.append(r)
    return bad
Exec.op_r_identity = _op_r_identity

def _op_r_indexes(self):
    """cache.indexes is consistent with the objects' current values (reads internals; a rename
    breaks this loudly, never silently)"""
    from pony.orm import core as pcore
    cache = pcore.local.db2cache.get(self.env.db)
    if cache is None or not cache.is_alive: return []
    dead = ('deleted', 'cancelled', 'marked_to_delete')
    bad = []
    for key, index in cache.indexes.items():
        attrs = key if isinstance(key, tuple) else (key,)
        is_pk = attrs == attrs[0].entity._pk_attrs_
        for k, o in index.items():
            if getattr(o, '_status_', None) is None or not hasattr(o, '_pkval_'):
                # an object that never finished its construction (a failed creation) is still registered under a key
                bad.append('unfinished-object-in-index:%s' % ','.join(a.name for a in attrs)); continue
            if o._status_ in dead and not (o._status_ == 'marked_to_delete' and is_pk):
                bad.append('dead-object-in-index:%s' % ','.join(a.name for a in attrs)); continue
            if o._status_ in dead: continue
            vals = tuple(o._vals_.get(a, pcore.NOT_LOADED) for a in attrs)
            held = vals[0] if len(vals) == 1 and not (is_pk and o._pk_is_composite_) else vals
            if is_pk: held = o._pkval_
            if held != k: bad.append('stale-key-in-index:%s' % ','.join(a.name for a in attrs))
    for o in cache.objects:
        if o._status_ in dead: continue
        e = type(o)
        keys = [e._pk_attrs_] + [(a,) for a in e._simple_keys_] + list(e._composite_keys_)
        for attrs in keys:
            is_pk = attrs == e._pk_attrs_
            if is_pk:
                if o._pkval_ is None: continue
                k = o._pkval_
            else:
                vals = tuple(o._vals_.get(a, pcore.NOT_LOADED) for a in attrs)
                if any(v is None or v is pcore.NOT_LOADED for v in vals): continue
                k = vals[0] if len(vals) == 1 else vals
            idx = cache.indexes.get(attrs if (len(attrs) > 1 or is_pk) else attrs[0])
            if idx is None and len(attrs) == 1: idx = cache.indexes.get(attrs)
            if idx is None or idx.get(k) is not o:
                bad.append('object-not-indexed:%s' % ','.join(a.name for a in attrs))
    return sorted(set(bad))
Exec.op_r_indexes = _op_r_indexes

def latent_conflict(fixture, hist):
    """the history creates an object under a primary key (or with the unique value 'u1') that already exists in the database but is
    not loaded: a latent key conflict that Pony can only report at flush (C14). Labels then denote
    two different things, so view-based monitors skip such states."""
    if not fixture.startswith('populated'): return False
    for op in hist:
        if op[0] == 'create' and (op[2] in (1, 2) or 'u1' in op[3].values()): return True
        if op[0] == 'set' and op[3] == 'u1': return True                     # the value is held by a row that may not be loaded
        if op[0] == 'setm' and any(v == 'u1' for _, v in op[2]): return True
    return False

DEEP_MODELS = ('o2m', 'm2m')
def deep_model(name, fixture='populated'):
    """the deepest histories of the thorough tier (one more operation than everywhere else) are explored for the plain
    one-to-many and many-to-many models from the populated fixture; every other (model, fixture) keeps the depth of the quick
    tier, on the larger thorough catalogue. (A full depth-3 pass over ten models took over an hour per check on 16 cores and
    could not be validated often enough to be trusted.)"""
    return name in DEEP_MODELS and fixture == 'populated'
