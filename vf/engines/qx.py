"""QX - query-space engine (DESIGN.md section 2).

A query is a small *expression tree* (class X) from which BOTH the Python source text handed to Pony
and the reference result are derived; source text is never evaluated with Python's `None == 2`
semantics.

  schema       define(db)                   Person/Student(Person), Dept, Tag on any pony Database: int, nullable
                                            int/str, str, bool, float, Decimal, date, one-to-many Dept.persons,
                                            many-to-many Person.tags, hybrid properties/methods (HYBRIDS);
                                            SCHEMA describes the attribute types for the tree builders
               define_slots(db)             separate small schema (data set 'slots'): Slot with the COMPOSITE primary key
                                            (room, hour) + label, cap and one-to-many Slot.bookings -> Booking(id, slot,
                                            qty nullable, w, note); PKS names the key attributes per entity; the mirror
                                            object's .id is the key tuple
  data         dataset(name) -> Data        'pairs': pairwise product (covering array) of the boundary values in
                                            DOMAINS + grouped rows (all-None group, duplicates, empty dept, unused
                                            tag); 'small': 4 persons; 'empty'. Data(name, depts, tags, persons) builds
                                            any other; Data is also the plain-Python mirror (.persons/.depts/.tags
                                            lists of Obj with the same attributes and relationships, .ents, .get)
               load(db, data); get_db(name) -> (db, data)   per-process in-memory SQLite, created on first use
               (call get_db inside the worker after fork: an inherited :memory: connection is not usable)
               clear_caches(db)             drop Pony's translation caches (memory over 10^5 query texts)
  trees        X(op, t, a, v); var(name, ent), attr(base, name), const(v), param(name, v), call(op, t, *a),
               hybrid(base, name, *args), Ref(ent, pk) (entity instance as parameter), X('gen', ms(t),
               (elt, source, *conds), varname) nested generator, X('ent', ms(E), (), E) entity as source;
               PRODS production table (prod(name, fmt, fn=strict python function | lazy=f(ev, x, env)));
               src(x) python text, params_of(*xs), walk(x), depth(x), to_json / from_json
  evaluator    Evaluator(data).value(x, env) / .cond(x, env); Env(vars); Undef; typed three-valued
  queries      Query(fors, proj, conds=(), order=(), order_style='lambda'|'str', dataset='pairs')
               .source(frontend) text, .make(db, frontend) -> pony Query (inside db_session; get_sql() etc.),
               .run(db, frontend) -> normalised rows, .expected(data[, ev]) -> Expected(mode set|bag, rows, ...),
               .distinct(), .to_json()/Query.from_json(); FRONTENDS = 'str' select("text") | 'gen' select(generator
               compiled from the same text) | 'lam' Entity.select(lambda)[.filter(lambda)...]
               compare(expected, got, order=None) -> [Mismatch(kind, row, got, col)]   (empty = agreement)
               same(type, expected_value, got_value), norm_row, EntRef
  grammar      signatures(), grammar_leaves(v, pruned), collection_leaves(v), enumerate_exprs(v, depth),
               apply_signatures(...), prods_in(x)
  attribution  op_skeleton(x), kind_skeleton(x), skeleton(x), operand_classes(ev, x, env), value_class(v),
               dead_navigation(ev, x, env)

Conventions of the reference evaluator (DESIGN section 2 QX): value expressions evaluate to Python values,
None propagates through operators and functions; boolean expressions evaluate in Kleene logic with None as
Unknown; a comparison with a None operand is Unknown; coercing a *value* to truth maps None to False (the row
is marked lenient: a *projected* truth value computed that way may also come back as None); a filter keeps True
only; and/or short-circuit like Python; a conditional with an Unknown test takes the else branch. Aggregates
ignore None, sum of nothing is 0, min/max/avg/group_concat of nothing are None; count() of non-entity values is
DISTINCT; an aggregate over an attribute-lifted collection (sum(p.tags.w)) in a projection without the full
primary keys makes the query grouped by the plain columns; `x in/not in collection` ignores None items.
Results are a set when the row does not carry the primary key of every iterated entity, a bag otherwise, and a
sequence up to ties (None keys unordered) when ordered. Where Python itself has no answer or the statement
fixes none - ZeroDivisionError, int('ab'), IndexError, a None slice bound, None against a non-empty collection,
a miss in a collection holding None, `None in 'text'`, attribute of None (row dropped or None), any use of a
group_concat value (unspecified order) - the row is optional and, except for the attribute case, its values
arbitrary. Numbers compare by value (1 == 1.0), floats with relative tolerance 1e-9, Decimal with 0.005.
"""
import os, math, itertools, decimal, json, warnings
warnings.filterwarnings('ignore', category=SyntaxWarning)
from decimal import Decimal
from datetime import date, timedelta
from vf import core

# ------------------------------------------------------------------------------------------------
# types
INT, FLOAT, DEC, STR, BOOL, DATE, TD, COND, NONE = 'int', 'float', 'dec', 'str', 'bool', 'date', 'td', 'cond', 'none'
NUM = (INT, FLOAT, DEC)
ENTITIES = ('Person', 'Student', 'Dept', 'Tag', 'Slot', 'Booking')
def ms(t): return 'ms:' + t
def is_ms(t): return t.startswith('ms:')
def item_t(t): return t[3:]
def is_ent(t): return t in ENTITIES

class Undef(Exception):
    """Python itself has no answer for this row (it would raise): any outcome is accepted."""

# ------------------------------------------------------------------------------------------------
# expression trees
class X(object):
    __slots__ = ('op', 't', 'a', 'v')
    def __init__(self, op, t, a=(), v=None):
        self.op, self.t, self.a, self.v = op, t, tuple(a), v
    def __repr__(self): return 'X<%s>' % src(self)
    def key(self): return json.dumps(to_json(self), sort_keys=True)

def enc(v):
    if isinstance(v, Decimal): return {'$dec': str(v)}
    if isinstance(v, date): return {'$date': [v.year, v.month, v.day]}
    if isinstance(v, timedelta): return {'$td': v.days}
    if isinstance(v, tuple): return {'$tup': [enc(i) for i in v]}
    if isinstance(v, X): return {'$x': to_json(v)}
    return v
def dec(v):
    if isinstance(v, dict):
        if '$dec' in v: return Decimal(v['$dec'])
        if '$date' in v: return date(*v['$date'])
        if '$td' in v: return timedelta(days=v['$td'])
        if '$tup' in v: return tuple(dec(i) for i in v['$tup'])
        if '$x' in v: return from_json(v['$x'])
    return v
def to_json(x): return [x.op, x.t, enc(x.v), [to_json(c) for c in x.a]]
def from_json(j): return X(j[0], j[1], [from_json(c) for c in j[3]], dec(j[2]))

def var(name, ent): return X('var', ent, (), name)
def attr(base, name):
    """attribute access base.name; the type comes from the schema description"""
    bt = base.t
    if is_ms(bt):
        t = SCHEMA[item_t(bt)][name][0]
        return X('attr', t if is_ms(t) else ms(t), (base,), name)
    return X('attr', SCHEMA[bt][name][0], (base,), name)
def const(v, t=None): return X('const', t or type_of(v), (), v)
def param(name, v, t=None): return X('param', t or type_of(v), (), (name, v))
def call(op, t, *a, **kw): return X(op, t, a, kw.get('v'))
NONE_CONST = X('const', NONE, (), None)

def type_of(v):
    if v is None: return NONE
    if isinstance(v, bool): return BOOL
    if isinstance(v, int): return INT
    if isinstance(v, float): return FLOAT
    if isinstance(v, Decimal): return DEC
    if isinstance(v, str): return STR
    if isinstance(v, date): return DATE
    if isinstance(v, timedelta): return TD
    if isinstance(v, Ref): return v.ent
    raise TypeError(v)

class Ref(object):
    """handle of an entity instance used as external parameter: resolved to db.Entity[pk] for Pony
    and to the mirror object for the evaluator"""
    def __init__(self, ent, pk): self.ent, self.pk = ent, pk
    def __repr__(self): return '%s[%d]' % (self.ent, self.pk)

def walk(x):
    yield x
    for c in x.a:
        for y in walk(c): yield y
    if x.op == 'hybrid' and False: pass

def params_of(*xs):
    d = {}
    for x in xs:
        if x is None: continue
        for n in walk(x):
            if n.op == 'param': d[n.v[0]] = n.v[1]
    return d

def depth(x):
    if x.op in ('var', 'const', 'param', 'ent'): return 0
    if x.op == 'attr' and x.a[0].op == 'var': return 0
    return 1 + max([depth(c) for c in x.a] or [0])

# ------------------------------------------------------------------------------------------------
# production table
class Prod(object):
    __slots__ = ('name', 'fmt', 'atomic', 'fn', 'lazy', 'kindsens', 'sym')
    def __init__(self, name, fmt, fn=None, lazy=None, atomic=False, kindsens=False, sym=None):
        self.name, self.fmt, self.fn, self.lazy, self.atomic, self.kindsens = name, fmt, fn, lazy, atomic, kindsens
        self.sym = sym or fmt
PRODS = {}
def prod(name, fmt, fn=None, **kw):
    PRODS[name] = Prod(name, fmt, fn, **kw)

def _lit(v):
    """(text, atomic)"""
    if v is None: return 'None', True
    if isinstance(v, bool): return repr(v), True
    if isinstance(v, (int, float)): return repr(v), v >= 0
    if isinstance(v, Decimal): return "Decimal('%s')" % v, True
    if isinstance(v, str): return repr(v), True
    if isinstance(v, date): return 'date(%d, %d, %d)' % (v.year, v.month, v.day), True
    if isinstance(v, timedelta): return 'timedelta(days=%d)' % v.days, True
    raise TypeError(v)

def _src(x):
    op = x.op
    if op == 'var': return x.v, True
    if op == 'ent': return x.v, True
    if op == 'const': return _lit(x.v)
    if op == 'param': return x.v[0], True
    if op == 'attr': return '%s.%s' % (_arg(x.a[0]), x.v), True
    if op == 'hybrid':     # v = (name, kind, body builder name) ; a = (base, *args)
        name, kind = x.v[0], x.v[1]
        if kind == 'property': return '%s.%s' % (_arg(x.a[0]), name), True
        return '%s.%s(%s)' % (_arg(x.a[0]), name, ', '.join(_src(c)[0] for c in x.a[1:])), True
    if op == 'gen':        # a = (elt, source, *conds) ; v = varname
        s = '%s for %s in %s' % (_src(x.a[0])[0], x.v, _src(x.a[1])[0])
        for c in x.a[2:]: s += ' if ' + _arg(c) if c.op == 'ifexp' else ' if ' + _src(c)[0]
        return '(' + s + ')', True
    p = PRODS[op]
    if callable(p.fmt): return p.fmt(x, [_arg(c) for c in x.a], [_src(c)[0] for c in x.a]), p.atomic
    if p.atomic:
        # call syntax: first operand may be a method receiver (needs atomic form), others are plain
        args = []
        for i, c in enumerate(x.a):
            args.append(_arg(c) if ('{%d}.' % i in p.fmt or '{%d}[' % i in p.fmt) else _src(c)[0])
        return p.fmt.format(*args), True
    return p.fmt.format(*[_arg(c) for c in x.a]), False
def _arg(x):
    s, atomic = _src(x)
    return s if atomic else '(' + s + ')'
def src(x): return _src(x)[0]

# ---- strict productions: None propagates, fn gets plain python values ---------------------------
def _nocomplex(v):
    if isinstance(v, complex): raise Undef()
    return v
def _pow(a, b): return _nocomplex(a ** b)
def _truediv(a, b): return a / b
def _index(s, i): return s[i]
def _to_int(v):
    if isinstance(v, str):
        return int(v)          # ValueError -> Undef
    return int(v)
def _to_float(v): return float(v)
def _to_str(v):
    if isinstance(v, bool): raise Undef()
    return str(v)
def _concat_fn(*a): return ''.join(_to_str(i) for i in a)
def _minn(*a): return min(a)
def _maxn(*a): return max(a)

for _n, _f, _fn in (('add', '{0} + {1}', lambda a, b: a + b), ('sub', '{0} - {1}', lambda a, b: a - b),
                    ('mul', '{0} * {1}', lambda a, b: a * b), ('truediv', '{0} / {1}', _truediv),
                    ('floordiv', '{0} // {1}', lambda a, b: a // b), ('mod', '{0} % {1}', lambda a, b: a % b),
                    ('pow', '{0} ** {1}', _pow), ('bitand', '{0} & {1}', lambda a, b: a & b),
                    ('bitor', '{0} | {1}', lambda a, b: a | b), ('bitxor', '{0} ^ {1}', lambda a, b: a ^ b)):
    prod(_n, _f, _fn)
prod('neg', '-{0}', lambda a: -a)
prod('abs', 'abs({0})', abs, atomic=True)
prod('min2', 'min({0}, {1})', _minn, atomic=True)
prod('max2', 'max({0}, {1})', _maxn, atomic=True)
prod('min3', 'min({0}, {1}, {2})', _minn, atomic=True)
prod('max3', 'max({0}, {1}, {2})', _maxn, atomic=True)
prod('to_int', 'int({0})', _to_int, atomic=True)
prod('to_float', 'float({0})', _to_float, atomic=True)
prod('to_str', 'str({0})', _to_str, atomic=True)
prod('concat', '{0} + {1}', lambda a, b: a + b)
prod('concat_fn2', 'concat({0}, {1})', _concat_fn, atomic=True)
prod('concat_fn3', 'concat({0}, {1}, {2})', _concat_fn, atomic=True)
prod('fstr2', lambda x, a, s: 'f"{%s}-{%s}"' % (s[0], s[1]), _concat_fn and (lambda a, b: _to_str(a) + '-' + _to_str(b)), atomic=True, sym='f"{0}-{1}"')
def _l_subscript(fn):
    """a None *bound* is neither Python's None-propagation nor an error (s[None:] is s in Python,
    NULL in SQL): no fixed answer; a None string propagates"""
    def f(ev, x, env):
        vals = [ev.value(c, env) for c in x.a]
        if any(v is None for v in vals[1:]): return ev.no_answer(env, None)
        if vals[0] is None: return None
        if isinstance(vals[0], GroupConcat): raise Undef()
        try: return fn(*vals)
        except IndexError: raise Undef()
    return f
prod('slice', '{0}[{1}:{2}]', lazy=_l_subscript(lambda s, a, b: s[a:b]), atomic=True, kindsens=True)
prod('slice_from', '{0}[{1}:]', lazy=_l_subscript(lambda s, a: s[a:]), atomic=True, kindsens=True)
prod('slice_to', '{0}[:{1}]', lazy=_l_subscript(lambda s, b: s[:b]), atomic=True, kindsens=True)
prod('index', '{0}[{1}]', lazy=_l_subscript(_index), atomic=True, kindsens=True)
prod('len', 'len({0})', len, atomic=True)
prod('upper', '{0}.upper()', lambda s: s.upper(), atomic=True)
prod('lower', '{0}.lower()', lambda s: s.lower(), atomic=True)
prod('strip', '{0}.strip()', lambda s: s.strip(), atomic=True)
prod('lstrip', '{0}.lstrip()', lambda s: s.lstrip(), atomic=True)
prod('rstrip', '{0}.rstrip()', lambda s: s.rstrip(), atomic=True)
prod('strip_chars', '{0}.strip({1})', lambda s, c: s.strip(c), atomic=True)
prod('lstrip_chars', '{0}.lstrip({1})', lambda s, c: s.lstrip(c), atomic=True)
prod('rstrip_chars', '{0}.rstrip({1})', lambda s, c: s.rstrip(c), atomic=True)
prod('year', '{0}.year', lambda d: d.year, atomic=True)
prod('month', '{0}.month', lambda d: d.month, atomic=True)
prod('day', '{0}.day', lambda d: d.day, atomic=True)
prod('date_add', '{0} + {1}', lambda d, t: d + t)
prod('date_sub', '{0} - {1}', lambda d, t: d - t)
prod('date_diff', '{0} - {1}', lambda a, b: a - b)
# comparisons (result type cond): strict -> a None operand gives None == Unknown
def _cmp(f):
    def g(a, b):
        if isinstance(a, Obj) or isinstance(b, Obj): return f(_ident(a), _ident(b))
        return f(a, b)
    return g
def _ident(o): return (o._root, o.id) if isinstance(o, Obj) else o
prod('eq', '{0} == {1}', _cmp(lambda a, b: a == b))
prod('ne', '{0} != {1}', _cmp(lambda a, b: a != b))
prod('lt', '{0} < {1}', lambda a, b: a < b)
prod('le', '{0} <= {1}', lambda a, b: a <= b)
prod('gt', '{0} > {1}', lambda a, b: a > b)
prod('ge', '{0} >= {1}', lambda a, b: a >= b)
prod('startswith', '{0}.startswith({1})', lambda s, a: s.startswith(a), atomic=True, kindsens=True)
prod('endswith', '{0}.endswith({1})', lambda s, a: s.endswith(a), atomic=True, kindsens=True)
def _l_in_str(ev, x, env):
    a, c = ev.value(x.a[0], env), ev.value(x.a[1], env)
    if a is None or c is None: return ev.no_answer(env, None)    # Python raises TypeError; `not (a in b)` compiles to `a not in b`
    if isinstance(a, GroupConcat) or isinstance(c, GroupConcat): raise Undef()
    return a in c
prod('in_str', '{0} in {1}', lazy=_l_in_str, kindsens=True)
def _l_not_in_str(ev, x, env):
    a, c = ev.value(x.a[0], env), ev.value(x.a[1], env)
    if a is None or c is None: return ev.no_answer(env, None)    # Python raises TypeError; Pony answers `... OR x IS NULL`
    if isinstance(a, GroupConcat) or isinstance(c, GroupConcat): raise Undef()
    return a not in c
prod('not_in_str', '{0} not in {1}', lazy=_l_not_in_str, kindsens=True)

# ---- lazy productions ------------------------------------------------------------------------
def k_and(a, b):
    if a is False or b is False: return False
    if a is None or b is None: return None
    return True
def k_or(a, b):
    if a is True or b is True: return True
    if a is None or b is None: return None
    return False
def k_not(a): return None if a is None else (not a)

def _l_and(ev, x, env):
    r = True
    for c in x.a:
        v = ev.cond(c, env)
        if v is False: return False        # Python and SQL agree: nothing to the right matters
        r = k_and(r, v)
    return r
def _l_or(ev, x, env):
    r = False
    for c in x.a:
        v = ev.cond(c, env)
        if v is True: return True
        r = k_or(r, v)
    return r
def _l_not(ev, x, env): return k_not(ev.cond(x.a[0], env))
def _l_ifexp(ev, x, env):      # a = (test, then, else)
    c = ev.cond(x.a[0], env)
    return ev.value(x.a[1] if c is True else x.a[2], env)
def _l_is_none(ev, x, env): return ev.value(x.a[0], env) is None
def _l_is_not_none(ev, x, env): return ev.value(x.a[0], env) is not None
def _l_bool(ev, x, env): return ev.cond(x.a[0], env)
def _l_coalesce(ev, x, env):
    vals = [ev.value(c, env) for c in x.a]      # a function call: every argument is evaluated
    for v in vals:
        if v is not None: return v
    return None
def _l_between(ev, x, env):
    v, a, b = [ev.value(c, env) for c in x.a]
    return k_and(None if (v is None or a is None) else a <= v, None if (v is None or b is None) else v <= b)
def _l_chain(ops):
    fs = {'<': lambda a, b: a < b, '<=': lambda a, b: a <= b, '==': lambda a, b: a == b, '!=': lambda a, b: a != b,
          '>': lambda a, b: a > b, '>=': lambda a, b: a >= b}
    def f(ev, x, env):
        vals = [ev.value(c, env) for c in x.a]
        r = True
        for i, o in enumerate(ops):
            a, b = vals[i], vals[i + 1]
            r = k_and(r, None if (a is None or b is None) else fs[o](a, b))
        return r
    return f
def _l_in_list(neg):
    def f(ev, x, env):
        v = ev.value(x.a[0], env)
        r = False
        for c in x.a[1:]:
            w = ev.value(c, env)
            r = k_or(r, None if (v is None or w is None) else _ident(v) == _ident(w))
        return k_not(r) if neg else r
    return f
def _l_in_ms(neg):
    """x in / not in (collection or subquery). Fixed: a hit -> True / False; an empty collection ->
    False / True (also for a None x: Python and SQL agree); no hit among non-None items and no None
    item -> False / True. Not fixed (Python says False/True, SQL says Unknown; Pony guards only
    `not in`): a None x against a non-empty collection, and a miss when the collection holds None."""
    def f(ev, x, env):
        v = ev.value(x.a[0], env)
        items = ev.value(x.a[1], env)
        if not items: return neg
        if v is None: return ev.no_answer(env, None)
        if any(i is not None and _ident(i) == _ident(v) for i in items): return not neg
        if any(i is None for i in items) and not neg: return ev.no_answer(env, None)
        return neg
    return f
def _fmt_list(neg):
    def f(x, a, s): return '%s %s (%s)' % (a[0], 'not in' if neg else 'in', ', '.join(s[1:]) + (',' if len(s) == 2 else ''))
    return f
prod('and', lambda x, a, s: ' and '.join(a), lazy=_l_and, sym='and')
prod('or', lambda x, a, s: ' or '.join(a), lazy=_l_or, sym='or')
prod('not', 'not {0}', lazy=_l_not, kindsens=True)
prod('ifexp', '{1} if {0} else {2}', lazy=_l_ifexp)
prod('is_none', '{0} is None', kindsens=True, lazy=_l_is_none)
prod('is_not_none', '{0} is not None', kindsens=True, lazy=_l_is_not_none)
prod('eq_none', '{0} == None', kindsens=True, lazy=_l_is_none)
prod('ne_none', '{0} != None', kindsens=True, lazy=_l_is_not_none)
prod('bool', 'bool({0})', lazy=_l_bool, atomic=True, kindsens=True)
prod('coalesce2', 'coalesce({0}, {1})', lazy=_l_coalesce, atomic=True)
prod('coalesce3', 'coalesce({0}, {1}, {2})', lazy=_l_coalesce, atomic=True)
prod('between', 'between({0}, {1}, {2})', lazy=_l_between, atomic=True)
prod('chain_lt_lt', '{0} < {1} < {2}', lazy=_l_chain(['<', '<']))
prod('chain_le_lt', '{0} <= {1} < {2}', lazy=_l_chain(['<=', '<']))
prod('chain_eq_eq', '{0} == {1} == {2}', lazy=_l_chain(['==', '==']))
prod('chain_gt_ne', '{0} > {1} != {2}', lazy=_l_chain(['>', '!=']))
prod('in_list', _fmt_list(False), lazy=_l_in_list(False), sym='in (list)')
prod('not_in_list', _fmt_list(True), lazy=_l_in_list(True), sym='not in (list)')
prod('in_ms', '{0} in {1}', lazy=_l_in_ms(False))
prod('not_in_ms', '{0} not in {1}', lazy=_l_in_ms(True))

# ---- aggregates over multisets (collections, attribute lifting, nested generators) ------------
def _nn(items): return [i for i in items if i is not None]
def _agg_sum(items, t):
    items = _nn(items)
    if not items: return 0 if t != FLOAT else 0.0   # convention: sum of nothing is 0
    return sum(items[1:], items[0])
def _agg_min(items, t): return min(_nn(items)) if _nn(items) else None
def _agg_max(items, t): return max(_nn(items)) if _nn(items) else None
def _agg_avg(items, t):
    items = _nn(items)
    return (float(sum(items[1:], items[0])) / len(items)) if items else None
def _agg_count(items, t):
    if is_ent(t): return len(items)
    return len(set(_nn(items)))                     # convention: DISTINCT for non-entity values
AGGS = dict(sum=_agg_sum, min=_agg_min, max=_agg_max, avg=_agg_avg, count=_agg_count)
def is_lifted(m):
    """collection reached by attribute path from a query variable (p.tags, p.tags.w, p.dept.persons.n)"""
    while m.op == 'attr': m = m.a[0]
    return m.op == 'var'
def _ms_items(ev, m, env):
    """items of collection m; inside a grouped (aggregated) query an attribute-lifted collection is
    the join over all rows of the group (Pony turns it into JOIN + GROUP BY)"""
    if env.group is not None and is_lifted(m):
        items = []
        for e in env.group: items.extend(ev.value(m, e))
        if is_ent(item_t(m.t)):
            out = []
            for i in items:
                if not any(i is j for j in out): out.append(i)
            return out
        return items
    return ev.value(m, env)
def _l_agg(name):
    def f(ev, x, env):
        return AGGS[name](_ms_items(ev, x.a[0], env), item_t(x.a[0].t))
    return f
LIFT_AGGS = ('sum', 'min', 'max', 'avg', 'count', 'len_ms', 'count_m', 'group_concat')
def walk_scope(x):
    """nodes of x that belong to the query's own scope (nested generators are not entered)"""
    yield x
    if x.op == 'gen': return
    for c in x.a:
        for y in walk_scope(c): yield y
def lifted_aggs(x):
    return [n for n in walk_scope(x) if n.op in LIFT_AGGS and n.a and is_ms(n.a[0].t) and is_lifted(n.a[0])]
for _n in AGGS: prod(_n, _n + '({0})', lazy=_l_agg(_n), atomic=True)
prod('len_ms', 'len({0})', lazy=lambda ev, x, env: len(_ms_items(ev, x.a[0], env)), atomic=True)
prod('count_m', '{0}.count()', lazy=lambda ev, x, env: len(_ms_items(ev, x.a[0], env)), atomic=True)
prod('exists', 'exists({0})', lazy=lambda ev, x, env: len(ev.value(x.a[0], env)) > 0, atomic=True)
prod('is_empty', '{0}.is_empty()', lazy=lambda ev, x, env: len(ev.value(x.a[0], env)) == 0, atomic=True)
prod('ms_truth', '{0}', lazy=lambda ev, x, env: len(ev.value(x.a[0], env)) > 0)
def _l_group_concat(ev, x, env):
    """order inside group_concat is unspecified: the value is compared as a multiset of parts"""
    items = _nn(_ms_items(ev, x.a[0], env))
    if not items: return None
    return GroupConcat([_to_str(i) if not isinstance(i, Obj) else str(i.id) for i in items], x.v or ',')
prod('group_concat', lambda x, a, s: 'group_concat(%s%s)' % (s[0], '' if x.v is None else ', sep=%r' % x.v),
     lazy=_l_group_concat, atomic=True, sym='group_concat({0})')
class GroupConcat(object):
    def __init__(self, parts, sep): self.parts, self.sep = sorted(parts), sep
    def matches(self, got):
        if not isinstance(got, str): return False
        if any(self.sep in p for p in self.parts) or '' in self.parts: return len(got) == len(self.sep.join(self.parts))
        return sorted(got.split(self.sep)) == self.parts
    def __repr__(self): return 'group_concat%r' % (self.parts,)
    def _undef(self, *a): raise Undef()     # the order of the parts is unspecified: any further use has no fixed answer
    __lt__ = __gt__ = __le__ = __ge__ = __eq__ = __ne__ = __add__ = __radd__ = __len__ = __getitem__ = __contains__ = _undef
    __hash__ = object.__hash__

# ---- top-level (query-scope) aggregates: argument is a scalar of the query rows ------------------
def _l_qagg(name):
    def f(ev, x, env):
        if env.group is None: raise core.HarnessError('query-scope aggregate outside an aggregated query: %s' % src(x))
        if not x.a: return len(env.group)
        arg = x.a[0]
        items = [ev.value(arg, e) for e in env.group]
        return AGGS[name](items, arg.t)
    return f
for _n in AGGS: prod('q' + _n, _n + '({0})', lazy=_l_qagg(_n), atomic=True)
prod('qcount_all', 'count()', lazy=_l_qagg('count'), atomic=True)
def _l_qgroup_concat(ev, x, env):
    items = _nn([ev.value(x.a[0], e) for e in env.group])
    if not items: return None
    return GroupConcat([_to_str(i) for i in items], ',')
prod('qgroup_concat', 'group_concat({0})', lazy=_l_qgroup_concat, atomic=True)
QAGG = ('qsum', 'qmin', 'qmax', 'qavg', 'qcount', 'qcount_all', 'qgroup_concat')
def has_qagg(x): return x is not None and any(n.op in QAGG for n in walk(x))

# JOIN(expr): translation hint only - the value is that of the wrapped expression
prod('join_hint', 'JOIN({0})', lazy=lambda ev, x, env: ev.value(x.a[0], env), atomic=True)
prod('isinstance', 'isinstance({0}, {1})', lazy=lambda ev, x, env: (lambda o: None if o is None else x.a[1].v in o._classes)(ev.value(x.a[0], env)), atomic=True)

# ------------------------------------------------------------------------------------------------
# schema
SCHEMA = {
    'Person': dict(id=(INT, False), n=(INT, True), m=(INT, False), s=(STR, True), t=(STR, False), b=(BOOL, True),
                   f=(FLOAT, True), d=(DEC, True), dt=(DATE, True), dept=('Dept', True), tags=(ms('Tag'), False)),
    'Dept': dict(id=(INT, False), name=(STR, False), budget=(INT, True), persons=(ms('Person'), False)),
    'Tag': dict(id=(INT, False), label=(STR, False), w=(INT, True), persons=(ms('Person'), False)),
}
SCHEMA['Student'] = dict(SCHEMA['Person'], grade=(INT, True))
PK = 'id'
# the 'slots' schema (separate database): composite primary key, one-to-many over a composite foreign key
SCHEMA['Slot'] = dict(room=(INT, False), hour=(INT, False), label=(STR, False), cap=(INT, True), bookings=(ms('Booking'), False))
SCHEMA['Booking'] = dict(id=(INT, False), slot=('Slot', False), qty=(INT, True), w=(INT, False), note=(STR, True))
PKS = {'Slot': ('room', 'hour')}
def pk_attrs(ent): return PKS.get(ent, (PK,))

# hybrid methods / properties: name -> (kind, result type, body(base, *args) -> X)
def _h_n2(p): return call('mul', INT, attr(p, 'n'), const(2))
def _h_tn(p): return call('concat', STR, attr(p, 't'), const('!'))
def _h_above(p, k): return call('gt', COND, attr(p, 'n'), k)
def _h_scaled(p, k): return call('mul', INT, call('add', INT, attr(p, 'n'), attr(p, 'm')), k)
HYBRIDS = {'n2': ('property', INT, _h_n2), 'tn': ('property', STR, _h_tn),
           'above': ('method', COND, _h_above), 'scaled': ('method', INT, _h_scaled)}
def hybrid(base, name, *args):
    kind, t, body = HYBRIDS[name]
    return X('hybrid', t, (base,) + tuple(args), (name, kind))

def define(db):
    """the fixed QX schema on any pony Database (before generate_mapping)"""
    from pony.orm import PrimaryKey, Required, Optional, Set
    class Dept(db.Entity):
        id = PrimaryKey(int)
        name = Required(str)
        budget = Optional(int)
        persons = Set('Person')
    class Tag(db.Entity):
        id = PrimaryKey(int)
        label = Required(str)
        w = Optional(int)
        persons = Set('Person')
    class Person(db.Entity):
        id = PrimaryKey(int)
        n = Optional(int)
        m = Required(int)
        s = Optional(str, nullable=True, autostrip=False)
        t = Required(str, autostrip=False)
        b = Optional(bool)
        f = Optional(float)
        d = Optional(Decimal, 10, 2)
        dt = Optional(date)
        dept = Optional(Dept)
        tags = Set(Tag)
        @property
        def n2(self): return self.n * 2
        @property
        def tn(self): return self.t + '!'
        def above(self, k): return self.n > k
        def scaled(self, k): return (self.n + self.m) * k
    class Student(Person):
        grade = Optional(int)
    return db

def define_slots(db):
    """the 'slots' schema on a pony Database of its own (before generate_mapping)"""
    from pony.orm import PrimaryKey, Required, Optional, Set
    class Slot(db.Entity):
        room = Required(int)
        hour = Required(int)
        label = Required(str)
        cap = Optional(int)
        bookings = Set('Booking')
        PrimaryKey(room, hour)
    class Booking(db.Entity):
        id = PrimaryKey(int)
        slot = Required(Slot)
        qty = Optional(int)
        w = Required(int)
        note = Optional(str, nullable=True)
    return db

# ------------------------------------------------------------------------------------------------
# data sets and the plain-Python mirror
class Obj(object):
    """mirror object: same attributes and relationships as the entity instance"""
    def __init__(self, cls, **kw):
        self._cls = cls
        self._root = 'Person' if cls == 'Student' else cls
        self._classes = ('Person', 'Student') if cls == 'Student' else (cls,)
        self.__dict__.update(kw)
    def __repr__(self): return '%s[%s]' % (self._cls, self.id)

class Data(object):
    def __init__(self, name, depts, tags, persons, slots=(), bookings=()):
        """depts: (id, name, budget) ; tags: (id, label, w) ;
        persons: dicts with id, cls, n, m, s, t, b, f, d, dt, dept (id or None), tags (tuple of ids), grade
        slots: (room, hour, label, cap) ; bookings: (id, (room, hour), qty, w, note)   ['slots' schema only]"""
        self.name = name
        self.spec = dict(depts=depts, tags=tags, persons=persons)
        if slots or bookings: self.spec.update(slots=list(slots), bookings=list(bookings))
        self.slots = [Obj('Slot', id=(r, h), room=r, hour=h, label=l, cap=c, bookings=[]) for r, h, l, c in slots]
        sm = {o.id: o for o in self.slots}
        self.bookings = [Obj('Booking', id=i, slot=sm[tuple(k)], qty=q, w=w, note=nt) for i, k, q, w, nt in bookings]
        for b in self.bookings: b.slot.bookings.append(b)
        self.depts = [Obj('Dept', id=i, name=nm, budget=bu, persons=[]) for i, nm, bu in depts]
        self.tags = [Obj('Tag', id=i, label=l, w=w, persons=[]) for i, l, w in tags]
        dm, tm = {o.id: o for o in self.depts}, {o.id: o for o in self.tags}
        self.persons = []
        for r in persons:
            r = dict(r)
            o = Obj(r.pop('cls', 'Person'), **r)
            o.dept = dm[r['dept']] if r.get('dept') is not None else None
            o.tags = [tm[i] for i in r.get('tags', ())]
            if o._cls != 'Student' and hasattr(o, 'grade'): del o.grade
            if o.dept is not None: o.dept.persons.append(o)
            for t in o.tags: t.persons.append(o)
            self.persons.append(o)
        self.ents = dict(Person=self.persons, Dept=self.depts, Tag=self.tags,
                         Student=[p for p in self.persons if p._cls == 'Student'], Slot=self.slots, Booking=self.bookings)
    def get(self, ent, pk):
        for o in self.ents[ent]:
            if o.id == pk: return o
        raise KeyError((ent, pk))

DOMAINS = [
    ('n', [None, -3, 0, 2]), ('m', [-3, 0, 2, 5]), ('s', [None, '', 'ab', 'A_b%']), ('t', ['b', 'ab', 'A_', ' b\t', '\xc9\xe9']),
    ('b', [None, False, True]), ('f', [None, -1.5, 0.0, 2.5]),
    ('d', [None, Decimal('-1.50'), Decimal('0.00'), Decimal('2.25')]),
    ('dt', [None, date(2020, 2, 29), date(2021, 12, 31), date(2021, 1, 1)]),
    ('dept', [None, 1, 2, 3]), ('tags', [(), (1,), (1, 3), (2, 3, 5)]), ('cls', ['Person', 'Student']),
]

def pairwise(domains):
    """deterministic greedy all-pairs covering array: every pair of values of every two attributes
    occurs in some row (the 'product data set' for every two-operand expression)"""
    names = [n for n, _ in domains]
    sizes = [len(v) for _, v in domains]
    k = len(domains)
    uncovered = set()
    for i in range(k):
        for j in range(i + 1, k):
            for a in range(sizes[i]):
                for b in range(sizes[j]): uncovered.add((i, a, j, b))
    rows = []
    while uncovered:
        i, a, j, b = min(uncovered)
        row = [None] * k
        row[i], row[j] = a, b
        for c in range(k):
            if row[c] is not None: continue
            best, bestn = 0, -1
            for v in range(sizes[c]):
                n = 0
                for c2 in range(k):
                    if row[c2] is None or c2 == c: continue
                    key = (c, v, c2, row[c2]) if c < c2 else (c2, row[c2], c, v)
                    if key in uncovered: n += 1
                if n > bestn: best, bestn = v, n
            row[c] = best
        for c in range(k):
            for c2 in range(c + 1, k): uncovered.discard((c, row[c], c2, row[c2]))
        rows.append(row)
    return [dict((names[c], domains[c][1][row[c]]) for c in range(k)) for row in rows]

_DATASETS = {}
def dataset(name='pairs'):
    if name in _DATASETS: return _DATASETS[name]
    depts = [(1, 'R&D', 100), (2, 'Ops', None), (3, 'a_b', -5), (4, 'Empty', 0), (5, 'Nulls', 7), (6, 'Dup', 2)]
    tags = [(1, 'x', 1), (2, 'y', None), (3, 'x', 1), (4, 'unused', 5), (5, 'z', -2)]   # 1 and 3 share label and w: DISTINCT matters
    if name == 'pairs':
        rows = pairwise(DOMAINS)
        base = dict(m=2, s='ab', t='b', b=True, f=0.0, d=Decimal('0.00'), dt=date(2021, 1, 1), tags=(), cls='Person')
        # grouped rows: a group whose n/f/d are all None (dept 5), duplicates inside a group (dept 6)
        rows += [dict(base, n=None, f=None, d=None, s=None, dept=5, b=None, dt=None),
                 dict(base, n=None, f=None, d=None, s=None, dept=5, m=3, b=None, dt=None),
                 dict(base, n=2, dept=6, tags=(1,)), dict(base, n=2, dept=6, tags=(1, 2)), dict(base, n=-3, dept=6, m=-3, f=2.5)]
        persons = []
        for i, r in enumerate(rows):
            r = dict(r, id=i + 1)
            r['grade'] = (None, 5, -1)[i % 3] if r['cls'] == 'Student' else None
            persons.append(r)
    elif name == 'small':
        depts, tags = depts[:3], tags[:3]
        persons = [dict(id=1, cls='Person', n=2, m=1, s='ab', t='b', b=True, f=2.5, d=Decimal('2.25'), dt=date(2021, 1, 1), dept=1, tags=(1, 2), grade=None),
                   dict(id=2, cls='Student', n=None, m=-2, s=None, t='ab', b=None, f=None, d=None, dt=None, dept=1, tags=(), grade=5),
                   dict(id=3, cls='Person', n=2, m=1, s='', t='A_', b=False, f=-1.5, d=Decimal('-1.50'), dt=date(2020, 2, 29), dept=None, tags=(1,), grade=None),
                   dict(id=4, cls='Student', n=-3, m=0, s='A_b%', t='b', b=True, f=0.0, d=Decimal('0.00'), dt=date(2021, 12, 31), dept=2, tags=(2, 3), grade=None)]
    elif name == 'empty':
        depts, tags, persons = [], [], []
    elif name == 'slots':
        d = _DATASETS[name] = Data(name, [], [], [], SLOTS, BOOKINGS)
        return d
    else: raise KeyError(name)
    d = _DATASETS[name] = Data(name, depts, tags, persons)
    return d

# 'slots': every projection of part of the key (with or without non-key attributes) has coinciding rows:
# (room) (hour) (room,label) (hour,label) (room,cap) (hour,cap) (room,label,cap) (hour,label,cap) (label) (cap) (label,cap)
SLOTS = [(1, 9, 'a', 10), (1, 10, 'a', 10), (2, 9, 'a', None), (2, 10, 'b', None), (3, 9, 'b', 5), (1, 11, 'c', 10),
         (3, 10, 'b', None), (4, 12, 'd', 0)]
# bookings per slot: (1,9) mixed with a None; (1,10) EMPTY; (2,9) all qty None; (2,10) sums to 0 (2, -2); (3,9) single 0;
# (1,11) duplicates (3, 3) and a negative; (3,10) EMPTY; (4,12) one None-qty booking whose note is None as well
BOOKINGS = [(1, (1, 9), 2, 1, 'x'), (2, (1, 9), None, 2, 'y'), (3, (1, 9), 5, 0, None),
            (4, (2, 9), None, 1, 'x'), (5, (2, 9), None, -1, 'x'),
            (6, (2, 10), 2, 3, 'b'), (7, (2, 10), -2, 3, 'a'),
            (8, (3, 9), 0, 0, ''),
            (9, (1, 11), 3, 7, 'y'), (10, (1, 11), 3, -7, 'y'), (11, (1, 11), -4, 1, None),
            (12, (4, 12), None, 5, None)]

def load(db, data):
    """populate a freshly mapped database with the rows of `data` (through Pony itself)"""
    from pony.orm import db_session
    if 'slots' in data.spec:
        with db_session:
            S = {(r, h): db.Slot(room=r, hour=h, label=l, **({} if c is None else dict(cap=c))) for r, h, l, c in data.spec['slots']}
            for i, k, q, w, nt in data.spec['bookings']:
                db.Booking(id=i, slot=S[tuple(k)], w=w, **{n: v for n, v in (('qty', q), ('note', nt)) if v is not None})
        return
    with db_session:
        D = {i: db.Dept(id=i, name=nm, budget=bu) for i, nm, bu in data.spec['depts']}
        T = {i: db.Tag(id=i, label=l, w=w) for i, l, w in data.spec['tags']}
        for r in data.spec['persons']:
            r = dict(r)
            cls = getattr(db, r.pop('cls', 'Person'))
            r['dept'] = D[r['dept']] if r.get('dept') is not None else None
            r['tags'] = [T[i] for i in r.get('tags', ())]
            if cls is not db.Student: r.pop('grade', None)
            cls(**{k: v for k, v in r.items() if v is not None})

_DBS = {}
def get_db(name='pairs'):
    """(db, data): in-memory SQLite database with the data set loaded; one per process and data set"""
    key = (os.getpid(), name)
    if key not in _DBS:
        from pony import orm
        db = orm.Database()
        (define_slots if name == 'slots' else define)(db)
        db.bind('sqlite', ':memory:')
        db.generate_mapping(create_tables=True)
        data = dataset(name)
        load(db, data)
        _DBS[key] = (db, data)
    return _DBS[key]

def clear_caches(db=None):
    """drop Pony's module-level and per-database translation caches (all id-keyed ones together):
    keeps memory bounded over 10^5 distinct query texts; behaviour is that of a cold process"""
    from pony.orm import core as pcore, decompiling, asttranslation
    from pony.utils import utils as putils
    pcore.string2ast_cache.clear(); decompiling.ast_cache.clear(); asttranslation.extractors_cache.clear()
    putils.codeobjects.clear(); putils.lambda_args_cache.clear()
    for d in ([db] if db is not None else [v[0] for v in _DBS.values()]):
        d._translator_cache.clear(); d._constructed_sql_cache.clear()

# ------------------------------------------------------------------------------------------------
# reference evaluator
class Env(object):
    __slots__ = ('vars', 'flags', 'group', 'nested')
    def __init__(self, vars, flags=None, group=None, nested=0):
        self.vars, self.flags, self.group, self.nested = vars, (set() if flags is None else flags), group, nested
    def bind(self, name, obj, nested=None):
        v = dict(self.vars); v[name] = obj
        return Env(v, self.flags, self.group, self.nested if nested is None else nested)

CATCH = (ZeroDivisionError, OverflowError, ValueError, IndexError, decimal.InvalidOperation)

class Evaluator(object):
    def __init__(self, data):
        self.data = data
        self.closed = {}        # id(gen node) -> is it independent of outer variables
        self.memo = {}          # results of closed generators / memoised nodes
        self.memo_ids = ()      # ids of nodes whose per-row value is memoised across queries
    def no_answer(self, env, value, wild=True):
        """Python would raise / the semantics are not fixed: the row becomes optional and (wild) its
        values arbitrary; inside a nested generator the whole outer row has no answer"""
        if env.nested: raise Undef()
        env.flags.add('optional')
        if wild: env.flags.add('wild')
        return value
    def value(self, x, env):
        if self.memo_ids and env.group is None and id(x) in self.memo_ids:
            k = (id(x), id(env.vars.get('p')), bool(env.nested))
            r = self.memo.get(k)
            if r is None:
                flags = set()
                try: r = ('v', self._value(x, Env(env.vars, flags, env.group, env.nested)), flags)
                except Undef: r = ('u', None, flags)
                self.memo[k] = r
            env.flags.update(r[2])
            if r[0] == 'u': raise Undef()
            return r[1]
        return self._value(x, env)
    def _value(self, x, env):
        op = x.op
        if op == 'const': return x.v
        if op == 'param':
            v = x.v[1]
            return self.data.get(v.ent, v.pk) if isinstance(v, Ref) else v
        if op == 'var': return env.vars[x.v]
        if op == 'ent': return list(self.data.ents[x.v])
        if op == 'attr':
            base = self.value(x.a[0], env)
            if is_ms(x.a[0].t):            # attribute lifting over a collection
                out = []
                for o in base:
                    v = getattr(o, x.v)
                    if isinstance(v, list): out.extend(i for i in v if not any(i is j for j in out))
                    else: out.append(v)
                return out
            if base is None:
                if x.a[0].op == 'var': raise core.HarnessError('unbound variable')
                self.no_answer(env, None, wild=False)      # attribute of None: Python raises, Pony joins: row dropped or None
                return [] if is_ms(x.t) else None
            v = getattr(base, x.v)
            return list(v) if isinstance(v, list) else v
        if op == 'hybrid':
            return self.value(HYBRIDS[x.v[0]][2](*x.a), env)
        if op == 'gen':
            closed = self.closed.get(id(x))
            if closed is None:
                bound = set([x.v]) | set(n.v for n in walk(x) if n.op == 'gen')
                closed = self.closed[id(x)] = all(n.v in bound for n in walk(x) if n.op == 'var')
            if closed:
                r = self.memo.get(('gen', id(x)))
                if r is None: r = self.memo[('gen', id(x))] = self._gen(x, Env({}, set(), None, env.nested + 1))
                if r[0] == 'u': raise Undef()
                return list(r[1])
            r = self._gen(x, env)
            if r[0] == 'u': raise Undef()
            return r[1]
        p = PRODS[op]
        if p.lazy is not None: return p.lazy(self, x, env)
        vals = [self.value(c, env) for c in x.a]
        for v in vals:
            if v is None: return None
        for v in vals:
            if isinstance(v, GroupConcat): raise Undef()
        try: return p.fn(*vals)
        except CATCH: raise Undef()
    def _gen(self, x, env):
        out = []
        try:
            for o in self.value(x.a[1], env):
                e2 = env.bind(x.v, o, nested=env.nested + 1)
                ok = True
                for c in x.a[2:]:
                    if self.cond(c, e2) is not True: ok = False; break
                if ok: out.append(self.value(x.a[0], e2))
        except Undef: return ('u', None)
        return ('v', out)
    def cond(self, x, env):
        """three-valued truth of x: True / False / None(Unknown)"""
        v = self.value(x, env)
        if x.t == COND: return v
        if is_ms(x.t): return len(v) > 0
        if v is None:
            env.flags.add('coerced')        # missing values are falsy in truth tests
            return False
        if isinstance(v, GroupConcat): return True
        return bool(v)

# ------------------------------------------------------------------------------------------------
# queries
FRONTENDS = ('str', 'gen', 'lam')

class Row(object):
    """one reference row. optional: the row may be absent; wild: its values are not fixed;
    lenient: a truth value in it was computed from a None operand coerced to False - the statement
    fixes that only for truth tests, so a projected None is accepted in place of the bool"""
    __slots__ = ('vals', 'optional', 'wild', 'env', 'okeys', 'lenient')
    def __init__(self, vals, optional, wild, env, okeys=None, lenient=False):
        self.vals, self.optional, self.wild, self.env, self.okeys, self.lenient = vals, optional, wild, env, okeys, lenient

class Expected(object):
    def __init__(self, mode, rows, types, undecided=None, keyed=False):
        self.mode, self.rows, self.types, self.undecided, self.keyed = mode, rows, types, undecided, keyed

class Query(object):
    """fors: [(var, source)], source = entity name or X of collection type over an earlier var
    proj : X or tuple of X;  conds: X list (each becomes its own `if`)
    order: tuple of (X, desc) -> .order_by(...), order_style in 'lambda' | 'str'
    """
    def __init__(self, fors, proj, conds=(), order=(), order_style='lambda', dataset='pairs', post=None):
        self.fors = [(v, s if isinstance(s, X) else X('ent', ms(s), (), s)) for v, s in fors]
        self.proj, self.conds, self.order, self.order_style, self.dataset = proj, tuple(conds), tuple(order), order_style, dataset
        self.post = post        # None | 'count': Query.count() of the result instead of the rows
    # ---- serialisation
    def to_json(self):
        extra = dict(post=self.post) if self.post else {}
        return dict(extra, fors=[[v, to_json(s)] for v, s in self.fors],
                    proj=[to_json(p) for p in self.proj] if isinstance(self.proj, tuple) else to_json(self.proj),
                    tuple=isinstance(self.proj, tuple), conds=[to_json(c) for c in self.conds],
                    order=[[to_json(k), d] for k, d in self.order], order_style=self.order_style, dataset=self.dataset)
    @staticmethod
    def from_json(j):
        proj = tuple(from_json(p) for p in j['proj']) if j['tuple'] else from_json(j['proj'])
        return Query([(v, from_json(s)) for v, s in j['fors']], proj, [from_json(c) for c in j['conds']],
                     [(from_json(k), d) for k, d in j['order']], j['order_style'], j['dataset'], j.get('post'))
    # ---- source text
    def all_nodes(self):
        xs = [s for _, s in self.fors] + list(self.conds) + [k for k, _ in self.order]
        xs += list(self.proj) if isinstance(self.proj, tuple) else [self.proj]
        return xs
    def params(self): return params_of(*self.all_nodes())
    def proj_src(self):
        if isinstance(self.proj, tuple):
            return '(' + ', '.join(src(p) for p in self.proj) + (',' if len(self.proj) == 1 else '') + ')'
        return _arg(self.proj) if self.proj.op == 'ifexp' else src(self.proj)
    def gen_src(self):
        s = self.proj_src()
        for i, (v, source) in enumerate(self.fors):
            s += ' for %s in %s' % (v, src(source))
            if i == len(self.fors) - 1:
                for c in self.conds: s += ' if ' + (_arg(c) if c.op == 'ifexp' else src(c))
        return s
    def lam_ok(self):
        return (len(self.fors) == 1 and self.fors[0][1].op == 'ent' and not isinstance(self.proj, tuple)
                and self.proj.op == 'var' and len(self.conds) >= 1)
    def order_src(self):
        ks = [('desc(%s)' % src(k)) if d else src(k) for k, d in self.order]
        return ks[0] if len(ks) == 1 else '(' + ', '.join(ks) + ')'
    def source(self, frontend='str'):
        """the Python text of the whole query for a front end"""
        if frontend == 'lam':
            v, s = self.fors[0]
            text = '%s.select(lambda %s: %s)' % (s.v, v, src(self.conds[0]))
            for c in self.conds[1:]: text += '.filter(lambda %s: %s)' % (v, src(c))
        elif frontend == 'gen': text = 'select(%s)' % self.gen_src()
        else: text = 'select(%r)' % self.gen_src()
        if self.order:
            if self.order_style == 'str': text += '.order_by(%r)' % self.order_src()
            else: text += '.order_by(lambda: %s)' % self.order_src()
        if self.post == 'count': text += '.count()'
        return text
    # ---- execution through Pony
    def make(self, db, frontend='str'):
        """the pony Query object (call inside db_session)"""
        from pony import orm
        g = base_globals(db)
        for k, v in self.params().items():
            g[k] = getattr(db, v.ent)[v.pk] if isinstance(v, Ref) else v
        if frontend == 'str':
            q = orm.select(self.gen_src(), g, {})
        elif frontend == 'gen':
            q = orm.select(eval('(' + self.gen_src() + ')', g), g, {})
        elif frontend == 'lam':
            v, s = self.fors[0]
            q = getattr(db, s.v).select(eval('lambda %s: %s' % (v, src(self.conds[0])), g), g, {})
            for c in self.conds[1:]: q = q.filter(eval('lambda %s: %s' % (v, src(c)), g), g, {})
        else: raise ValueError(frontend)
        if self.order:
            if self.order_style == 'str': q = q.order_by(self.order_src(), g, {})
            else: q = q.order_by(eval('lambda: ' + self.order_src(), g), g, {})
        return q
    def run(self, db, frontend='str'):
        """list of normalised result rows (tuples); raises whatever Pony raises"""
        from pony.orm import db_session
        with db_session:
            if self.post == 'count': return [(self.make(db, frontend).count(),)]
            res = self.make(db, frontend)[:]
            return [norm_row(r) for r in res]
    # ---- reference result
    def distinct(self):
        """Pony documents DISTINCT when the row does not contain the full primary key of every
        iterated entity (aggregated queries: one row per group)"""
        proj = self.proj if isinstance(self.proj, tuple) else (self.proj,)
        have, parts = set(), {}
        for p in proj:
            if p.op == 'var': have.add(p.v)
            elif p.op == 'attr' and p.a[0].op == 'var' and p.v in pk_attrs(p.a[0].t):
                parts.setdefault(p.a[0].v, set()).add(p.v)
        for v, s in self.fors:
            if parts.get(v) == set(pk_attrs(item_t(s.t))): have.add(v)      # a composite key counts only when complete
        return not all(v in have for v, _ in self.fors)
    def expected(self, data, ev=None):
        if self.post == 'count':
            exp = Query(self.fors, self.proj, self.conds, (), self.order_style, self.dataset).expected(data, ev)
            if exp.undecided: return Expected('bag', [], [INT], undecided=exp.undecided)
            if any(r.optional or r.wild for r in exp.rows): return Expected('bag', [], [INT], undecided='no-answer row under count()')
            n = len(set(tuple(canon(v) for v in r.vals) for r in exp.rows)) if exp.mode == 'set' else len(exp.rows)
            return Expected('bag', [Row((n,), False, False, None)], [INT])
        ev = ev or Evaluator(data)
        proj = self.proj if isinstance(self.proj, tuple) else (self.proj,)
        types = [p.t for p in proj]
        aggregated = any(has_qagg(p) for p in proj) or any(has_qagg(c) for c in self.conds)
        is_agg_col = has_qagg
        if not aggregated and self.distinct():
            # aggregates over attribute-lifted collections (sum(p.tags.w), count(d.persons)) make the query
            # an aggregated one grouped by the plain columns - unless the row carries every primary key,
            # where grouping by key and per-row evaluation coincide
            lp = [lifted_aggs(p) for p in proj]
            lc = [n for c in self.conds for n in lifted_aggs(c)]
            if any(lp) or lc:
                if lc: return Expected('bag', [], types, undecided='lifted aggregate in a condition of a grouped query')
                if any(l and not (len(l) == 1 and l[0] is p) for l, p in zip(lp, proj)):
                    return Expected('bag', [], types, undecided='lifted aggregate nested inside a projected expression')
                if len(set(src(l[0].a[0]).rsplit('.', 1)[0] if not is_ent(item_t(l[0].a[0].t)) else src(l[0].a[0]) for l in lp if l)) > 1:
                    return Expected('bag', [], types, undecided='several lifted aggregation paths')
                aggregated = True
                is_agg_col = lambda p: bool(lifted_aggs(p)) or has_qagg(p)
        envs = [Env({})]
        for v, source in self.fors:
            nxt = []
            for e in envs:
                try: items = ev.value(source, e)
                except Undef: return Expected('bag', [], types, undecided='undefined source')
                for o in items: nxt.append(Env(dict(e.vars, **{v: o}), set(e.flags)))
            envs = nxt
        plain_conds = [c for c in self.conds if not has_qagg(c)]
        agg_conds = [c for c in self.conds if has_qagg(c)]
        kept = []
        for e in envs:
            wild = False; ok = True
            try:
                for c in plain_conds:
                    if ev.cond(c, e) is not True: ok = False; break
            except Undef: wild = True
            if not ok and 'wild' not in e.flags: continue     # a no-answer condition keeps the row as optional
            kept.append((e, wild or 'wild' in e.flags))
        if aggregated:
            if any(w or 'optional' in e.flags for e, w in kept): return Expected('bag', [], types, undecided='no-answer row inside an aggregated query')
            plain = [i for i, p in enumerate(proj) if not is_agg_col(p)]
            groups, order = {}, []
            try:
                for e, _ in kept:
                    k = tuple(canon(ev.value(proj[i], e)) for i in plain)
                    if 'optional' in e.flags: return Expected('bag', [], types, undecided='no-answer row inside an aggregated query')
                    if k not in groups: groups[k] = []; order.append(k)
                    groups[k].append(e)
                if not plain and not kept: groups[()] = []; order.append(())
                rows = []
                for k in order:
                    members = groups[k]
                    ge = Env(members[0].vars if members else {}, set(), group=members)
                    if any(ev.cond(c, ge) is not True for c in agg_conds): continue
                    rows.append(Row(tuple(ev.value(p, ge) for p in proj), False, False, ge))
                    if 'optional' in ge.flags: return Expected('bag', [], types, undecided='no-answer row inside an aggregated query')
            except Undef: return Expected('bag', [], types, undecided='no-answer row inside an aggregated query')
            return Expected('bag', rows, types)
        rows = []
        for e, wild in kept:
            vals = []
            for p in proj:
                try: vals.append(ev.value(p, e))
                except Undef: vals.append(None); wild = True
            okeys = None
            if self.order:
                okeys = []
                for k, d in self.order:
                    try:
                        kv = ev.value(k, e)
                        okeys.append(UNORDERED if isinstance(kv, GroupConcat) else kv)
                    except Undef: okeys.append(UNORDERED)
            wild = wild or 'wild' in e.flags
            rows.append(Row(tuple(vals), wild or 'optional' in e.flags, wild, e, okeys, 'coerced' in e.flags))
        mode = 'set' if self.distinct() else 'bag'
        return Expected(mode, rows, types, keyed=not self.distinct())

UNORDERED = type('Unordered', (), {'__repr__': lambda s: '<no order>'})()

def base_globals(db):
    from pony import orm
    g = dict(db.entities, Decimal=Decimal, date=date, timedelta=timedelta)
    for n in ('select', 'count', 'sum', 'min', 'max', 'avg', 'group_concat', 'exists', 'desc', 'between', 'coalesce',
              'concat', 'distinct', 'JOIN', 'raw_sql', 'left_join'):
        g[n] = getattr(orm, n)
    return g

def norm(v):
    from pony.orm.core import Entity
    if isinstance(v, Entity): return EntRef(type(v).__name__, v.get_pk())
    return v
def norm_row(r):
    if isinstance(r, tuple): return tuple(norm(v) for v in r)
    return (norm(r),)

class EntRef(tuple):
    def __new__(cls, c, pk): return tuple.__new__(cls, (c, pk))
    def __repr__(self): return '%s[%s]' % self

# ------------------------------------------------------------------------------------------------
# comparison
DEC_TOL = 0.005 + 1e-9      # Decimal(10, 2) stored by SQLite as a float: half a unit of the declared scale

def same(t, e, g):
    """does the value Pony returned (g) equal the reference value (e) of static type t?"""
    if isinstance(e, GroupConcat): return e.matches(g)
    if e is None or g is None: return e is None and g is None
    if isinstance(e, Obj): return isinstance(g, EntRef) and g == (e._cls, e.id)
    if isinstance(e, bool): return (g is True or g is False or g in (0, 1)) and bool(g) == e
    if isinstance(e, (int, float, Decimal)):
        if isinstance(g, bool) or not isinstance(g, (int, float, Decimal)): return False
        ef, gf = float(e), float(g)
        if math.isnan(ef) or math.isnan(gf): return False
        tol = DEC_TOL if (t == DEC or isinstance(e, Decimal)) else 1e-9 * max(1.0, abs(ef))
        return abs(ef - gf) <= tol
    if isinstance(e, timedelta): return isinstance(g, timedelta) and abs((e - g).total_seconds()) < 1e-3
    return type(e) is type(g) and e == g

def canon(v):
    if isinstance(v, Obj): return ('$e', v._cls, v.id)
    if isinstance(v, EntRef): return ('$e',) + tuple(v)
    if isinstance(v, bool): return v
    if isinstance(v, (int, float, Decimal)):
        f = float(v)
        return round(f, 6) + 0.0
    if isinstance(v, GroupConcat): return ('$gc',) + tuple(v.parts)
    return v

class Mismatch(object):
    """kind: 'value' (row present, wrong column), 'missing', 'extra', 'duplicate', 'sequence'"""
    def __init__(self, kind, row=None, got=None, col=None):
        self.kind, self.row, self.got, self.col = kind, row, got, col
    def __repr__(self): return 'Mismatch(%s exp=%r got=%r)' % (self.kind, self.row and self.row.vals, self.got)

def row_matches(types, row, got):
    if len(got) != len(row.vals): return False
    if row.wild: return True
    if row.lenient: return all(same(t, e, g) or (g is None and isinstance(e, bool)) for t, e, g in zip(types, row.vals, got))
    return all(same(t, e, g) for t, e, g in zip(types, row.vals, got))

def compare(exp, got, order=None):
    """list of Mismatch (empty = agreement). exp: Expected, got: list of normalised rows."""
    out = []
    rows, types = exp.rows, exp.types
    if exp.keyed and rows and all(len(r.vals) >= 1 for r in rows) and _keyed_ok(exp):
        # rows carry the primary keys of all iterated entities: align by key for per-row attribution
        kidx = _key_columns(exp)
        ek = {}
        for r in rows: ek[tuple(canon(r.vals[i]) for i in kidx)] = r
        seen = set()
        for g in got:
            k = tuple(canon(g[i]) for i in kidx) if len(g) > max(kidx) else None
            r = ek.get(k)
            if r is None: out.append(Mismatch('extra', None, g)); continue
            if k in seen: out.append(Mismatch('duplicate', r, g)); continue
            seen.add(k)
            if not row_matches(types, r, g):
                col = [i for i, (t, e, gv) in enumerate(zip(types, r.vals, g)) if not same(t, e, gv) and not (r.lenient and gv is None and isinstance(e, bool))]
                out.append(Mismatch('value', r, g, col[0] if col else None))
        for k, r in ek.items():
            if k not in seen and not r.optional: out.append(Mismatch('missing', r, None))
    else:
        unmatched = list(rows)
        used_set = []
        for g in got:
            hit = None
            # exact candidates first, wildcards last
            for r in unmatched:
                if not r.wild and row_matches(types, r, g): hit = r; break
            if hit is None:
                for r in unmatched:
                    if r.wild and row_matches(types, r, g): hit = r; break
            if hit is not None:
                if exp.mode == 'set':
                    # all expected rows with the same value are consumed by one result row
                    same_rows = [r for r in unmatched if r is hit or (not r.wild and not hit.wild and row_matches(types, r, g))]
                    for r in same_rows: unmatched.remove(r)
                    used_set.append(g)
                else: unmatched.remove(hit)
            else:
                if exp.mode == 'set' and any(_rows_equal(types, g, u) for u in used_set): out.append(Mismatch('duplicate', None, g))
                elif any(r.wild for r in rows) and exp.mode == 'set': pass     # a no-answer row may have produced any value
                else: out.append(Mismatch('extra', None, g))
        for r in unmatched:
            if not r.optional: out.append(Mismatch('missing', r, None))
    if order and not out:
        out.extend(check_order(exp, got, order))
    return out

def _rows_equal(types, a, b):
    return len(a) == len(b) and all((x is None and y is None) or (x is not None and y is not None and canon(x) == canon(y)) for x, y in zip(a, b))
def _key_columns(exp):
    r = exp.rows[0]
    idx = []
    for i, v in enumerate(r.vals):
        if isinstance(v, Obj): idx.append(i)
    return idx or [0]
def _keyed_ok(exp):
    kidx = _key_columns(exp)
    keys = set()
    for r in exp.rows:
        if any(r.vals[i] is None for i in kidx): return False
        k = tuple(canon(r.vals[i]) for i in kidx)
        if k in keys: return False
        keys.add(k)
    return True

def _lt(a, b):
    """None = undecided (a None / no-answer key: Python cannot order it)"""
    for x, y in zip(a, b):
        if x is None or y is None or x is UNORDERED or y is UNORDERED: return None
        if isinstance(x, GroupConcat) or isinstance(y, GroupConcat): return None
        if isinstance(x, (int, float, Decimal)) and not isinstance(x, bool):
            fx, fy = float(x), float(y)
            if abs(fx - fy) <= 1e-9 * max(1.0, abs(fx)): continue
            return fx < fy
        if isinstance(x, Obj): x, y = x.id, y.id
        if x == y: continue
        return x < y
    return False
def check_order(exp, got, order):
    """sequence up to ties: no result row may come after a row with a strictly greater key"""
    kidx = _key_columns(exp)
    ek = {tuple(canon(r.vals[i]) for i in kidx): r for r in exp.rows}
    keys = []
    for g in got:
        r = ek.get(tuple(canon(g[i]) for i in kidx))
        if r is None or r.okeys is None: return []
        keys.append([_neg(k) if d else k for k, (_, d) in zip(r.okeys, order)])
    for i in range(len(keys)):
        for j in range(i + 1, len(keys)):
            if _lt(keys[j], keys[i]) is True:
                return [Mismatch('sequence', ek[tuple(canon(got[i][c]) for c in kidx)], got[j])]
    return []
class _Rev(object):
    __slots__ = ('v',)
    def __init__(self, v): self.v = v
    def __lt__(self, o): return self.v > o.v
    def __gt__(self, o): return self.v < o.v
    def __eq__(self, o): return self.v == o.v
    def __hash__(self): return hash(self.v)
def _neg(k):
    if k is None or k is UNORDERED: return k
    if isinstance(k, (int, float, Decimal)) and not isinstance(k, bool): return -k
    if isinstance(k, Obj): return -k.id
    return _Rev(k)

# ------------------------------------------------------------------------------------------------
# attribution helpers: operator skeleton with leaves erased to type / value classes
def leaf_kind(x):
    if x.op == 'const': return 'param' if x.t in (DEC, DATE, TD) else 'const'    # Decimal(..)/date(..)/timedelta(..) are calls: evaluated outside, bound as parameters
    if x.op == 'param': return 'param'
    return 'col'

ARITH = ('add', 'sub', 'mul', 'truediv', 'floordiv', 'mod', 'pow', 'neg', 'abs')
def operand_kind(c):
    if is_ms(c.t): return 'attr' if is_lifted(c) else 'gen'
    if is_leaf(c): return leaf_kind(c)
    if is_external(c): return 'param'       # Pony evaluates column-free subtrees in Python and binds the value
    return 'expr'

def is_leaf(x):
    return x.op in ('const', 'param', 'var', 'ent') or (x.op == 'attr' and x.a[0].op == 'var')

def skeleton(x, kinds=False):
    """operator skeleton of x: leaves replaced by their static type (and const/param/col kind where
    the production is known to special-case it)"""
    if is_leaf(x):
        t = x.t
        return ('%s:%s' % (leaf_kind(x), t)) if kinds else t
    if x.op == 'attr': return '%s.%s' % (skeleton(x.a[0]), x.v)
    if x.op == 'hybrid': return 'hybrid %s(%s)' % (x.v[0], ', '.join(skeleton(c) for c in x.a))
    if x.op == 'gen':
        return '(%s for %s%s)' % (skeleton(x.a[0]), skeleton(x.a[1]), ''.join(' if ' + skeleton(c) for c in x.a[2:]))
    p = PRODS[x.op]
    parts = []
    for c in x.a:
        s = skeleton(c, kinds=p.kindsens)
        parts.append(s if is_leaf(c) or PRODS.get(c.op, p).atomic or c.op in ('attr', 'hybrid', 'gen') else '(' + s + ')')
    if callable(p.fmt):
        if x.op in ('and', 'or'): return (' %s ' % x.op).join(parts)
        if x.op in ('in_list', 'not_in_list'): return '%s %s (%s)' % (parts[0], 'in' if x.op == 'in_list' else 'not in', ', '.join(parts[1:]))
        return p.sym.format(*parts)
    return p.fmt.format(*parts)

FINE_STR = ('upper', 'lower', 'strip', 'lstrip', 'rstrip', 'strip_chars', 'lstrip_chars', 'rstrip_chars', 'startswith',
            'endswith', 'in_str', 'not_in_str', 'len')
def value_class(v, fine=True):
    if v is None: return 'None'
    if isinstance(v, bool): return 'T' if v else 'F'
    if isinstance(v, (int, float, Decimal)): return 'neg' if v < 0 else ('zero' if v == 0 else 'pos')
    if isinstance(v, str):
        if v == '': return 'empty'
        if not fine: return 'str'
        if any(ord(c) > 127 for c in v): return 'nonascii'
        if v != v.strip(' '): return 'ws'
        if '%' in v or '_' in v: return 'wild'
        return 'str'
    if isinstance(v, Obj): return 'obj'
    if isinstance(v, list): return 'coll%d' % min(len(v), 2)
    return type(v).__name__

def leaves(x):
    if is_leaf(x):
        if x.op != 'ent' and x.op != 'var': yield x
        return
    if x.op == 'gen': return
    for c in x.a:
        for l in leaves(c): yield l

def leaf_classes(ev, x, env):
    """value classes of the leaves of x for one row, e.g. 'neg,pos'"""
    out = []
    for l in leaves(x):
        try: out.append(value_class(ev.value(l, Env(env.vars))))
        except Exception: out.append('?')
    return ','.join(out)

# ------------------------------------------------------------------------------------------------
# typed grammar: bounded-exhaustive enumeration of expressions over one query variable
_NUMPAIRS = [(INT, INT), (INT, FLOAT), (FLOAT, INT), (FLOAT, FLOAT), (DEC, DEC), (DEC, INT), (INT, DEC)]
def _numres(op, a, b):
    if DEC in (a, b): return DEC
    if op == 'truediv': return FLOAT
    return FLOAT if FLOAT in (a, b) else INT
VALUE_TYPES = (INT, FLOAT, DEC, STR, BOOL, DATE)
TRUTHY = (COND, INT, STR, BOOL)

def signatures():
    """[(production, operand types, result type)] - the typed grammar (scalar part)"""
    S = []
    for op in ('add', 'sub', 'mul', 'truediv', 'floordiv', 'mod'):
        for a, b in _NUMPAIRS: S.append((op, (a, b), _numres(op, a, b)))
    for a, b in _NUMPAIRS[:4]: S.append(('pow', (a, b), _numres('pow', a, b)))
    # & | ^ are not enumerated: the SQLite builder has no BITAND/BITOR/BITXOR (always refused)
    for t in NUM: S += [('neg', (t,), t), ('abs', (t,), t)]
    for t in ((INT, INT), (FLOAT, FLOAT), (INT, FLOAT), (DEC, DEC), (STR, STR), (DATE, DATE)):
        r = t[1] if t[0] != t[1] else t[0]
        S += [('min2', t, r), ('max2', t, r)]
    for t in (INT, STR): S += [('min3', (t, t, t), t), ('max3', (t, t, t), t)]
    for t in (FLOAT, STR, INT, DEC): S.append(('to_int', (t,), INT))
    for t in (INT, STR): S.append(('to_float', (t,), FLOAT))
    for t in (INT, STR, FLOAT): S.append(('to_str', (t,), STR))
    S += [('concat', (STR, STR), STR), ('concat_fn2', (STR, STR), STR), ('concat_fn2', (STR, INT), STR),
          ('concat_fn2', (INT, STR), STR), ('concat_fn3', (STR, STR, STR), STR), ('fstr2', (STR, STR), STR), ('fstr2', (STR, INT), STR),
          ('slice', (STR, INT, INT), STR), ('slice_from', (STR, INT), STR), ('slice_to', (STR, INT), STR), ('index', (STR, INT), STR),
          ('len', (STR,), INT)]
    for op in ('upper', 'lower', 'strip', 'lstrip', 'rstrip'): S.append((op, (STR,), STR))
    for op in ('strip_chars', 'lstrip_chars', 'rstrip_chars'): S.append((op, (STR, STR), STR))
    for op in ('year', 'month', 'day'): S.append((op, (DATE,), INT))
    S += [('date_add', (DATE, TD), DATE), ('date_sub', (DATE, TD), DATE), ('date_diff', (DATE, DATE), TD)]
    for t in ((INT, INT), (INT, FLOAT), (FLOAT, FLOAT), (DEC, DEC), (DEC, INT), (STR, STR), (BOOL, BOOL), (DATE, DATE), ('Dept', 'Dept')):
        S += [('eq', t, COND), ('ne', t, COND)]
    for t in ((INT, INT), (INT, FLOAT), (FLOAT, FLOAT), (DEC, DEC), (STR, STR), (DATE, DATE)):
        for op in ('lt', 'le', 'gt', 'ge'): S.append((op, t, COND))
    for op in ('startswith', 'endswith'): S.append((op, (STR, STR), COND))
    S += [('in_str', (STR, STR), COND), ('not_in_str', (STR, STR), COND)]
    for a in TRUTHY:
        for b in TRUTHY: S += [('and', (a, b), COND), ('or', (a, b), COND)]
    S += [('and', (COND, COND, COND), COND), ('or', (COND, COND, COND), COND)]
    for t in (COND, INT, FLOAT, DEC, STR, BOOL, DATE, 'Dept'): S.append(('not', (t,), COND))
    for c in (COND, BOOL, INT):
        for t in (INT, STR, FLOAT, DATE): S.append(('ifexp', (c, t, t), t))
    for t in (INT, STR, BOOL, FLOAT, DEC, DATE, 'Dept'):
        for op in ('is_none', 'is_not_none', 'eq_none', 'ne_none'): S.append((op, (t,), COND))
    for t in (INT, STR): S.append(('bool', (t,), COND))
    for t in (INT, STR, FLOAT, DEC, DATE): S.append(('coalesce2', (t, t), t))
    S.append(('coalesce3', (INT, INT, INT), INT))
    for t in (INT, STR, DATE, FLOAT): S.append(('between', (t, t, t), COND))
    for op in ('chain_lt_lt', 'chain_le_lt', 'chain_eq_eq', 'chain_gt_ne'): S.append((op, (INT, INT, INT), COND))
    for t in (INT, STR):
        for op in ('in_list', 'not_in_list'): S += [(op, (t, t), COND), (op, (t, t, t), COND)]
    # collections / attribute lifting / nested generators (operands of type ms:*)
    for t in (INT, STR, 'Tag', 'Person'): S.append(('count', (ms(t),), INT))
    S += [('sum', (ms(INT),), INT), ('avg', (ms(INT),), FLOAT)]
    for t in (INT, STR): S += [('min', (ms(t),), t), ('max', (ms(t),), t), ('group_concat', (ms(t),), STR)]
    for t in ('Tag', 'Person'):
        S += [('len_ms', (ms(t),), INT), ('count_m', (ms(t),), INT), ('exists', (ms(t),), COND), ('is_empty', (ms(t),), COND),
              ('not', (ms(t),), COND)]
    for t in (INT, STR): S += [('in_ms', (t, ms(t)), COND), ('not_in_ms', (t, ms(t)), COND)]
    S += [('in_ms', ('Tag', ms('Tag')), COND), ('not_in_ms', ('Tag', ms('Tag')), COND)]
    return S

def grammar_leaves(v, pruned=False, sfx=''):
    """operands of depth 0 by type for the query variable v (X 'var' of Person): attributes,
    constants and external parameters"""
    L = {
        INT: [attr(v, 'n'), attr(v, 'm'), const(-1), const(0), const(2), param('xi' + sfx, 2), param('yi' + sfx, -3)],
        FLOAT: [attr(v, 'f'), const(2.5), param('xf' + sfx, -0.5)],
        DEC: [attr(v, 'd'), const(Decimal('1.50')), param('xd' + sfx, Decimal('-0.75'))],
        STR: [attr(v, 's'), attr(v, 't'), const('ab'), const('a_'), const('%'), const(''), param('xs' + sfx, 'b'), param('ys' + sfx, 'a_'), param('zs' + sfx, '%b')],
        BOOL: [attr(v, 'b'), const(True), param('xb' + sfx, False)],
        DATE: [attr(v, 'dt'), const(date(2021, 1, 1)), param('xdt' + sfx, date(2020, 2, 29))],
        TD: [const(timedelta(days=1)), param('xtd' + sfx, timedelta(days=-366))],
        'Dept': [attr(v, 'dept'), param('xdept' + sfx, Ref('Dept', 1))],
        'Tag': [param('xtag' + sfx, Ref('Tag', 1))],
        'Person': [v],
    }
    if pruned:
        L = {INT: [L[INT][0], L[INT][4], L[INT][6]], FLOAT: [L[FLOAT][0], L[FLOAT][2]], DEC: [L[DEC][0], L[DEC][1]],
             STR: [L[STR][0], L[STR][1], L[STR][3], L[STR][8]], BOOL: [L[BOOL][0]], DATE: [L[DATE][0], L[DATE][2]],
             TD: [L[TD][0]], 'Dept': [L['Dept'][0]], 'Tag': L['Tag'], 'Person': [v]}
    return L

def collection_leaves(v, qname='q'):
    """collection-typed operands over v: relationship attributes, lifted attributes and nested
    generators (independent and correlated)"""
    q = var(qname, 'Person'); t = var('t', 'Tag')
    P = X('ent', ms('Person'), (), 'Person')
    tags, dp = attr(v, 'tags'), attr(attr(v, 'dept'), 'persons')
    out = {
        ms('Tag'): [tags, X('gen', ms('Tag'), (t, tags, call('gt', COND, attr(t, 'w'), const(0))), 't')],
        ms('Person'): [dp, X('gen', ms('Person'), (q, P, call('eq', COND, attr(q, 'dept'), attr(v, 'dept'))), qname),
                       X('gen', ms('Person'), (q, dp, call('gt', COND, attr(q, 'm'), attr(v, 'm'))), qname)],
        ms(INT): [attr(tags, 'w'), attr(dp, 'n'),
                  X('gen', ms(INT), (attr(t, 'w'), tags), 't'),
                  X('gen', ms(INT), (attr(q, 'n'), P, call('eq', COND, attr(q, 'dept'), attr(v, 'dept'))), qname),
                  X('gen', ms(INT), (attr(q, 'n'), P, call('lt', COND, attr(q, 'm'), const(0))), qname)],
        ms(STR): [attr(tags, 'label'), X('gen', ms(STR), (attr(q, 's'), P, call('eq', COND, attr(q, 'm'), attr(v, 'm'))), qname)],
    }
    return out

def is_external(x): return all(n.op in ('const', 'param') or PRODS.get(n.op) is not None for n in walk(x)) and not any(n.op in ('var', 'ent') for n in walk(x))

NO_CONST_OPERAND = ('is_none', 'is_not_none', 'eq_none', 'ne_none', 'not', 'bool')
def apply_signatures(sigs, operands, require_deep=None, externals=1, wide=None):
    """all applications of the signatures to the operand lists (dict type -> [X]). Combinations made
    only of constants/parameters are evaluated by Pony in Python before translation: `externals`
    of them are kept per signature. require_deep(x) filters operand tuples (used for exact depth)."""
    out = []
    for op, ats, rt in sigs:
        lists = [(wide if (wide is not None and len(ats) >= 3 and not (op == 'slice' and t == INT)) else operands).get(t, ()) for t in ats]
        if op in NO_CONST_OPERAND: lists = [[x for x in l if x.op != 'const'] for l in lists]
        if any(not l for l in lists): continue
        next_ext = externals
        for combo in itertools.product(*lists):
            if require_deep is not None and not require_deep(combo): continue
            if all(is_external(c) for c in combo):
                if next_ext <= 0: continue
                next_ext -= 1
            if op in ('in_list', 'not_in_list') and len(set(src(c) for c in combo)) < len(combo): continue
            out.append(X(op, rt, combo))
    return out

def extra_forms(v, L):
    """productions that are not plain applications: attribute navigation, hybrids, isinstance"""
    out = []
    for d in L['Dept']:
        if d.op == 'param': continue
        out += [attr(d, 'name'), attr(d, 'budget'), attr(d, 'id')]
    for k in L[INT][:4] if len(L[INT]) > 4 else L[INT][:2]:
        out += [hybrid(v, 'above', k), hybrid(v, 'scaled', k)]
    out += [hybrid(v, 'n2'), hybrid(v, 'tn')]
    out.append(X('isinstance', COND, (v, X('ent', 'class', (), 'Student'))))
    return out

def prod_name(x):
    if x.op == 'attr': return 'nav' if not is_ms(x.a[0].t) else 'lift'
    if x.op == 'hybrid': return 'hybrid:' + x.v[0]
    return x.op
def prods_in(x):
    return sorted(set(prod_name(n) for n in walk(x) if not is_leaf(n) or n.op == 'attr' and False))

def enumerate_exprs(v, depth=1, sfx=''):
    """every expression of the typed grammar over variable v of exact depth 1 (full operand lists) or
    exact depth 2 with operand lists pruned by type. Depth-2 pruning: leaves are cut to the pruned
    lists; a deep operand is a representative depth-1 expression - R_full: one per (production,
    operand types, all-columns / with-external pattern), R_core: one per (production, result type);
    unary: R_full; binary: R_full x leaves, leaves x R_full, R_core x R_core; ternary and wider:
    one R_full operand, the others the first one or two pruned leaves of their type."""
    sigs = signatures()
    if depth == 1:
        L = grammar_leaves(v, sfx=sfx)
        ops = dict(L); ops.update(collection_leaves(v))
        # productions with three or more operands draw from shorter lists (two columns, one
        # constant, one parameter per type) to keep the product small
        L3 = dict(ops)
        L3.update({INT: [L[INT][0], L[INT][1], L[INT][4], L[INT][6]], STR: [L[STR][0], L[STR][1], L[STR][3], L[STR][7]],
                   FLOAT: [L[FLOAT][0], L[FLOAT][2]], BOOL: [L[BOOL][0], L[BOOL][2]]})
        return apply_signatures(sigs, ops, wide=L3) + extra_forms(v, L)
    L = grammar_leaves(v, pruned=True, sfx=sfx)
    ops = dict(L); coll = collection_leaves(v)
    for k, lst in coll.items(): ops[k] = lst[:2]
    d1 = apply_signatures(sigs, ops, externals=0) + extra_forms(v, L)
    full, core_, seen, seen_core = {}, {}, set(), set()
    for x in d1:
        if is_ms(x.t): continue
        pat = 'cols' if all(leaf_kind(c) == 'col' for c in x.a) else 'mixed'
        k = (x.op, x.t, tuple(c.t for c in x.a), pat, x.v if x.op in ('attr', 'hybrid') else None)
        if k in seen: continue
        seen.add(k)
        full.setdefault(x.t, []).append(x)
        kc = (x.op, x.t, k[4])
        if kc not in seen_core and pat == 'cols':
            seen_core.add(kc); core_.setdefault(x.t, []).append(x)
    L1 = {t: l[:2] if t in (INT, STR) else l[:1] for t, l in ops.items()}
    out = []
    for sig in sigs:
        op, ats, rt = sig
        n = len(ats)
        if any(is_ms(t) for t in ats) and n == 1: continue       # aggregates over collections: depth 1 only
        if n == 1: out += apply_signatures([sig], full, externals=0)
        elif n == 2:
            a, b = ats
            out += _apply2(sig, full.get(a, ()), ops.get(b, ()))
            out += _apply2(sig, ops.get(a, ()), full.get(b, ()))
            out += _apply2(sig, core_.get(a, ()), core_.get(b, ()))
        else:
            for i in range(n):
                lists = [full.get(t, ()) if j == i else L1.get(t, ()) for j, t in enumerate(ats)]
                if any(not l for l in lists): continue
                for combo in itertools.product(*lists):
                    if op in ('in_list', 'not_in_list') and len(set(src(c) for c in combo)) < len(combo): continue
                    out.append(X(op, rt, combo))
    for d in full.get('Dept', ()): out += [attr(d, 'name'), attr(d, 'budget')]
    for k in core_.get(INT, ()): out += [hybrid(v, 'above', k)]
    return out

def _apply2(sig, la, lb):
    op, ats, rt = sig
    return [X(op, rt, (a, b)) for a in la for b in lb]




def op_skeleton(x):
    """the root operator of x with its operands erased to their static types. The operand kind
    (col / const / param / expr, attr / gen for collections) is kept where the translator is known to
    special-case it: productions marked kindsens, Decimal operands (parameters are bound as text)
    and collection operands."""
    if is_leaf(x): return '%s:%s' % (leaf_kind(x), x.t)
    if is_external(x): return 'param:%s' % x.t
    if x.op == 'attr': return '%s.%s' % (x.a[0].t, x.v)
    if x.op == 'hybrid': return 'hybrid %s(%s)' % (x.v[0], ', '.join(c.t for c in x.a))
    if x.op == 'gen': return '(gen %s)' % x.t
    p = PRODS[x.op]
    parts = []
    for c in x.a:
        if p.kindsens or (c.t == DEC and x.op not in ARITH) or is_ms(c.t): parts.append('%s:%s' % (operand_kind(c), c.t))
        else: parts.append(c.t)
    if callable(p.fmt):
        if x.op in ('and', 'or'): return (' %s ' % x.op).join(parts)
        if x.op in ('in_list', 'not_in_list'): return '%s %s (%s)' % (parts[0], 'in' if x.op == 'in_list' else 'not in', ', '.join(parts[1:]))
        return p.sym.format(*parts)
    return p.fmt.format(*parts)

def kind_skeleton(x):
    """operator skeleton with leaves erased to their kind only (for front-end specific failures:
    the decompiler sees constants, names and attribute chains, not types)"""
    if is_leaf(x): return 'const' if x.op == 'const' else leaf_kind(x)
    if x.op == 'attr': return kind_skeleton(x.a[0]) + '.attr'
    if x.op == 'hybrid': return 'hybrid(%s)' % ', '.join(kind_skeleton(c) for c in x.a)
    if x.op == 'gen': return '(gen)'
    p = PRODS[x.op]
    parts = [kind_skeleton(c) if is_leaf(c) or PRODS.get(c.op, p).atomic else '(' + kind_skeleton(c) + ')' for c in x.a]
    if callable(p.fmt):
        if x.op in ('and', 'or'): return (' %s ' % x.op).join(parts)
        if x.op in ('in_list', 'not_in_list'): return '%s %s (%s)' % (parts[0], 'in' if x.op == 'in_list' else 'not in', ', '.join(parts[1:]))
        return p.sym.format(*parts)
    return p.fmt.format(*parts)

def operand_classes(ev, x, env):
    """value classes of the operands of the root operator of x on one row, e.g. 'neg,pos'"""
    out = []
    kids = [x] if (is_leaf(x) or is_external(x)) else [c for c in x.a if c.op not in ('var', 'ent')]
    for c in kids:
        e = Env(env.vars)
        try:
            cl = value_class(ev.value(c, e), fine=x.op in FINE_STR)
            if c.t == COND and 'coerced' in e.flags: cl += '(None operand coerced)'
            out.append(cl)
        except Undef: out.append('undef')
    return ','.join(out)


def dead_navigation(ev, x, env):
    """does x contain an attribute navigation through a reference that is None on this row (which
    Python, evaluating lazily, never reaches if the row has an answer at all)?"""
    for n in walk_scope(x):
        if n.op == 'attr' and not is_leaf(n) and is_ent(n.a[0].t):
            try:
                if ev.value(n.a[0], Env(env.vars)) is None: return True
            except Undef: pass
    return False
