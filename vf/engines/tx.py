"""TX - thread-schedule explorer: stateless model checking of the REAL code over thread schedules.

Real OS threads (Pony's session state is threading.local) are run under cooperative baton passing: a
thread runs only between *scheduling points*; at every point the scheduler (the thread that called
Explorer.run) decides who continues. Points are

  * every visible driver call of a controlled connection (vf.seams.dbapi.ENV handler): execute /
    executemany always (except connection-local PRAGMAs), commit / rollback when the connection is
    inside a transaction. cursor(), connect, close, PRAGMA <connection-local> and commit/rollback
    outside a transaction act on nothing another thread can observe; they are folded into the
    transition of the preceding point (points='all' turns every driver call into a point; the property
    modules use it to cross-validate the reduction);
  * every acquire of the SQLite provider's transaction_lock / pre_transaction_lock, which are replaced
    after bind() by SchedLock objects: a thread that finds the lock held is *disabled* until release.
    "No enabled thread while some thread is unfinished" is a deadlock and is reported as such.

One transition = the announced operation + all thread-local code up to the next point. Before the first
decision every thread is run (in index order) up to its first point: that code is thread-local.

Exploration is depth-first over choice lists with ITERATIVE PREEMPTION BOUNDING: switching away from a
thread that is still enabled costs 1, every other decision is free; all schedules with 0 preemptions
are executed first, then those with exactly 1, then 2 ... up to the bound (bound=None: all
interleavings). Every execution runs to completion, each exactly once. Every execution re-creates
threads and database rows (file database in /dev/shm, rows reset through an independent raw sqlite3
connection); worker threads end with db.disconnect(). After every transition the scheduler can read
the COMMITTED state through that independent connection (observer), so monitors see what other
sessions could see at each point.

Determinism: a prefix handed to run() carries the hash of the trace that produced it; a different trace
or enabled set while replaying it raises vf.core.HarnessError (a broken harness, never a violation).
A worker that does not come back to the scheduler within WATCHDOG seconds (blocked on something the
scheduler does not control) is a HarnessError as well.
"""
import os, sys, sqlite3, threading, time, traceback
from vf import core
from vf.seams import dbapi

WATCHDOG = 180.0   # generous: a loaded machine is slow, not wrong (60 s was hit once at load average 140)
VISIBLE_KINDS = ('execute', 'executemany', 'commit', 'rollback')
LOCAL_PRAGMAS = ('PRAGMA FOREIGN_KEYS', 'PRAGMA CASE_SENSITIVE_LIKE')

try: _ALLOWED = sorted(os.sched_getaffinity(0))
except (AttributeError, OSError): _ALLOWED = []

def pin_worker():
    """Baton passing is serial by construction: exactly one thread of a process runs at any time. Letting the
    kernel spread the hand-offs over all CPUs costs an inter-processor wake-up per transition (measured: 9.5 ms
    per execution unpinned, 3.5 ms pinned). A pool worker therefore pins itself to one CPU, chosen by its pool
    index; the parent process is never pinned (children would inherit the mask)."""
    import multiprocessing as mp
    ident = mp.current_process()._identity
    if not ident or not _ALLOWED: return None
    cpu = _ALLOWED[(ident[0] - 1) % len(_ALLOWED)]
    try: os.sched_setaffinity(0, {cpu})
    except OSError: return None
    return cpu

class Abort(BaseException):
    """unwinds a parked worker after a deadlock has been recorded"""

def default_visible(kind, sql, con):
    if kind in ('execute', 'executemany'):
        return not (sql and sql.lstrip().upper().startswith(LOCAL_PRAGMAS))
    if kind in ('commit', 'rollback'):
        return bool(con is not None and con.in_transaction)
    return False

def all_visible(kind, sql, con):
    return True

def canon_args(a):
    if a is None: return None
    if isinstance(a, dict): return tuple(sorted((str(k), repr(v)) for k, v in a.items()))
    try: return tuple(repr(v) for v in a)
    except TypeError: return repr(a)

# ---- scheduler-aware lock ----------------------------------------------------------------------
class SchedLock(object):
    """Replacement for a threading.Lock owned by the code under test. acquire() is a scheduling point;
    while the lock is held the acquiring thread is disabled (never blocks the OS thread)."""
    def __init__(self, world, name):
        self.world, self.name, self.owner = world, name, None
        self.acquisitions = 0
    def acquire(self, blocking=True, timeout=-1):
        s = self.world.sched
        me = s.me() if s is not None else None
        if me is None or s.aborting:
            if self.owner is not None and not (s is not None and s.aborting):
                raise core.HarnessError('unmanaged thread would block on %s held by %r' % (self.name, self.owner))
            self.owner = 'unmanaged' if me is None else me
            return True
        if not blocking:
            s.point(('trylock', self.name), None)
            if self.owner is not None: return False
        else:
            s.point(('lock', self.name), self)
            if self.owner is not None:
                raise core.HarnessError('scheduled into %s although it is held by %r' % (self.name, self.owner))
        self.owner = me
        self.acquisitions += 1
        return True
    def release(self):
        if self.owner is None: raise RuntimeError('release unlocked lock')
        self.owner = None
    def locked(self):
        return self.owner is not None
    def __enter__(self):
        self.acquire(); return self
    def __exit__(self, *a):
        self.release()

class GuardedRLock(object):
    """Stands in for locks that are never held across a scheduling point (Database._global_stats_lock).
    Under baton passing such a lock is never contended; contention would block an OS thread outside
    the scheduler, so it is turned into a hard harness error instead."""
    def __init__(self, world, name):
        self.world, self.name, self.owner, self.depth = world, name, None, 0
    def acquire(self, blocking=True, timeout=-1):
        me = threading.get_ident()
        if self.owner not in (None, me):
            raise core.HarnessError('%s contended: held across a scheduling point' % self.name)
        self.owner = me; self.depth += 1
        return True
    def release(self):
        self.depth -= 1
        if self.depth == 0: self.owner = None
    def __enter__(self):
        self.acquire(); return self
    def __exit__(self, *a):
        self.release()

# ---- the world: one database, shared by all executions of a worker process -------------------------
class World(object):
    """define(db, orm) declares the entities; populate(E) creates the initial rows through Pony once
    (captured raw, restored before every execution). extra: dict of objects handed to bodies."""
    _n = 0
    def __init__(self, name, define, populate, journal='MEMORY'):
        from pony import orm
        self.orm, self.name = orm, name
        World._n += 1
        d = dbapi.scratch_dir()
        self.path = os.path.join(d, 'tx-%s-%d-%d.sqlite' % (name, os.getpid(), World._n))
        self._unlink()
        self.sched = None
        self.db = db = orm.Database()
        define(db, orm)
        db.bind('sqlite', self.path, create_db=True, factory=dbapi.VfConnection, timeout=0)
        self.journal = journal
        if journal:
            @db.on_connect(provider='sqlite')
            def _journal(db, con):
                sqlite3.Connection.execute(con, 'PRAGMA journal_mode = %s' % journal)   # not through the seam
        db.generate_mapping(create_tables=True)
        self.E = dict(db.entities)
        # replace every real lock of the provider / database that a worker could block on
        prov = db.provider
        self.locks = {}
        for attr in sorted(vars(prov)):
            v = getattr(prov, attr)
            if isinstance(v, type(threading.Lock())):
                self.locks[attr] = SchedLock(self, attr)
                setattr(prov, attr, self.locks[attr])
            elif isinstance(v, type(threading.RLock())):
                setattr(prov, attr, GuardedRLock(self, 'provider.' + attr))
        for attr in sorted(vars(db)):
            v = getattr(db, attr)
            if isinstance(v, (type(threading.Lock()), type(threading.RLock()))):
                setattr(db, attr, GuardedRLock(self, 'database.' + attr))
        self.raw = sqlite3.connect(self.path, isolation_level=None, timeout=0, check_same_thread=False)
        if journal: self.raw.execute('PRAGMA journal_mode = %s' % journal)
        self.tables = [r[0] for r in self.raw.execute(
            "select name from sqlite_master where type='table' and name not like 'sqlite_%' order by name")]
        self.has_seq = bool(self.raw.execute("select 1 from sqlite_master where name='sqlite_sequence'").fetchall())
        with orm.db_session:
            populate(self.E)
        db.disconnect()
        self.fixture = self.dump()
        self.seq = self.raw.execute('select name, seq from sqlite_sequence').fetchall() if self.has_seq else []
        self.columns = {t: [r[1] for r in self.raw.execute('pragma table_info("%s")' % t)] for t in self.tables}

    def _unlink(self):
        for suffix in ('', '-journal', '-wal', '-shm'):
            if os.path.exists(self.path + suffix): os.unlink(self.path + suffix)
    def dump(self):
        """committed rows of every table, as seen by an independent connection right now"""
        out = {}
        for t in self.tables:
            out[t] = tuple(sorted(self.raw.execute('select * from "%s"' % t).fetchall(), key=repr))
        return out
    def rows(self, snapshot, table):
        """{pk: {column: value}} of one table of a snapshot (first column is the key)"""
        cols = self.columns[table]
        return {r[0]: dict(zip(cols, r)) for r in snapshot[table]}
    def reset(self):
        raw = self.raw
        raw.execute('PRAGMA foreign_keys = false')
        raw.execute('BEGIN IMMEDIATE')
        for t in self.tables:
            raw.execute('delete from "%s"' % t)
            rs = self.fixture[t]
            if rs: raw.executemany('insert into "%s" values (%s)' % (t, ','.join('?' * len(rs[0]))), rs)
        if self.has_seq:
            raw.execute('delete from sqlite_sequence')
            if self.seq: raw.executemany('insert into sqlite_sequence (name, seq) values (?, ?)', self.seq)
        raw.execute('COMMIT')
    def close(self):
        dbapi.ENV.reset()
        try: self.db.disconnect()
        except Exception: pass
        self.raw.close()
        self._unlink()

# ---- one execution -----------------------------------------------------------------------------------
class ThreadCtx(object):
    """handed to a body: t.index, t.world, t.E, t.orm, t.note(...)"""
    def __init__(self, sched, index):
        self.sched, self.index = sched, index
        self.world = sched.world
        self.E, self.orm, self.db = self.world.E, self.world.orm, self.world.db
    def note(self, *data):
        s = self.sched
        s.notes.append((len(s.trace) - 1, self.index, data))

class Exec(object):
    """result of one execution"""
    __slots__ = ('choices', 'trace', 'enabled', 'preemptions', 'results', 'notes', 'snaps', 'deadlock',
                 'local_ops', 'prefix_hashes', 'waits')
    def schedule(self):
        return [t for t, _ in self.trace]
    def describe(self, limit=60):
        out = []
        for (t, lab) in self.trace[:limit]:
            s = lab[1] if len(lab) > 1 and isinstance(lab[1], str) else ''
            out.append('T%d %s %s' % (t, lab[0], ' '.join(s.split())[:70]) + (' ' + str(lab[2]) if len(lab) > 2 and lab[2] else ''))
        return out

def _held_lock():
    lk = threading.Lock()
    lk.acquire()
    return lk

class Scheduler(object):
    def __init__(self, world, bodies, choices, visible, observe):
        self.world, self.bodies, self.choices = world, bodies, list(choices)
        self.visible, self.observe = visible, observe
        n = len(bodies)
        self.n = n
        self.sems = [_held_lock() for _ in range(n)]      # binary semaphores: raw locks, initially taken
        self.main = _held_lock()
        self.done = [False] * n
        self.pending = [None] * n          # label of the operation each parked thread is about to perform
        self.wants = [None] * n            # SchedLock it needs, or None
        self.idents = {}
        self.trace, self.enabled, self.taken = [], [], []
        self.notes, self.snaps = [], []
        self.results = [None] * n
        self.aborting = False
        self.local_ops = 0
        self.waits = 0                     # decisions at which some thread was disabled on a lock
        self.errors = []
    def me(self):
        return self.idents.get(threading.get_ident())
    # -- worker side --
    def point(self, label, lock):
        i = self.me()
        self.pending[i], self.wants[i] = label, lock
        self.main.release()
        self.sems[i].acquire()
        if self.aborting: raise Abort()
    def on_call(self, kind, sql, args, con):
        i = self.me()
        if i is None or self.aborting: return
        if not self.visible(kind, sql, con):
            self.local_ops += 1
            return
        if kind in ('commit', 'rollback') and not (con is not None and con.in_transaction):
            kind += '(no-op)'                  # only reachable with points='all'
        self.point((kind, sql, canon_args(args)), None)
    def worker(self, i):
        self.idents[threading.get_ident()] = i
        self.sems[i].acquire()
        t = ThreadCtx(self, i)
        try:
            if self.aborting: raise Abort()
            try:
                self.results[i] = ('ok', self.bodies[i](t))
            except Abort:
                self.results[i] = ('aborted',)
            except core.HarnessError as e:
                self.errors.append(e); self.results[i] = ('harness', str(e))
            except Exception as e:
                self.results[i] = ('exc', type(e).__name__, str(e)[:300])
        finally:
            try:
                orm = self.world.orm
                try:
                    if orm.core.local.db_session is not None or orm.core.local.db2cache: orm.rollback()
                except Abort: pass
                except Exception as e: self.errors.append(core.HarnessError('cleanup rollback failed: %r' % e))
                orm.core.local.db_session = None
                try: self.world.db.disconnect()
                except Abort: pass
                except Exception as e: self.errors.append(core.HarnessError('disconnect failed: %r' % e))
            finally:
                self.done[i] = True
                self.pending[i], self.wants[i] = None, None
                self.main.release()
    # -- scheduler side --
    def wait(self, what):
        if not self.main.acquire(timeout=WATCHDOG):
            raise core.HarnessError('worker did not return to the scheduler within %ss (%s): blocked outside '
                                    'the scheduler? trace tail %r' % (WATCHDOG, what, self.trace[-3:]))
    def run(self, expect=None):
        world = self.world
        world.sched = self
        dbapi.ENV.reset(handler=self.on_call)
        threads = [threading.Thread(target=self.worker, args=(i,), daemon=True) for i in range(self.n)]
        for th in threads: th.start()
        deadlock = False
        try:
            for i in range(self.n):              # thread-local prologue of every thread, in index order
                self.sems[i].release(); self.wait('prologue of T%d' % i)
            if self.observe: self.snaps.append(world.dump())
            cur = None
            h = 0
            hashes = []
            pos = 0
            while True:
                en = [i for i in range(self.n) if not self.done[i] and (self.wants[i] is None or self.wants[i].owner is None)]
                if not en:
                    deadlock = not all(self.done)
                    break
                if len(en) < sum(1 for d in self.done if not d): self.waits += 1
                if cur in en:
                    en.remove(cur); en.insert(0, cur)
                if pos < len(self.choices):
                    c = self.choices[pos]
                    if c >= len(en):
                        raise core.HarnessError('replay diverged at point %d: choice %d but enabled %r' % (pos, c, en))
                else: c = 0
                if expect is not None and pos == expect[0]:
                    if h != expect[1] or tuple(en) != tuple(expect[2]):
                        raise core.HarnessError('replay diverged at point %d: trace hash/enabled set differ '
                                                '(enabled %r, expected %r)' % (pos, en, expect[2]))
                cur = en[c]
                label = self.pending[cur]
                self.enabled.append(en); self.taken.append(c)
                self.trace.append((cur, label))
                h = hash((h, cur, label))
                hashes.append(h)
                pos += 1
                self.sems[cur].release(); self.wait('T%d %r' % (cur, label))
                if self.observe: self.snaps.append(world.dump())
            if expect is not None and pos < expect[0]:
                raise core.HarnessError('replay diverged: execution ended at point %d before the prefix (%d)' % (pos, expect[0]))
        finally:
            if not all(self.done):               # deadlock or harness error: unwind parked workers one by one
                self.aborting = True
                for i in range(self.n):
                    if not self.done[i]:
                        for lk in world.locks.values(): lk.owner = None
                        self.sems[i].release()
                        self.main.acquire(timeout=WATCHDOG)
            for th in threads: th.join(WATCHDOG)
            for lk in world.locks.values(): lk.owner = None
            world.sched = None
            dbapi.ENV.reset()
        if self.errors: raise self.errors[0]
        if any(th.is_alive() for th in threads): raise core.HarnessError('worker thread still alive after execution')
        x = Exec()
        x.choices, x.trace, x.enabled = self.taken, self.trace, self.enabled
        x.results, x.notes, x.snaps, x.deadlock = self.results, self.notes, self.snaps, deadlock
        x.local_ops, x.prefix_hashes, x.waits = self.local_ops, hashes, self.waits
        x.preemptions = preemption_costs(x)[-1] if x.trace else 0
        return x

def preemption_costs(x):
    """cost[i] = number of preemptions among decisions 0..i-1 (len = len(trace)+1)"""
    cost, out = 0, [0]
    for i in range(len(x.trace)):
        if i > 0:
            prev = x.trace[i - 1][0]
            if prev in x.enabled[i] and x.trace[i][0] != prev: cost += 1
        out.append(cost)
    return out

# ---- the explorer ----------------------------------------------------------------------------------
class Explorer(object):
    """bodies: list of callables body(t: ThreadCtx) -> JSON-able result (an exception is an outcome too).
    visit(x: Exec) is called once per execution."""
    def __init__(self, world, bodies, observe=True, points='visible'):
        self.world, self.bodies, self.observe = world, list(bodies), observe
        self.visible = all_visible if points == 'all' else (points if callable(points) else default_visible)
        self.executions = self.transitions = self.deadlocks = 0
        self.by_preemptions = {}
        self.states = set()
        self.traces = set()
        self.bound_completed = None
        self.capped = False
    def run(self, choices=(), expect=None):
        self.world.reset()
        return Scheduler(self.world, self.bodies, choices, self.visible, self.observe).run(expect)
    def explore(self, bound, visit, max_executions=None, rng=None):
        """bound: maximal number of preemptions (None = all interleavings). Returns self.stats()."""
        frontier = {0: [((), None)]}
        level = 0
        cut = False           # some alternative was left out because of the bound
        while True:
            pending = [c for c in frontier if frontier[c]]
            if not pending: break
            level = min(pending)
            work = frontier[level]
            if rng is not None: rng.shuffle(work)
            while work:
                if max_executions is not None and self.executions >= max_executions:
                    self.capped = True
                    return self.stats()
                prefix, expect = work.pop()
                x = self.run(prefix, expect)
                self.account(x)
                visit(x)
                costs = preemption_costs(x)
                for i in range(len(prefix), len(x.trace)):
                    en = x.enabled[i]
                    if len(en) < 2: continue
                    prev = x.trace[i - 1][0] if i > 0 else None
                    c = costs[i] + (1 if prev in en else 0)       # alternatives 1.. all leave a still-enabled thread
                    if bound is not None and c > bound:
                        cut = True; continue
                    hsh = x.prefix_hashes[i - 1] if i > 0 else 0
                    base = tuple(x.choices[:i])
                    for alt in range(1, len(en)):
                        frontier.setdefault(c, []).append((base + (alt,), (i, hsh, tuple(en))))
            self.bound_completed = level
        # the frontier is empty: every schedule with at most `bound` preemptions has been executed; when
        # nothing was cut off these are ALL interleavings of the program tuple
        self.bound_completed = 'all' if (bound is None or not cut) else bound
        return self.stats()
    def account(self, x):
        self.executions += 1
        self.transitions += len(x.trace)
        self.by_preemptions[x.preemptions] = self.by_preemptions.get(x.preemptions, 0) + 1
        if x.deadlock: self.deadlocks += 1
        self.states.update(x.prefix_hashes)
        if x.prefix_hashes: self.traces.add(x.prefix_hashes[-1])
    def stats(self):
        return dict(executions=self.executions, transitions=self.transitions, states=len(self.states) + 1,
                    distinct_traces=len(self.traces), deadlocks=self.deadlocks,
                    by_preemptions={str(k): v for k, v in sorted(self.by_preemptions.items())},
                    bound_completed=self.bound_completed, capped=self.capped)

def check_replay(explorer, x):
    """re-execute the recorded choice list twice; traces, results and notes must be identical"""
    a = explorer.run(x.choices)
    b = explorer.run(x.choices)
    for y in (a, b):
        if y.trace != x.trace or y.results != x.results or y.notes != x.notes or y.snaps != x.snaps:
            raise core.HarnessError('replay of choice list %r is not deterministic' % (x.choices,))
    return a

def free_run(world, bodies, iterations=50):
    """Smoke pass WITHOUT the scheduler: the same bodies on free-running threads with real
    threading.Lock objects in the provider. Its only job is to crash loudly on unsynchronised shared
    state; it decides nothing. Returns {outcome class: count}."""
    prov = world.db.provider
    saved = {name: getattr(prov, name) for name in world.locks}
    for name in world.locks: setattr(prov, name, threading.Lock())
    dbapi.ENV.reset()
    world.sched = None
    counts = {}
    class _T(object):
        def __init__(self, i): self.index, self.world, self.E, self.orm, self.db = i, world, world.E, world.orm, world.db
        def note(self, *data): pass
    def runner(i):
        try:
            try:
                r = bodies[i](_T(i))
                k = 'ok' if not isinstance(r, dict) else ('%s%s' % (r.get('status'), '' if r.get('pony', True) else ' NON-PONY') + (':' + r['cls'] if r.get('cls') else ''))
            except Exception as e: k = 'raised NON-PONY:' + type(e).__name__
            counts[k] = counts.get(k, 0) + 1
        finally:
            world.orm.core.local.db_session = None
            try: world.db.disconnect()
            except Exception: pass
    try:
        for _ in range(iterations):
            world.reset()
            ths = [threading.Thread(target=runner, args=(i,), daemon=True) for i in range(len(bodies))]
            for th in ths: th.start()
            for th in ths:
                th.join(WATCHDOG)
                if th.is_alive(): raise core.HarnessError('free-running thread did not finish')
    finally:
        for name, lk in saved.items(): setattr(prov, name, lk)
    return counts
