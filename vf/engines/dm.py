"""DM - dialect models (trusted base, kept minimal; DESIGN section 2).

* capture databases: the real provider class of a dialect (translator, builder, converters) on a
  mock pool, with _exec_sql recording (sql, arguments) instead of executing;
* substrate: a SQLite connection holding the same tables, with the dialect's *documented*
  function semantics registered as UDFs (a UDF overrides a SQLite built-in of the same name),
  on which a dialect's SQL text is executed after placeholder normalisation and a closed list of
  token rewrites. Anything outside the closed list is reported as UNDECIDED, never judged.
"""
import re, sqlite3
from vf import core, stubs

DIALECTS = ('sqlite', 'postgres', 'mysql', 'oracle')

class Undecided(Exception):
    pass

class _Cursor(object):
    description = []; rowcount = 0
    def execute(self, sql, args=None): pass
    def fetchone(self): return None
    def fetchmany(self, size=None): return []
    def fetchall(self): return []
    def close(self): pass
_cursor = _Cursor()

class _Conn(object):
    def __init__(self, autocommit=None):
        if autocommit is not None: self.autocommit = autocommit
    def commit(self): pass
    def rollback(self): pass
    def cursor(self): return _cursor
    def close(self): pass

class _Pool(object):
    def __init__(self, provider_name): self.provider_name = provider_name
    def connect(self): return _Conn(True if self.provider_name == 'postgres' else None), True
    def release(self, con): pass
    def drop(self, con): pass
    def disconnect(self): pass

_VERSIONS = dict(sqlite=(3, 40, 1), postgres=160000, mysql=(10, 11, 0), oracle=(12, 2, 0))

def capture_database(provider_name, json1=True):
    """A pony Database bound to the real provider class of `provider_name` over a mock pool.
    db.log is the list of (sql, arguments) that would have been sent to the driver."""
    stubs.install_all()
    from pony.orm.core import Database
    from pony.utils import import_module
    module = import_module('pony.orm.dbproviders.' + provider_name)
    class CaptureProvider(module.provider_cls):
        json1_available = json1
        server_version = _VERSIONS[provider_name]
        def inspect_connection(provider, connection): pass
    class CaptureDatabase(Database):
        def _exec_sql(database, sql, arguments=None, returning_id=False, start_transaction=False):
            database.log.append((sql, arguments))
            return 1 if returning_id else _cursor
        def generate_mapping(database, **kwargs):
            return Database.generate_mapping(database, create_tables=False, check_tables=False)
    db = CaptureDatabase()
    db.log = []
    db.vf_provider_name = provider_name
    db.bind(CaptureProvider, pony_check_connection=False, pony_pool_mockup=_Pool(provider_name))
    return db

# ---- PEP 249 binder model ---------------------------------------------------------------------
def bind_placeholders(sql, args, paramstyle):
    """Return (sqlite_sql, sqlite_args) equivalent to what a PEP 249 driver of `paramstyle` does
    with (sql, args): which value each placeholder occurrence receives. format/pyformat drivers
    %-interpolate whenever args are passed, so '%%' denotes a literal '%'."""
    if paramstyle == 'qmark':
        return sql, tuple(args or ())
    if paramstyle == 'numeric':
        out = []
        def rep(m): out.append(args[int(m.group(1)) - 1]); return '?'
        return _sub_outside_literals(r':(\d+)', rep, sql), tuple(out)
    if paramstyle == 'named':
        out = []
        def rep(m): out.append(args[m.group(1)]); return '?'
        return _sub_outside_literals(r':([A-Za-z_]\w*)', rep, sql), tuple(out)
    if paramstyle in ('format', 'pyformat'):
        if args is None: return sql, ()
        out, res, i, n, pos = [], [], 0, len(sql), 0
        while i < n:
            c = sql[i]
            if c != '%': res.append(c); i += 1; continue
            if sql.startswith('%%', i): res.append('%'); i += 2; continue
            if paramstyle == 'format' and sql.startswith('%s', i):
                out.append(args[pos]); pos += 1; res.append('?'); i += 2; continue
            m = re.compile(r'%\(([^)]*)\)s').match(sql, i)
            if paramstyle == 'pyformat' and m:
                out.append(args[m.group(1)]); res.append('?'); i = m.end(); continue
            raise Undecided('driver %%-interpolation would fail at %r' % sql[i:i + 6])
        return ''.join(res), tuple(out)
    raise AssertionError(paramstyle)

_LIT = re.compile(r"'(?:[^']|'')*'|\"(?:[^\"]|\"\")*\"|`[^`]*`")
def _sub_outside_literals(pattern, rep, sql):
    out, last = [], 0
    for m in _LIT.finditer(sql):
        out.append(re.sub(pattern, rep, sql[last:m.start()])); out.append(m.group(0)); last = m.end()
    out.append(re.sub(pattern, rep, sql[last:]))
    return ''.join(out)

# ---- closed list of token rewrites ---------------------------------------------------------------
def _balanced_prefix_start(s, end):
    """s[end-1] == ')': return index of matching '('."""
    depth = 0
    i = end - 1
    while i >= 0:
        c = s[i]
        if c == ')': depth += 1
        elif c == '(':
            depth -= 1
            if depth == 0: return i
        elif c in "'\"": raise Undecided('literal inside cast operand')
        i -= 1
    raise Undecided('unbalanced cast operand')

_PG_CASTS = (('::double precision', 'pg_to_real'), ('::int', 'pg_to_int'), ('::text', 'pg_to_text'))

def rewrite_for_substrate(sql, dialect):
    if dialect == 'postgres':
        # (expr)::int -> pg_to_int(expr)   etc.  Only the parenthesised form Pony emits.
        changed = True
        while changed:
            changed = False
            for tok, fn in _PG_CASTS:
                k = sql.find(')' + tok)
                if k >= 0:
                    start = _balanced_prefix_start(sql, k + 1)
                    sql = sql[:start] + fn + sql[start:k + 1] + sql[k + 1 + len(tok):]
                    changed = True
                    break
        if '::' in sql: raise Undecided('cast outside the closed list')
        return sql
    if dialect == 'mysql':
        sql = _sub_outside_literals(r'`', lambda m: '"', sql.replace('`', '"')) if '`' in sql else sql
        sql = _sub_outside_literals(r'CAST\((?=.* AS (SIGNED|CHAR|DOUBLE)\))', lambda m: m.group(0), sql)
        for ty, fn in (('SIGNED', 'my_to_int'), ('CHAR', 'my_to_char'), ('DOUBLE', 'my_to_double')):
            tok = ' AS %s)' % ty
            while tok in sql:
                k = sql.find(tok)
                # find the matching CAST( backwards
                depth, i = 1, k - 1
                while i >= 0 and depth:
                    if sql[i] == ')': depth += 1
                    elif sql[i] == '(': depth -= 1
                    i -= 1
                start = i + 1
                if sql[max(0, start - 4):start].upper() != 'CAST': raise Undecided('cast shape')
                sql = sql[:start - 4] + fn + sql[start:k] + ')' + sql[k + len(tok):]
        if re.search(r'\bCAST\(', sql): raise Undecided('cast outside the closed list')
        return sql
    return sql

# ---- documented function semantics ----------------------------------------------------------------
def _pg_substr(s, start, count=None):
    if s is None or start is None: return None
    if count is None and False: pass
    n = len(s)
    if count is None: lo, hi = start, n + 1
    else:
        if count < 0: raise ValueError('negative substring length not allowed')
        lo, hi = start, start + count
    lo = max(lo, 1); hi = min(hi, n + 1)
    return s[lo - 1:hi - 1] if hi > lo else ''
def _pg_substr3(s, start, count):
    if count is None: return None
    return _pg_substr(s, start, count)

def _my_substr(s, pos, ln=None):
    if s is None or pos is None: return None
    n = len(s)
    if pos == 0: return ''
    if pos < 0:
        if -pos > n: return ''
        lo = n + pos
    else:
        lo = pos - 1
    if lo >= n: return ''
    if ln is None: return s[lo:]
    if ln < 1: return ''
    return s[lo:lo + ln]
def _my_substr3(s, pos, ln):
    if ln is None: return None
    return _my_substr(s, pos, ln)

def _ora_substr(s, pos, ln=None):
    # Oracle: '' is NULL; position 0 is treated as 1; |pos| > length -> NULL; len < 1 -> NULL
    if s is None or s == '' or pos is None: return None
    n = len(s)
    if pos == 0: pos = 1
    if pos < 0:
        if -pos > n: return None
        lo = n + pos
    else: lo = pos - 1
    if lo >= n: return None
    if ln is None: r = s[lo:]
    elif ln < 1: return None
    else: r = s[lo:lo + ln]
    return r or None
def _ora_substr3(s, pos, ln):
    if ln is None: return None
    return _ora_substr(s, pos, ln)

def _length(s):
    return None if s is None else len(s)
def _ora_length(s):
    return None if s is None or s == '' else len(s)
def _greatest(*a):
    return None if any(x is None for x in a) else max(a)
def _least(*a):
    return None if any(x is None for x in a) else min(a)
def _pg_greatest(*a):      # PostgreSQL ignores NULLs
    a = [x for x in a if x is not None]
    return max(a) if a else None
def _pg_least(*a):
    a = [x for x in a if x is not None]
    return min(a) if a else None
def _concat_null(*a):      # MySQL concat: NULL if any NULL
    if any(x is None for x in a): return None
    return ''.join(str(x) for x in a)
def _pg_concat(*a):        # PostgreSQL concat(): ignores NULLs
    return ''.join(str(x) for x in a if x is not None)
def _upper(s): return None if s is None else s.upper()
def _lower(s): return None if s is None else s.lower()

def _to_int(x):
    if x is None: return None
    if isinstance(x, (int, float)): return int(round(x)) if isinstance(x, float) else x
    raise Undecided('string->int cast semantics are dialect specific')
def _pg_to_int(x):
    if x is None: return None
    if isinstance(x, bool): return int(x)
    if isinstance(x, int): return x
    if isinstance(x, float):      # PostgreSQL rounds half to even for float8->int4
        return int(round(x))
    s = x.strip()
    if re.fullmatch(r'[+-]?\d+', s): return int(s)
    raise ValueError('invalid input syntax for type integer: %r' % x)
def _my_to_int(x):
    if x is None: return None
    if isinstance(x, int): return x
    if isinstance(x, float):      # MySQL rounds half away from zero
        import math
        return int(math.floor(abs(x) + 0.5)) * (1 if x >= 0 else -1)
    m = re.match(r'\s*[+-]?\d+', x)
    return int(m.group(0)) if m else 0
def _to_text(x):
    if x is None: return None
    if isinstance(x, float):
        if x == int(x) and abs(x) < 1e15: return str(int(x))   # PG: 2.0::text = '2'
        return repr(x)
    return str(x)
def _to_real(x):
    if x is None: return None
    if isinstance(x, (int, float)): return float(x)
    try: return float(x.strip())
    except ValueError: raise ValueError('invalid input syntax for type double precision')
def _my_to_double(x):
    if x is None: return None
    if isinstance(x, (int, float)): return float(x)
    m = re.match(r'\s*[+-]?(\d+\.?\d*([eE][+-]?\d+)?|\.\d+)', x)
    return float(m.group(0)) if m else 0.0

def udfs(dialect):
    if dialect == 'postgres':
        return [('substr', 2, _pg_substr), ('substr', 3, _pg_substr3), ('length', 1, _length),
                ('greatest', -1, _pg_greatest), ('least', -1, _pg_least), ('concat', -1, _pg_concat),
                ('upper', 1, _upper), ('lower', 1, _lower),
                ('pg_to_int', 1, _pg_to_int), ('pg_to_text', 1, _to_text), ('pg_to_real', 1, _to_real)]
    if dialect == 'mysql':
        return [('substr', 2, _my_substr), ('substr', 3, _my_substr3), ('substring', 2, _my_substr),
                ('substring', 3, _my_substr3), ('length', 1, _length), ('char_length', 1, _length),
                ('greatest', -1, _greatest), ('least', -1, _least), ('concat', -1, _concat_null),
                ('upper', 1, _upper), ('lower', 1, _lower),
                ('my_to_int', 1, _my_to_int), ('my_to_char', 1, _to_text), ('my_to_double', 1, _my_to_double)]
    if dialect == 'oracle':
        return [('substr', 2, _ora_substr), ('substr', 3, _ora_substr3), ('length', 1, _ora_length),
                ('greatest', -1, _greatest), ('least', -1, _least),
                ('upper', 1, _upper), ('lower', 1, _lower)]
    return []

class Substrate(object):
    """SQLite connection with a dialect's function models registered."""
    def __init__(self, dialect, con=None):
        self.dialect = dialect
        self.con = con or sqlite3.connect(':memory:')
        self.error = None
        for name, nargs, f in udfs(dialect):
            self.con.create_function(name, nargs, self._wrap(f))
    def _wrap(self, f):
        def g(*a):
            try: return f(*a)
            except Exception as e:
                self.error = e
                raise
        return g
    def execute(self, sql, args, paramstyle):
        """Returns rows; raises Undecided, or DialectError when the *model function* refuses
        (e.g. negative substring length on PostgreSQL) which a live server would report."""
        sql = rewrite_for_substrate(sql, self.dialect)
        sql, args = bind_placeholders(sql, args, paramstyle)
        self.error = None
        try:
            return self.con.execute(sql, args).fetchall()
        except sqlite3.Error as e:
            if isinstance(self.error, Undecided): raise self.error
            if self.error is not None: raise DialectError(str(self.error))
            raise Undecided('substrate cannot execute: %s' % e)

class DialectError(Exception):
    """The dialect model says the server would reject the statement at run time."""
