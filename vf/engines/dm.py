"""DM - dialect models (trusted base, kept minimal; DESIGN section 2).

* capture databases: the real provider class of a dialect (translator, builder, converters) on a
  mock pool, with _exec_sql recording (sql, arguments) instead of executing;
* substrate: a SQLite connection holding the same tables, with the dialect's *documented*
  function semantics registered as UDFs (a UDF overrides a SQLite built-in of the same name),
  on which a dialect's SQL text is executed after placeholder normalisation and a closed list of
  token rewrites. Anything outside the closed list is reported as UNDECIDED, never judged.
"""
import re, sqlite3
from vf import core, stubs

DIALECTS = ('sqlite', 'postgres', 'mysql', 'oracle')

class Undecided(Exception):
    pass

class _Cursor(object):
    description = []; rowcount = 0
    def execute(self, sql, args=None): pass
    def fetchone(self): return None
    def fetchmany(self, size=None): return []
    def fetchall(self): return []
    def close(self): pass
_cursor = _Cursor()

class _Conn(object):
    def __init__(self, autocommit=None):
        if autocommit is not None: self.autocommit = autocommit
    def commit(self): pass
    def rollback(self): pass
    def cursor(self): return _cursor
    def close(self): pass

class _Pool(object):
    def __init__(self, provider_name): self.provider_name = provider_name
    def connect(self): return _Conn(True if self.provider_name in ('postgres', 'cockroach') else None), True
    def release(self, con): pass
    def drop(self, con): pass
    def disconnect(self): pass

_VERSIONS = dict(sqlite=(3, 40, 1), postgres=160000, mysql=(10, 11, 0), oracle=(12, 2, 0), cockroach=160000)

def capture_database(provider_name, json1=True):
    """A pony Database bound to the real provider class of `provider_name` over a mock pool.
    db.log is the list of (sql, arguments) that would have been sent to the driver."""
    stubs.install_all()
    from pony.orm.core import Database
    from pony.utils import import_module
    module = import_module('pony.orm.dbproviders.' + provider_name)
    class CaptureProvider(module.provider_cls):
        json1_available = json1
        server_version = _VERSIONS[provider_name]
        def inspect_connection(provider, connection): pass
    class CaptureDatabase(Database):
        def _exec_sql(database, sql, arguments=None, returning_id=False, start_transaction=False):
            database.log.append((sql, arguments))
            return 1 if returning_id else _cursor
        def generate_mapping(database, **kwargs):
            return Database.generate_mapping(database, create_tables=False, check_tables=False)
    db = CaptureDatabase()
    db.log = []
    db.vf_provider_name = provider_name
    db.bind(CaptureProvider, pony_check_connection=False, pony_pool_mockup=_Pool(provider_name))
    return db

# ---- PEP 249 binder model ---------------------------------------------------------------------
def bind_placeholders(sql, args, paramstyle):
    """Return (sqlite_sql, sqlite_args) equivalent to what a PEP 249 driver of `paramstyle` does
    with (sql, args): which value each placeholder occurrence receives. format/pyformat drivers
    %-interpolate whenever args are passed, so '%%' denotes a literal '%'."""
    if paramstyle == 'qmark':
        return sql, tuple(args or ())
    if paramstyle == 'numeric':
        out = []
        def rep(m): out.append(args[int(m.group(1)) - 1]); return '?'
        return _sub_outside_literals(r':(\d+)', rep, sql), tuple(out)
    if paramstyle == 'named':
        out = []
        def rep(m): out.append(args[m.group(1)]); return '?'
        return _sub_outside_literals(r':([A-Za-z_]\w*)', rep, sql), tuple(out)
    if paramstyle in ('format', 'pyformat'):
        if args is None: return sql, ()
        out, res, i, n, pos = [], [], 0, len(sql), 0
        while i < n:
            c = sql[i]
            if c != '%': res.append(c); i += 1; continue
            if sql.startswith('%%', i): res.append('%'); i += 2; continue
            if paramstyle == 'format' and sql.startswith('%s', i):
                out.append(args[pos]); pos += 1; res.append('?'); i += 2; continue
            m = re.compile(r'%\(([^)]*)\)s').match(sql, i)
            if paramstyle == 'pyformat' and m:
                out.append(args[m.group(1)]); res.append('?'); i = m.end(); continue
            raise Undecided('driver %%-interpolation would fail at %r' % sql[i:i + 6])
        return ''.join(res), tuple(out)
    raise AssertionError(paramstyle)

_LIT = re.compile(r"'(?:[^']|'')*'|\"(?:[^\"]|\"\")*\"|`[^`]*`")
def _sub_outside_literals(pattern, rep, sql):
    out, last = [], 0
    for m in _LIT.finditer(sql):
        out.append(re.sub(pattern, rep, sql[last:m.start()])); out.append(m.group(0)); last = m.end()
    out.append(re.sub(pattern, rep, sql[last:]))
    return ''.join(out)

# ---- closed list of token rewrites ---------------------------------------------------------------
def _balanced_prefix_start(s, end):
    """s[end-1] == ')': return index of matching '('."""
    depth = 0
    i = end - 1
    while i >= 0:
        c = s[i]
        if c == ')': depth += 1
        elif c == '(':
            depth -= 1
            if depth == 0: return i
        elif c in "'\"": raise Undecided('literal inside cast operand')
        i -= 1
    raise Undecided('unbalanced cast operand')

_PG_CASTS = (('::double precision', 'pg_to_real'), ('::int', 'pg_to_int'), ('::text', 'pg_to_text'))

def rewrite_for_substrate(sql, dialect):
    if dialect == 'postgres':
        # (expr)::int -> pg_to_int(expr)   etc.  Only the parenthesised form Pony emits.
        changed = True
        while changed:
            changed = False
            for tok, fn in _PG_CASTS:
                k = sql.find(')' + tok)
                if k >= 0:
                    start = _balanced_prefix_start(sql, k + 1)
                    sql = sql[:start] + fn + sql[start:k + 1] + sql[k + 1 + len(tok):]
                    changed = True
                    break
        if '::' in sql: raise Undecided('cast outside the closed list')
        return sql
    if dialect == 'mysql':
        sql = _sub_outside_literals(r'`', lambda m: '"', sql.replace('`', '"')) if '`' in sql else sql
        sql = _sub_outside_literals(r'CAST\((?=.* AS (SIGNED|CHAR|DOUBLE)\))', lambda m: m.group(0), sql)
        for ty, fn in (('SIGNED', 'my_to_int'), ('CHAR', 'my_to_char'), ('DOUBLE', 'my_to_double')):
            tok = ' AS %s)' % ty
            while tok in sql:
                k = sql.find(tok)
                # find the matching CAST( backwards
                depth, i = 1, k - 1
                while i >= 0 and depth:
                    if sql[i] == ')': depth += 1
                    elif sql[i] == '(': depth -= 1
                    i -= 1
                start = i + 1
                if sql[max(0, start - 4):start].upper() != 'CAST': raise Undecided('cast shape')
                sql = sql[:start - 4] + fn + sql[start:k] + ')' + sql[k + len(tok):]
        if re.search(r'\bCAST\(', sql): raise Undecided('cast outside the closed list')
        return sql
    return sql

# ---- documented function semantics ----------------------------------------------------------------
def _pg_substr(s, start, count=None):
    if s is None or start is None: return None
    if count is None and False: pass
    n = len(s)
    if count is None: lo, hi = start, n + 1
    else:
        if count < 0: raise ValueError('negative substring length not allowed')
        lo, hi = start, start + count
    lo = max(lo, 1); hi = min(hi, n + 1)
    return s[lo - 1:hi - 1] if hi > lo else ''
def _pg_substr3(s, start, count):
    if count is None: return None
    return _pg_substr(s, start, count)

def _my_substr(s, pos, ln=None):
    if s is None or pos is None: return None
    n = len(s)
    if pos == 0: return ''
    if pos < 0:
        if -pos > n: return ''
        lo = n + pos
    else:
        lo = pos - 1
    if lo >= n: return ''
    if ln is None: return s[lo:]
    if ln < 1: return ''
    return s[lo:lo + ln]
def _my_substr3(s, pos, ln):
    if ln is None: return None
    return _my_substr(s, pos, ln)

def _ora_substr(s, pos, ln=None):
    # Oracle: '' is NULL; position 0 is treated as 1; |pos| > length -> NULL; len < 1 -> NULL
    if s is None or s == '' or pos is None: return None
    n = len(s)
    if pos == 0: pos = 1
    if pos < 0:
        if -pos > n: return None
        lo = n + pos
    else: lo = pos - 1
    if lo >= n: return None
    if ln is None: r = s[lo:]
    elif ln < 1: return None
    else: r = s[lo:lo + ln]
    return r or None
def _ora_substr3(s, pos, ln):
    if ln is None: return None
    return _ora_substr(s, pos, ln)

def _length(s):
    return None if s is None else len(s)
def _ora_length(s):
    return None if s is None or s == '' else len(s)
def _greatest(*a):
    return None if any(x is None for x in a) else max(a)
def _least(*a):
    return None if any(x is None for x in a) else min(a)
def _pg_greatest(*a):      # PostgreSQL ignores NULLs
    a = [x for x in a if x is not None]
    return max(a) if a else None
def _pg_least(*a):
    a = [x for x in a if x is not None]
    return min(a) if a else None
def _concat_null(*a):      # MySQL concat: NULL if any NULL
    if any(x is None for x in a): return None
    return ''.join(str(x) for x in a)
def _pg_concat(*a):        # PostgreSQL concat(): ignores NULLs
    return ''.join(str(x) for x in a if x is not None)
def _upper(s): return None if s is None else s.upper()
def _lower(s): return None if s is None else s.lower()

def _to_int(x):
    if x is None: return None
    if isinstance(x, (int, float)): return int(round(x)) if isinstance(x, float) else x
    raise Undecided('string->int cast semantics are dialect specific')
def _pg_to_int(x):
    if x is None: return None
    if isinstance(x, bool): return int(x)
    if isinstance(x, int): return x
    if isinstance(x, float):      # PostgreSQL rounds half to even for float8->int4
        return int(round(x))
    s = x.strip()
    if re.fullmatch(r'[+-]?\d+', s): return int(s)
    raise ValueError('invalid input syntax for type integer: %r' % x)
def _my_to_int(x):
    if x is None: return None
    if isinstance(x, int): return x
    if isinstance(x, float):      # MySQL rounds half away from zero
        import math
        return int(math.floor(abs(x) + 0.5)) * (1 if x >= 0 else -1)
    m = re.match(r'\s*[+-]?\d+', x)
    return int(m.group(0)) if m else 0
def _to_text(x):
    if x is None: return None
    if isinstance(x, float):
        if x == int(x) and abs(x) < 1e15: return str(int(x))   # PG: 2.0::text = '2'
        return repr(x)
    return str(x)
def _to_real(x):
    if x is None: return None
    if isinstance(x, (int, float)): return float(x)
    try: return float(x.strip())
    except ValueError: raise ValueError('invalid input syntax for type double precision')
def _my_to_double(x):
    if x is None: return None
    if isinstance(x, (int, float)): return float(x)
    m = re.match(r'\s*[+-]?(\d+\.?\d*([eE][+-]?\d+)?|\.\d+)', x)
    return float(m.group(0)) if m else 0.0

def udfs(dialect):
    if dialect == 'postgres':
        return [('substr', 2, _pg_substr), ('substr', 3, _pg_substr3), ('length', 1, _length),
                ('greatest', -1, _pg_greatest), ('least', -1, _pg_least), ('concat', -1, _pg_concat),
                ('upper', 1, _upper), ('lower', 1, _lower),
                ('pg_to_int', 1, _pg_to_int), ('pg_to_text', 1, _to_text), ('pg_to_real', 1, _to_real)]
    if dialect == 'mysql':
        return [('substr', 2, _my_substr), ('substr', 3, _my_substr3), ('substring', 2, _my_substr),
                ('substring', 3, _my_substr3), ('length', 1, _length), ('char_length', 1, _length),
                ('greatest', -1, _greatest), ('least', -1, _least), ('concat', -1, _concat_null),
                ('upper', 1, _upper), ('lower', 1, _lower),
                ('my_to_int', 1, _my_to_int), ('my_to_char', 1, _to_text), ('my_to_double', 1, _my_to_double)]
    if dialect == 'oracle':
        return [('substr', 2, _ora_substr), ('substr', 3, _ora_substr3), ('length', 1, _ora_length),
                ('greatest', -1, _greatest), ('least', -1, _least),
                ('upper', 1, _upper), ('lower', 1, _lower)]
    return []

class Substrate(object):
    """SQLite connection with a dialect's function models registered."""
    def __init__(self, dialect, con=None, extended=False):
        self.dialect = dialect
        self.con = con or sqlite3.connect(':memory:')
        self.error = None
        self.extended = extended
        for name, nargs, f in udfs(dialect):
            self.con.create_function(name, nargs, self._wrap(f))
        if extended:         # C02: further function models + token-level rewrites (see the extension section below)
            ext = udfs_extended(dialect, self)
            self.modelled = set(n for n, _, _ in udfs(dialect)) | set(n for n, _, _ in ext)
            self._texts = {}
            for name, nargs, f in ext:
                self.con.create_function(name, nargs, self._wrap(f))
    def _wrap(self, f):
        def g(*a):
            try: return f(*a)
            except Exception as e:
                self.error = e
                raise
        return g
    def execute(self, sql, args, paramstyle):
        """Returns rows; raises Undecided, or DialectError when the *model function* refuses
        (e.g. negative substring length on PostgreSQL) which a live server would report."""
        if self.extended: return self.execute_extended(sql, args, paramstyle)
        sql = rewrite_for_substrate(sql, self.dialect)
        sql, args = bind_placeholders(sql, args, paramstyle)
        self.error = None
        try:
            return self.con.execute(sql, args).fetchall()
        except sqlite3.Error as e:
            if isinstance(self.error, Undecided): raise self.error
            if self.error is not None: raise DialectError(str(self.error))
            raise Undecided('substrate cannot execute: %s' % e)
    def substrate_text(self, sql, args, paramstyle):
        """the statement as it is run on SQLite (extended mode): binder model, lexical model, closed rewrite list,
        closed function list. Raises Undecided / DialectError."""
        key = (sql, paramstyle, args is None)
        r = self._texts.get(key)
        if r is None:
            try:
                text, _ = bind_placeholders(sql, args, paramstyle)
                toks = rewrite_tokens(tokens(text, self.dialect), self.dialect)
                check_functions(toks, self.dialect, self.modelled)
                r = untokens(toks)
            except (Undecided, DialectError) as e: r = e
            if len(self._texts) > 20000: self._texts.clear()
            self._texts[key] = r
        if isinstance(r, Exception): raise r
        return r
    def execute_extended(self, sql, args, paramstyle):
        """rows of a SELECT (None for other statements). `args` may be a list of argument objects (executemany)."""
        many = isinstance(args, list)
        text = self.substrate_text(sql, args[0] if many and args else (None if many else args), paramstyle)
        rows = None
        for a in (args if many else [args]):
            _, vals = bind_placeholders(sql, a, paramstyle)
            vals = tuple(adapt_value(v, self.dialect) for v in vals)
            self.error = None
            try:
                cur = self.con.execute(text, vals)
                rows = cur.fetchall() if cur.description is not None else None
            except sqlite3.Error as e:
                if isinstance(self.error, Undecided): raise self.error
                if self.error is not None: raise DialectError('%s: %s' % (type(self.error).__name__, self.error))
                raise NotExecutable('substrate cannot execute: %s' % e)
        return rows

class DialectError(Exception):
    """The dialect model says the server would reject the statement at run time."""

# ==================================================================================================
# Extension used by C02 (additive: active only for Substrate(dialect, extended=True); the plain
# Substrate / rewrite_for_substrate / udfs above are what C25 uses and are unchanged).
#
# Pipeline of Substrate.execute in extended mode:
#   1. bind_placeholders (PEP 249 model)                         -> qmark text + driver-adapted values
#   2. tokens(): lexical model of the dialect                      (anything else -> Undecided)
#   3. rewrite_tokens(): the CLOSED list of token rewrites         (anything else -> Undecided)
#   4. check_functions(): every function name must be in the closed list of the dialect
#   5. execution on SQLite with the dialect's function models registered as UDFs
# A function model may raise (-> DialectError: a live server would reject the statement at run
# time) or set an undecided flag (-> Undecided: the documented answer depends on something the model
# does not fix: collation, locale).
#
# Value encoding: PostgreSQL has a genuine boolean type with no implicit cast from/to integer
# (manual 8.6 "Boolean Type"; `boolean = integer` is "operator does not exist"). SQLite has none, so
# PostgreSQL's TRUE is encoded on the substrate as the sentinel integer PG_TRUE (truthy, equal to no
# integer the data or the queries contain) and FALSE as 0: an integer 1 rendered where PostgreSQL
# expects a boolean never equals a stored TRUE.
PG_TRUE = 7777777

class Flag(Undecided):
    """raised inside a function model: the documented answer depends on something the model does not fix"""

class NotExecutable(Undecided):
    """the rewritten text does not run on the substrate (SQLite reports a syntax / semantic error)"""

_TOKEN = re.compile(r"""(?P<ws>\s+)|(?P<str>'(?:[^']|'')*')|(?P<qid>"(?:[^"]|"")*"|`[^`]*`)
    |(?P<num>(?:\d+\.\d*|\.\d+|\d+)(?:[eE][+-]?\d+)?)|(?P<word>[A-Za-z_][A-Za-z_0-9]*)
    |(?P<op>::|\|\||<>|<=|>=|!=|[-+*/%=<>(),.?])""", re.X)

def tokens(sql, dialect):
    """[(kind, text)] without whitespace; kinds: str qid num word op"""
    out, i, n = [], 0, len(sql)
    while i < n:
        m = _TOKEN.match(sql, i)
        if m is None: raise Undecided('character outside the lexical model: %r' % sql[i:i + 8])
        i = m.end()
        k = m.lastgroup
        if k == 'ws': continue
        t = m.group(k)
        if k == 'str' and dialect == 'mysql' and '\\' in t:
            raise Undecided('backslash inside a MySQL string literal (escape processing not modelled)')
        if k == 'qid' and t[0] == '`':
            if dialect != 'mysql': raise Undecided('back-quoted name outside MySQL')
            t = '"' + t[1:-1].replace('"', '""') + '"'
        elif k == 'qid' and dialect == 'mysql':
            raise Undecided('double-quoted token in MySQL text (a string unless ANSI_QUOTES)')
        out.append((k, t))
    return out

def untokens(toks):
    return ' '.join(t for _, t in toks)

def _close(toks, i):
    """toks[i] is '(' -> index of the matching ')'"""
    depth = 0
    for j in range(i, len(toks)):
        t = toks[j][1]
        if toks[j][0] == 'op':
            if t == '(': depth += 1
            elif t == ')':
                depth -= 1
                if depth == 0: return j
    raise Undecided('unbalanced parentheses')
def _open(toks, j):
    """toks[j] is ')' -> index of the matching '('"""
    depth = 0
    for i in range(j, -1, -1):
        t = toks[i][1]
        if toks[i][0] == 'op':
            if t == ')': depth += 1
            elif t == '(':
                depth -= 1
                if depth == 0: return i
    raise Undecided('unbalanced parentheses')
def _top_level(toks, lo, hi, pred):
    """indexes lo <= k < hi at parenthesis depth 0 whose token satisfies pred"""
    out, depth = [], 0
    for k in range(lo, hi):
        kind, t = toks[k]
        if kind == 'op' and t == '(': depth += 1
        elif kind == 'op' and t == ')': depth -= 1
        elif depth == 0 and pred(kind, t): out.append(k)
    return out
def _w(t): return ('word', t)
def _is(tok, kind, text): return tok[0] == kind and tok[1].upper() == text

_PG_CAST_TYPES = {('INT',): 'pg_to_int', ('TEXT',): 'pg_to_text', ('DOUBLE', 'PRECISION'): 'pg_to_real'}
_MY_CAST_TYPES = {'SIGNED': 'my_to_int', 'CHAR': 'my_to_char', 'DOUBLE': 'my_to_double'}
_TRIM_KINDS = ('BOTH', 'LEADING', 'TRAILING')
_PARTS = ('YEAR', 'MONTH', 'DAY')
MYSQL_NO_LIMIT = '18446744073709551615'

def rewrite_tokens(toks, dialect):
    """the closed list of token rewrites (C02). Everything is done on the token list, so string
    literals and quoted names are never touched."""
    toks = list(toks)
    # (expr)::int | ::text | ::double precision      PostgreSQL casts in the parenthesised form Pony emits
    while dialect == 'postgres':
        ks = [k for k, t in enumerate(toks) if t == ('op', '::')]
        if not ks: break
        k = ks[0]
        if k == 0 or toks[k - 1] != ('op', ')'): raise Undecided('cast outside the closed list (operand not parenthesised)')
        ty = None
        for words, fn in _PG_CAST_TYPES.items():
            if tuple(t[1].upper() for t in toks[k + 1:k + 1 + len(words)] if t[0] == 'word') == words:
                if ty is None or len(words) > len(ty[0]): ty = (words, fn)
        if ty is None: raise Undecided('cast outside the closed list: ::%s' % (toks[k + 1][1] if k + 1 < len(toks) else ''))
        start = _open(toks, k - 1)
        toks[k:k + 1 + len(ty[0])] = []
        toks.insert(start, _w(ty[1]))
    # CAST(expr AS SIGNED|CHAR|DOUBLE)               MySQL casts
    while True:
        ks = [k for k, t in enumerate(toks) if _is(t, 'word', 'CAST') and k + 1 < len(toks) and toks[k + 1] == ('op', '(')]
        if not ks: break
        if dialect != 'mysql': raise Undecided('CAST() outside the closed list')
        k = ks[-1]                                   # innermost-last first keeps indexes valid
        end = _close(toks, k + 1)
        if end - 2 <= k + 1 or not _is(toks[end - 2], 'word', 'AS') or toks[end - 1][0] != 'word':
            raise Undecided('cast outside the closed list: shape')
        fn = _MY_CAST_TYPES.get(toks[end - 1][1].upper())
        if fn is None: raise Undecided('cast outside the closed list: AS %s' % toks[end - 1][1])
        toks[end - 2:end] = []
        toks[k] = _w(fn)
    # a || b                                         MySQL 12.4.3 / 5.1.11 sql_mode: "|| is a synonym for OR" unless PIPES_AS_CONCAT is enabled
    if dialect == 'mysql':
        toks = [_w('OR') if t == ('op', '||') else t for t in toks]
    # DATE 'yyyy-mm-dd'                               standard SQL date literal (PostgreSQL 8.5.1.1, MySQL 9.1.3) -> ISO text, the
    #                                                substrate's representation of a DATE
    k = 0
    while k < len(toks) - 1:
        if _is(toks[k], 'word', 'DATE') and toks[k + 1][0] == 'str':
            if not re.fullmatch(r"'\d{4}-\d{2}-\d{2}'", toks[k + 1][1]): raise Undecided('date literal outside the closed list')
            del toks[k]
        k += 1
    # true / false                                   PostgreSQL boolean literals (see PG_TRUE above)
    if dialect == 'postgres':
        for k, t in enumerate(toks):
            if _is(t, 'word', 'TRUE'): toks[k] = ('num', str(PG_TRUE))
            elif _is(t, 'word', 'FALSE'): toks[k] = ('num', '0')
    # trim(both|leading|trailing X from Y)           MySQL / standard SQL form -> dm_trim_<kind>(X, Y)
    # EXTRACT(YEAR|MONTH|DAY FROM X)                 standard SQL form        -> dm_year(X) ...
    changed = True
    while changed:
        changed = False
        for k in range(len(toks) - 2):
            if toks[k][0] != 'word' or toks[k + 1] != ('op', '('): continue
            name = toks[k][1].upper()
            if name == 'TRIM' and toks[k + 2][0] == 'word' and toks[k + 2][1].upper() in _TRIM_KINDS:
                end = _close(toks, k + 1)
                fr = _top_level(toks, k + 3, end, lambda kind, t: kind == 'word' and t.upper() == 'FROM')
                if len(fr) != 1 or fr[0] == k + 3: raise Undecided('trim(... from ...) shape outside the closed list')
                toks[fr[0]] = ('op', ',')
                toks[k] = _w('dm_trim_' + toks[k + 2][1].lower())
                del toks[k + 2]
                changed = True; break
            if name == 'EXTRACT':
                if not (toks[k + 2][0] == 'word' and toks[k + 2][1].upper() in _PARTS and _is(toks[k + 3], 'word', 'FROM')):
                    raise Undecided('EXTRACT field outside the closed list')
                toks[k] = _w('dm_' + toks[k + 2][1].lower())
                del toks[k + 2:k + 4]
                changed = True; break
    # case when (a, b) IS NULL then null else (a, b) end     PostgreSQL, composite keys under a LEFT JOIN -> dm_row_or_null(a, b)
    #   (9.24.? / 9.2 row comparison: "row IS NULL" is true when every field is NULL)
    k = 0
    while dialect == 'postgres' and k < len(toks) - 8:
        if _is(toks[k], 'word', 'CASE') and _is(toks[k + 1], 'word', 'WHEN') and toks[k + 2] == ('op', '('):
            e1 = _close(toks, k + 2)
            grp = toks[k + 2:e1 + 1]
            tail = toks[e1 + 1:e1 + 7]
            if [t[1].upper() for t in tail] == ['IS', 'NULL', 'THEN', 'NULL', 'ELSE', '('] and _top_level(toks, k + 3, e1, lambda kind, t: (kind, t) == ('op', ',')):
                e2 = _close(toks, e1 + 6)
                if toks[e1 + 6:e2 + 1] == grp and e2 + 1 < len(toks) and _is(toks[e2 + 1], 'word', 'END'):
                    toks[k:e2 + 2] = [_w('dm_row_or_null')] + grp
        k += 1
    # COUNT(DISTINCT (a, b)) / COUNT(DISTINCT a, b)  row counting forms -> COUNT(DISTINCT dm_row(a, b))
    k = 0
    while k < len(toks) - 3:
        if _is(toks[k], 'word', 'COUNT') and toks[k + 1] == ('op', '(') and _is(toks[k + 2], 'word', 'DISTINCT'):
            end = _close(toks, k + 1)
            if toks[k + 3][0] == 'word' and toks[k + 3][1].startswith('dm_row'): pass
            elif dialect == 'postgres' and toks[k + 3] == ('op', '(') and _close(toks, k + 3) == end - 1 \
                    and _top_level(toks, k + 4, end - 1, lambda kind, t: (kind, t) == ('op', ',')):
                toks.insert(k + 3, _w('dm_row'))
            elif dialect == 'mysql' and _top_level(toks, k + 3, end, lambda kind, t: (kind, t) == ('op', ',')):
                toks.insert(end, ('op', ')')); toks[k + 3:k + 3] = [_w('dm_row'), ('op', '(')]
        k += 1
    # LIMIT / OFFSET
    ks = [k for k, t in enumerate(toks) if _is(t, 'word', 'LIMIT')]
    for k in ks:
        if k + 1 >= len(toks): raise DialectError('LIMIT without a count')
        arg = toks[k + 1]
        if dialect == 'postgres':
            # manual, SELECT / LIMIT clause: "LIMIT ALL is the same as omitting the LIMIT clause, as is LIMIT with a NULL argument";
            # a negative count is rejected ("LIMIT must not be negative")
            if _is(arg, 'word', 'NULL') or _is(arg, 'word', 'ALL'): toks[k + 1] = ('num', '-1')
            elif arg[0] != 'num' or not arg[1].isdigit(): raise DialectError('PostgreSQL: LIMIT %s is rejected' % arg[1])
        elif dialect == 'mysql':
            # manual 13.2.13 SELECT: LIMIT takes nonnegative integer constants; "to retrieve all rows from a certain offset up to
            # the end of the result set, you can use some large number": 18446744073709551615
            if arg[0] != 'num' or not arg[1].isdigit(): raise DialectError('MySQL: LIMIT %s is a syntax error' % arg[1])
            if arg[1] == MYSQL_NO_LIMIT: toks[k + 1] = ('num', '-1')
            elif int(arg[1]) >= 2 ** 63: raise Undecided('LIMIT count beyond the substrate integer range')
    for k, t in enumerate(toks):
        if _is(t, 'word', 'OFFSET'):
            if dialect == 'mysql' and not (k >= 2 and _is(toks[k - 2], 'word', 'LIMIT')):
                raise DialectError('MySQL: OFFSET without LIMIT is a syntax error')
            if k + 1 >= len(toks) or toks[k + 1][0] != 'num' or not toks[k + 1][1].isdigit():
                raise DialectError('%s: OFFSET argument is rejected' % dialect)
    return toks

_KEYWORDS = set('''SELECT DISTINCT ALL FROM WHERE AND OR NOT IN IS NULL LIKE ESCAPE BETWEEN CASE WHEN THEN ELSE END AS ON JOIN LEFT
INNER OUTER CROSS GROUP BY HAVING ORDER ASC DESC LIMIT OFFSET EXISTS VALUES INSERT INTO UPDATE SET DELETE UNION'''.split())
# functions of the closed list. 'b' = SQLite built-in whose documented behaviour coincides with the dialect's on the fragment:
#   coalesce / nullif (SQL standard; PostgreSQL 9.18, MySQL 12.4/12.5), abs (NULL for NULL, exact for integers and doubles),
#   replace(s, from, to) (all three: every occurrence, case-sensitive match; unchanged for an empty `from`; NULL if any argument is NULL),
#   count / sum / avg / min / max as one-argument aggregates (NULLs ignored; sum and avg of no rows are NULL)
_BUILTIN_OK = ('coalesce', 'nullif', 'abs', 'replace', 'count', 'sum', 'avg', 'min', 'max')
_AGG1 = ('sum', 'avg', 'min', 'max')

def check_functions(toks, dialect, modelled):
    for k in range(len(toks) - 1):
        if toks[k][0] != 'word' or toks[k + 1] != ('op', '('): continue
        name = toks[k][1]
        if name.upper() in _KEYWORDS: continue
        low = name.lower()
        if low not in modelled and low not in _BUILTIN_OK:
            raise Undecided('function outside the closed list: %s' % low)
        if low in _AGG1:
            end = _close(toks, k + 1)
            if _top_level(toks, k + 2, end, lambda kind, t: (kind, t) == ('op', ',')):
                # SQLite would run min(a, b) / max(a, b) as scalar functions; PostgreSQL and MySQL have one-argument aggregates only
                raise DialectError('%s: %s() with more than one argument does not exist' % (dialect, low))
    for k, (kind, t) in enumerate(toks):
        if kind == 'word' and t.upper() not in _KEYWORDS and not (k + 1 < len(toks) and toks[k + 1] == ('op', '(')):
            raise Undecided('bare word outside the closed list: %s' % t)
        if kind == 'op' and t == '!=': raise Undecided('operator outside the closed list: !=')

# ---- further documented function semantics -----------------------------------------------------------
def _trim_set(kind):
    """PostgreSQL 9.4: btrim/ltrim/rtrim(string [, characters]) "removes the longest string containing only
    characters in `characters` (a space by default)"; trim(string, characters) is the non-standard spelling of btrim."""
    def f(s, chars=' '):
        if s is None or chars is None: return None
        if kind in ('both', 'leading'):
            i = 0
            while i < len(s) and s[i] in chars: i += 1
            s = s[i:]
        if kind in ('both', 'trailing'):
            j = len(s)
            while j > 0 and s[j - 1] in chars: j -= 1
            s = s[:j]
        return s
    return f
def _trim_str(kind):
    """MySQL 12.8 TRIM([{BOTH | LEADING | TRAILING} [remstr] FROM] str): "all remstr prefixes or suffixes removed" - remstr
    is a *string*, not a set of characters; ltrim/rtrim/trim(str) remove spaces. Called as (remstr, str)."""
    def f(rem, s):
        if s is None or rem is None: return None
        if rem == '': return s
        if kind in ('both', 'leading'):
            while s.startswith(rem): s = s[len(rem):]
        if kind in ('both', 'trailing'):
            while s.endswith(rem): s = s[:-len(rem)]
        return s
    return f
def _spaces(kind):
    g = _trim_set(kind)
    return lambda s: g(s, ' ')

def _like_regex(pattern, esc, dialect):
    out, i, n = [], 0, len(pattern)
    while i < n:
        c = pattern[i]
        if esc and c == esc:
            if i + 1 >= n:
                # PostgreSQL 9.7.1: "LIKE pattern must not end with escape character" (error 22025); MySQL matches the escape itself
                if dialect == 'postgres': raise ValueError('LIKE pattern must not end with escape character')
                out.append(re.escape(c)); i += 1; continue
            out.append(re.escape(pattern[i + 1])); i += 2; continue
        out.append('.*' if c == '%' else ('.' if c == '_' else re.escape(c)))
        i += 1
    return ''.join(out)
def _fold(s):
    import unicodedata
    return ''.join(c for c in unicodedata.normalize('NFKD', s) if not unicodedata.combining(c)).casefold()
def _like(sub, dialect):
    """x LIKE pattern [ESCAPE e] is like(pattern, x[, e]) in SQLite, so a UDF named `like` redefines the operator.
    PostgreSQL 9.7.1: `_` one character, `%` any sequence, whole string must match, case-sensitive, "the default escape
    character is the backslash"; ESCAPE '' disables escaping. MySQL 12.8.1: same wildcards, default escape `\\`; the match is
    case-insensitive unless an operand is a binary string, i.e. it follows the collation: the answer is model-decided only when
    the case/accent-insensitive and the exact match agree."""
    def f(pattern, s, esc='\\'):
        if pattern is None or s is None or esc is None: return None
        if not isinstance(pattern, str) or not isinstance(s, str): raise Flag('LIKE on non-string operands')
        if len(esc) > 1: raise ValueError('invalid escape string')
        r = re.compile(_like_regex(pattern, esc, dialect), re.S).fullmatch(s) is not None
        if dialect == 'mysql':
            r2 = re.compile(_like_regex(_fold(pattern), _fold(esc), dialect), re.S).fullmatch(_fold(s)) is not None
            if r != r2: raise Flag('collation: MySQL LIKE is case/accent-insensitive under the default collation')
        return 1 if r else 0
    return f
def _case_map(fn):
    """PostgreSQL 9.4 upper/lower: "according to the rules of the database's locale"; MySQL 12.8: according to the current
    character set mapping. Decided for ASCII; a non-ASCII cased character makes the answer locale dependent."""
    def f(s):
        if s is None: return None
        r = fn(s)
        if any(ord(c) > 127 and a != c for c, a in zip(s, r)) or len(r) != len(s): raise Flag('locale: case mapping of non-ASCII characters')
        return r
    return f
def _power(dialect):
    """PostgreSQL 9.3 power(a, b) (double precision for integer/double arguments); errors: "zero raised to a negative power is
    undefined", "a negative number raised to a non-integer power yields a complex result". MySQL 12.6.2 POW(X, Y)."""
    def f(a, b):
        if a is None or b is None: return None
        try:
            r = float(a) ** float(b)
            if isinstance(r, complex): raise ValueError('a negative number raised to a non-integer power yields a complex result')
        except (ZeroDivisionError, OverflowError, ValueError) as e:
            if dialect == 'postgres': raise ValueError('power(%r, %r): %s' % (a, b, e))
            raise Flag('MySQL POW domain/range error (NULL or error depending on version and sql_mode)')
        return r
    return f
def _date_part(lo, hi):
    """PostgreSQL 9.9.1 EXTRACT(YEAR|MONTH|DAY FROM date); MySQL 12.7 YEAR()/MONTH()/DAY(): calendar fields of a DATE.
    Dates live on the substrate as ISO-8601 text."""
    def f(d):
        if d is None: return None
        if not isinstance(d, str) or not re.fullmatch(r'\d{4}-\d{2}-\d{2}', d): raise Flag('date part of a non-date value')
        return int(d[lo:hi])
    return f
def _my_length_bytes(s):
    """MySQL 12.8 LENGTH(str): "the length of the string str, measured in bytes. A multibyte character counts as multiple
    bytes"; CHAR_LENGTH counts characters. Bytes are counted in utf8/utf8mb4 (the connection charset Pony's provider requests)."""
    if s is None: return None
    if isinstance(s, str): return len(s.encode('utf-8'))
    return len(str(s))
def _round_tie(x, dialect):
    """float -> integer. PostgreSQL 8.1 / 9.3: casting to integer rounds to nearest; "for numeric, ties are broken by rounding away
    from zero. For double precision, the tie-breaking behavior is platform dependent, but round to nearest even is the most common
    rule". MySQL 12.25.4 (rounding behaviour): exact values round half away from zero, approximate values depend on the C library
    (rint(): half to even). The substrate cannot tell NUMERIC from DOUBLE, so a tie is decided only when both rules agree."""
    import math
    if x != x or x in (float('inf'), float('-inf')): raise Flag('cast of a non-finite value')
    lo = math.floor(x)
    if x - lo != 0.5: return int(math.floor(x + 0.5))
    even = int(lo) if int(lo) % 2 == 0 else int(lo) + 1
    away = int(lo) + 1 if x > 0 else int(lo)
    if even != away: raise Flag('cast to integer of a tie (x.5): half-to-even or half-away-from-zero depending on type and platform')
    return even
def _pg_to_int_ext(x):
    if isinstance(x, int) and x == PG_TRUE: return 1      # boolean -> integer cast: true is 1 (PostgreSQL 8.6 / CREATE CAST boolean::int4)
    if isinstance(x, float): return _round_tie(x, 'postgres')
    return _pg_to_int(x)
def _my_to_int_ext(x):
    if isinstance(x, float): return _round_tie(x, 'mysql')
    return _my_to_int(x)
def _row(dialect):
    """COUNT(DISTINCT ...) over several expressions. PostgreSQL: COUNT(DISTINCT ROW(a, b)) counts the distinct row values; a row
    constructor is a non-null composite value even when its fields are NULL (4.2.13, 9.21: count(expression) counts non-null
    inputs). MySQL 12.19.1 COUNT(DISTINCT expr, [expr...]): "the number of rows with different non-NULL expr values": a
    combination containing a NULL is not counted."""
    def f(*a):
        if dialect == 'mysql' and any(x is None for x in a): return None
        for x in a:
            if isinstance(x, str) and dialect == 'mysql': raise Flag('collation: MySQL string equality')
        return repr(tuple((type(x).__name__ if not isinstance(x, (int, float)) else 'n', float(x) if isinstance(x, (int, float)) else x) for x in a))
    return f

def _my_to_char_ext(x):
    """MySQL CAST(x AS CHAR): integers and short doubles as in _to_text (0 -> '0', 2.5 -> '2.5'); the manual does not fix the number of
    digits printed for a double that needs more than 15 significant digits"""
    if isinstance(x, float) and x == x and len(repr(abs(x)).replace('.', '').replace('-', '').lstrip('0').split('e')[0]) > 15:
        raise Flag('text form of a double needing more than 15 significant digits')
    return _to_text(x)
def _my_concat_ext(*a):
    """MySQL 12.8 CONCAT(): NULL if any argument is NULL; "a numeric argument is converted to its equivalent nonbinary string form" """
    if any(x is None for x in a): return None
    return ''.join(_my_to_char_ext(x) if isinstance(x, float) else str(x) for x in a)
def _row_or_null(*a):
    if all(x is None for x in a): return None
    return _row('postgres')(*a)

def udfs_extended(dialect, sub=None):
    """function models added for C02, on top of udfs(dialect)"""
    if dialect == 'postgres':
        return [('trim', 1, _spaces('both')), ('ltrim', 1, _spaces('leading')), ('rtrim', 1, _spaces('trailing')),
                ('trim', 2, _trim_set('both')), ('ltrim', 2, _trim_set('leading')), ('rtrim', 2, _trim_set('trailing')),
                ('btrim', 1, _spaces('both')), ('btrim', 2, _trim_set('both')),
                ('like', 2, _like(sub, dialect)), ('like', 3, _like(sub, dialect)),
                ('upper', 1, _case_map(str.upper)), ('lower', 1, _case_map(str.lower)),
                ('power', 2, _power(dialect)), ('pg_to_int', 1, _pg_to_int_ext),
                ('dm_year', 1, _date_part(0, 4)), ('dm_month', 1, _date_part(5, 7)), ('dm_day', 1, _date_part(8, 10)),
                ('dm_row', -1, _row(dialect)), ('dm_row_or_null', -1, _row_or_null)]
    if dialect == 'mysql':
        return [('trim', 1, _spaces('both')), ('ltrim', 1, _spaces('leading')), ('rtrim', 1, _spaces('trailing')),
                ('dm_trim_both', 2, _trim_str('both')), ('dm_trim_leading', 2, _trim_str('leading')), ('dm_trim_trailing', 2, _trim_str('trailing')),
                ('like', 2, _like(sub, dialect)), ('like', 3, _like(sub, dialect)),
                ('upper', 1, _case_map(str.upper)), ('lower', 1, _case_map(str.lower)),
                ('power', 2, _power(dialect)), ('pow', 2, _power(dialect)), ('length', 1, _my_length_bytes), ('my_to_int', 1, _my_to_int_ext), ('my_to_char', 1, _my_to_char_ext), ('concat', -1, _my_concat_ext),
                ('year', 1, _date_part(0, 4)), ('month', 1, _date_part(5, 7)), ('day', 1, _date_part(8, 10)),
                ('dm_row', -1, _row(dialect))]
    return []

def adapt_value(v, dialect):
    """what reaches the server for a Python value handed to the driver, expressed as a SQLite value: psycopg2 / pymysql
    render Decimal as a numeric literal, date as an ISO date, bool as true/false (psycopg2) or 1/0 (pymysql)."""
    import decimal, datetime
    if isinstance(v, bool): return (PG_TRUE if v else 0) if dialect == 'postgres' else int(v)
    if v is None or isinstance(v, (int, float, str)): return v
    if isinstance(v, decimal.Decimal): return float(v)
    if isinstance(v, datetime.datetime): raise Undecided('datetime parameter')
    if isinstance(v, datetime.date): return v.isoformat()
    raise Undecided('parameter of type %s' % type(v).__name__)
