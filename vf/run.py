"""CLI:  /venv/bin/python -B -m vf.run C25 [--tier quick|thorough] [--replay file]

Re-executes itself with PYTHONHASHSEED=0 so that set/dict iteration order over strings is
reproducible between runs (property modules sort before comparing anyway)."""
import os, sys

def main(argv):
    import argparse
    ap = argparse.ArgumentParser()
    ap.add_argument('prop')
    ap.add_argument('--tier', default=os.environ.get('VERIF_TIER') or 'quick', choices=['quick', 'thorough'])
    ap.add_argument('--replay', default=None)
    a = ap.parse_args(argv)
    if os.environ.get('PYTHONHASHSEED') != '0':
        env = dict(os.environ, PYTHONHASHSEED='0', PYTHONDONTWRITEBYTECODE='1')
        os.execve(sys.executable, [sys.executable, '-B', '-m', 'vf.run'] + argv, env)
    from vf import core
    import importlib, json, traceback
    try: seed = int(os.environ.get('VERIF_SEED', '0') or 0)
    except ValueError: seed = 0
    mod = importlib.import_module('vf.props.' + a.prop.lower())
    ctx = core.Ctx(a.prop.upper(), a.tier, seed, mod.LEVEL)
    try:
        if a.replay:
            with open(a.replay) as f: rec = json.load(f)
            ok = mod.replay(ctx, rec['case'])
            print('replay %s: %s' % (a.replay, 'property holds on this case' if ok else 'REPRODUCED'))
            return 0 if ok else 1
        coverage = mod.run(ctx)
        return core.finish(ctx, coverage)
    except core.HarnessError as e:
        print('HARNESS-BROKEN: %s' % e)
        return 2
    except Exception:
        traceback.print_exc()
        print('HARNESS-BROKEN: internal error in check %s' % a.prop)
        return 2

if __name__ == '__main__':
    sys.exit(main(sys.argv[1:]))
