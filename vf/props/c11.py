"""C11 One in-memory object per primary key per session.

SX monitor, at the end state of every explored history:
 (a) every way of reaching (Entity, pk) - creation result / earlier reference, Entity[pk], get(),
     select(**kw), select(generator), select_by_sql(), navigation from every neighbour and back,
     pickle round trip inside the session, make_proxy - returns the identical Python object;
 (b) the session's key indexes are consistent with the objects' values: every entry maps a key to a
     live object currently holding it, and every live object holding a non-None primary, unique or
     composite key is indexed under it.
"""
from vf import core
from vf.engines import sx

LEVEL = 'model_checking'

def worker(args):
    name, tier, seed, fixture = args
    from vf.models import catalog
    sub = core.Sub()
    env = sx.Env(catalog.by_name(name))
    rel = name.split('-')[0]
    ops = [op for op in env.ops() if op[0] != 'qdel']
    ex = sx.Explorer(env, fixtures=(fixture,), ops=ops)
    labels = [l for root in env.root_entities for l in env.labels_of(root, (1, 2, 3))]
    presigs = {}
    def probe(hist, read):
        x = env.run(list(hist) + [read], fixture, record_sql=False)
        if x.skipped: return None
        o = x.obs[-1]
        if o[0] != 'ok': return None          # a failing implicit flush etc.: C10/C13
        return o[1]
    def on_state(env_, fx, hist):
        if sx.latent_conflict(fixture, hist): return
        for read in [('r_indexes',)] + [('r_identity', l) for l in labels]:
            bad = probe(hist, read)
            if bad is None: continue
            sub.count('probes')
            if read[0] == 'r_identity': sub.count('identity_probes')
            if not bad: continue
            pre = (sx.kinds(hist), read[0], tuple(bad))
            if pre in presigs:
                sub.violation(presigs[pre], {}, ''); continue
            small = sx.shrink(list(hist) + [read], lambda h: bool(probe(h[:-1], read)))[:-1]
            bad2 = probe(small, read) or bad
            sig = '%s|%s|%s|%s' % (rel, sx.kinds(small) or '-', read[0], ';'.join(bad2))
            presigs[pre] = sig
            sub.violation(sig, dict(model=name, fixture=fixture, history=small, read=read, bad=bad2),
                          'after %r: %s -> %s' % (small, read, bad2))
    ex.run(2, None, order=sx.seeded_order(seed), on_state=on_state)
    env.close()
    for s in ex.samples: sub.sample(s)
    return dict(sub=sub.dump(), states=ex.states, transitions=ex.transitions, executions=ex.executions)

def run(ctx):
    agg = sx.run_catalogue(ctx, worker, tier='quick' if ctx.quick else 'thorough')
    ctx.guard('identity probes', ctx.counters.get('identity_probes', 0), 1000)
    ctx.cov['per_model'] = agg['per_model']
    ctx.cov['bounds'] = 'every distinct state reachable by histories of depth <= 2 from both fixtures (thorough: full model catalogue); 9+ routes per object'
    ctx.assume('index consistency reads SessionCache.indexes / _vals_ / _pkval_ / _status_ (internal names); SQLite only')
    return dict(states=agg['states'], transitions=agg['transitions'],
                traces_validated_against_impl=agg['executions'] + ctx.counters.get('probes', 0))

def replay(ctx, case):
    from vf.models import catalog
    env = sx.Env(catalog.by_name(case['model']))
    hist = [tuple(tuple(x) if isinstance(x, list) else x for x in o) for o in case['history']]
    x = env.run(hist + [tuple(case['read'])], case['fixture'])
    print(x.obs)
    env.close()
    return not (x.obs[-1][0] == 'ok' and x.obs[-1][1])
