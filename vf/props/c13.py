"""C13 A modification that raises leaves the session exactly as it was.

SX differential around every failing modification call found in the explored histories:
    twin A = prefix . resolve(operands)            . view . commit
    twin B = prefix . resolve(operands) . CALL(!)  . view . commit
Compared is the OBSERVABLE state only (a failing call may legitimately have loaded rows):
  (a) the public view (every attribute / collection of every universe object, every key look-up),
  (b) the outcome of the following commit,
  (c) the multiset of write statements of the whole session,
  (d) the committed rows afterwards.
Failures raised by an implicit flush (the session is rolled back by design) are not failing
*modifications* and are skipped.
"""
from vf import core
from vf.engines import sx
from collections import Counter

LEVEL = 'model_checking'
FLUSH_EXC = ('TransactionIntegrityError', 'IntegrityError', 'UnresolvableCyclicDependency', 'CommitException', 'OperationalError',
             'OptimisticCheckError', 'UnrepeatableReadError')   # raised by an implicit flush / load, not by the modification itself
WATCH = ('create', 'set', 'setm', 'add', 'remove', 'clear', 'assign', 'delete')

def twins(env, fixture, prefix, op):
    res = ('resolve', tuple(sx.operands(op)))
    tail = [('r_indexes',), ('view_counts',), ('view_noflush',), ('commit',)]
    a = env.run(list(prefix) + [res] + tail, fixture, track_dumps=True)
    b = sx.Exec(env, fixture, track_dumps=True)
    try:
        b.replay(list(prefix) + [res])
        if not b.skipped:
            o = b.apply(op)
            died = b.died
            b.dumps = []
            n = len(b.obs)
            b.obs_call = o
            if o[0] == 'exc' and not died:
                b.apply(tail[0]); b.apply(tail[1]); b.apply(tail[2])
                b.dumps = [env.dump()]
                b.apply(tail[3])
            b.call_died = died
    finally: b.finish()
    return a, b

def compare(env, a, b):
    """list of differing components between twin A (call not made) and twin B (call raised)"""
    if a.skipped or b.skipped: return None
    if a.obs[-5][0] != 'ok': return None               # the operand look-up itself fails
    if b.obs_call[0] != 'exc' or b.call_died: return None
    d = []
    ia, ib = a.obs[-4], b.obs[-4]                       # consistency of the session's key indexes with the objects' values
    if ia != ib: d.append('indexes[%s]' % ','.join(sorted(set(map(str, ib[1] if isinstance(ib[1], list) else [ib[1]])) - set(map(str, ia[1] if isinstance(ia[1], list) else [ia[1]])))))
    ka, kb = a.obs[-3], b.obs[-3]
    if ka != kb:
        if ka[0] == 'ok' and kb[0] == 'ok':
            d.append('counts[%s]' % ','.join(sorted(set(k.split(':')[0] + '.' + k.split('.')[1] for k in set(ka[1]) | set(kb[1]) if ka[1].get(k) != kb[1].get(k)))))
        else: d.append('counts:%s->%s' % (ka[0] if ka[0] == 'ok' else ka[1], kb[0] if kb[0] == 'ok' else kb[1]))
    va, vb = a.obs[-2], b.obs[-2]
    if va != vb:
        if va[0] == 'ok' and vb[0] == 'ok':
            comp = set()
            for l in set(va[1]) | set(vb[1]):
                x, y = va[1].get(l), vb[1].get(l)
                if x == y: continue
                if x is None or y is None: comp.add('%s:existence' % l.split(':')[0])
                else: comp.update('%s.%s' % (l.split(':')[0], k) for k in set(x) | set(y) if x.get(k) != y.get(k))
            d.append('view[%s]' % ','.join(sorted(comp)))
        else: d.append('view:%s->%s' % (va[0] if va[0] == 'ok' else va[1], vb[0] if vb[0] == 'ok' else vb[1]))
    ca, cb = a.obs[-1], b.obs[-1]
    if ca != cb: d.append('commit:%s->%s' % (ca[0] if ca[0] == 'ok' else ca[1], cb[0] if cb[0] == 'ok' else cb[1]))
    if Counter(norm_writes(a.writes())) != Counter(norm_writes(b.writes())):
        wa, wb = Counter(norm_writes(a.writes())), Counter(norm_writes(b.writes()))
        extra = sorted(set(s.split()[0] + ' ' + s.split('"')[1] for (s, _), n in (wb - wa).items()))
        missing = sorted(set(s.split()[0] + ' ' + s.split('"')[1] for (s, _), n in (wa - wb).items()))
        d.append('writes[+%s -%s]' % (','.join(extra), ','.join(missing)))
    if a.dumps and b.dumps and a.dumps[-1] != b.dumps[-1]: d.append('rows')
    return d

def norm_writes(ws):
    """the optimistic-check part of an UPDATE/DELETE WHERE clause depends on which attributes were READ
    (a failing call may legitimately read): keep the statement up to the primary-key criterion only"""
    out = []
    for sql, args in ws:
        if sql.startswith(('UPDATE', 'DELETE')) and '\n  AND ' in sql:
            head = sql.split('\n  AND ')[0]
            try: vals = eval(args)
            except Exception: vals = None
            if isinstance(vals, tuple): args = repr(vals[:head.count('?')])
            sql = head
        out.append((sql, args))
    return out

def opsig(op):
    if op[0] == 'create':
        return 'create(%s%s%s)' % (op[1], ',refs' if any(v[:1] == ('ref',) for v in op[3].values() if isinstance(v, tuple)) else '', ',items' if any(v[:1] == ('refs',) for v in op[3].values() if isinstance(v, tuple)) else '')
    if op[0] == 'set':
        return 'set(%s=%s)' % (op[2], 'None' if op[3] is None else ('ref' if isinstance(op[3], (tuple, list)) else 'val'))
    if op[0] == 'setm': return 'set(**kw)'
    if op[0] in ('add', 'remove', 'clear', 'assign'): return '%s(%s)' % (op[0], op[2])
    return op[0]

def worker(args):
    name, tier, seed, fixture = args
    from vf.models import catalog
    sub = core.Sub()
    env = sx.Env(catalog.by_name(name))
    rel = name.split('-')[0]
    ops = [op for op in env.ops() if op[0] != 'qdel'] + env.shaping_reads()
    ex = sx.Explorer(env, fixtures=(fixture,), ops=ops)
    presigs = {}
    def visit(env_, fixture, hist, x):
        op = hist[-1]
        if op[0] not in WATCH or x.obs[-1][0] != 'exc': return
        sub.count('failing_calls_seen')
        if sx.latent_conflict(fixture, hist[:-1]):
            # an earlier operation of the history holds a key that exists unloaded in the database: every flush fails from then on,
            # at a point that depends on what is loaded - the twins differ in where, not in what the failing call left behind
            sub.count('histories_with_a_latent_key_conflict_skipped'); return
        if x.died or x.obs[-1][1] in FLUSH_EXC:
            sub.count('failures_raised_by_implicit_flush_skipped'); return
        a, b = twins(env, fixture, hist[:-1], op)
        d = compare(env, a, b)
        if d is None:
            sub.count('not_comparable'); return
        exc = b.obs_call[1]
        sub.count('failing_calls_compared'); sub.count('exc:' + exc)
        if not d: return
        pre = (sx.kinds(hist), opsig(op), exc, tuple(d))
        if pre in presigs:
            sub.violation(presigs[pre], {}, ''); return
        def fails(h):
            a2, b2 = twins(env, fixture, h[:-1], h[-1])
            d2 = compare(env, a2, b2)
            return bool(d2) and b2.obs_call[1] == exc
        small = sx.shrink(hist, fails)
        a2, b2 = twins(env, fixture, small[:-1], small[-1])
        d2 = compare(env, a2, b2) or d
        sig = '%s|%s|%s|%s|%s' % (rel, sx.kinds(small[:-1]) or '-', opsig(op), exc, ' '.join(d2))
        if any(o[0] == 'objflush' for o in small[:-1]) and all(x_.startswith('counts[') or (x_.startswith('writes[+UPDATE') and ' -UPDATE' in x_) for x_ in d2):
            # one defect, one name (the C10 known finding): obj.flush() of ONE object leaves the pending bookkeeping of its partners'
            # collections (cached count, pending removals) behind until the session flush; a failing call and its undo then meet that state
            sig = 'obj.flush()-earlier-in-the-session|%s' % ('counts' if all(x_.startswith('counts[') for x_ in d2) else 'writes')
        presigs[pre] = sig
        sub.violation(sig, dict(model=name, fixture=fixture, history=small, differs=d2,
                                view_without_call=a2.obs[-2], view_after_failed_call=b2.obs[-2],
                                commit_without_call=a2.obs[-1], commit_after_failed_call=b2.obs[-1],
                                writes_without_call=a2.writes(), writes_after_failed_call=b2.writes()),
                      'after %r the call %r raised %s but the session differs from the state before the call in: %s'
                      % (small[:-1], small[-1], exc, ', '.join(d2)))
    ex.run(2, visit, order=sx.seeded_order(seed), last_only=None)   # (one more operation in the thorough tier: see DESIGN.md section 11.2; the thorough tier is the larger catalogue)
    env.close()
    for s in ex.samples: sub.sample(s)
    return dict(sub=sub.dump(), states=ex.states, transitions=ex.transitions, executions=ex.executions)

def run(ctx):
    agg = sx.run_catalogue(ctx, worker, fixtures=('populated', 'empty', 'populated-seeds'))
    ctx.guard('failing calls compared', ctx.counters.get('failing_calls_compared', 0), 200)
    ctx.guard('distinct exception classes among failing calls',
              len([k for k in ctx.counters if k.startswith('exc:')]), 3)
    ctx.cov['per_model'] = agg['per_model']
    ctx.cov['bounds'] = 'every failing create/set/set(**kw)/add/remove/clear/assign/delete at the end of every history of depth <= %d from both fixtures' % (2 if ctx.quick else 3)
    ctx.assume('observable state = public view + outcome, write statements and rows of a following commit; SQLite only')
    return dict(states=agg['states'], transitions=agg['transitions'],
                traces_validated_against_impl=agg['executions'] + 2 * ctx.counters.get('failing_calls_compared', 0))

def replay(ctx, case):
    from vf.models import catalog
    env = sx.Env(catalog.by_name(case['model']))
    hist = [tuple(tuple(x) if isinstance(x, list) else x for x in o) for o in case['history']]
    a, b = twins(env, case['fixture'], hist[:-1], hist[-1])
    d = compare(env, a, b)
    print('without the call:', a.obs[-2:], a.writes()); print('after the failing call:', b.obs_call, b.obs[-2:], b.writes()); print('differs:', d)
    env.close()
    return not d
