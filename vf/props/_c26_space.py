"""Diagram space of C26.

A diagram is a JSON-able *spec* (entities, attributes, options) that is rendered to Python source
(class statements using the public declaration API) and exec'd against a fresh Database.  The spec
is what the oracle reads; the source is what Pony reads.

spec = dict(tag=dict(...options that matter...), entities=[entity, ...])
entity = dict(name, bases=[names], table=None|str|[schema, name], discr=None|value, pk=None|[attr names],
              keys=[[attr names]], indexes=[[attr names]], attrs=[attr, ...])
attr = dict(name, cls='PrimaryKey'|'Required'|'Optional'|'Set'|'Discriminator', type=<basic type name or entity name>,
            rel=bool, rev=[entity, attr]|None, opts={...keyword options...})
"""
import copy, itertools

BASIC = ('int', 'str', 'float', 'bool', 'date', 'Decimal')

def attr(name, cls, typ, rel=False, rev=None, **opts):
    return dict(name=name, cls=cls, type=typ, rel=rel, rev=rev, opts=opts)

def entity(name, bases=(), table=None, discr=None):
    return dict(name=name, bases=list(bases), table=table, discr=discr, pk=None, keys=[], indexes=[], attrs=[])

class Diagram(object):
    def __init__(self, **tag):
        self.spec = dict(tag=dict(tag), entities=[])
    def ent(self, name, pk='auto', bases=(), **kw):
        e = entity(name, bases, **kw)
        self.spec['entities'].append(e)
        if not bases: add_pk(e, pk)
        return e
    def get(self, name):
        for e in self.spec['entities']:
            if e['name'] == name: return e
        raise KeyError(name)
    def rel(self, kind, e1, a1, e2, a2, cascade=None, child_opts=None, explicit_reverse=False, parent_opts=None):
        """e1 is the 'parent' side (holds the Set / the non-holding Optional), e2 the child side."""
        E1, E2 = self.get(e1), self.get(e2)
        co, po = dict(child_opts or {}), dict(parent_opts or {})
        if cascade is not None: po['cascade_delete'] = cascade
        symmetric = (e1 == e2 and a1 == a2)
        if explicit_reverse or (e1 == e2):
            po['reverse'] = a2; co['reverse'] = a1
        if kind == 'o2o-ro':
            p = attr(a1, 'Optional', e2, True, [e2, a2], **po); c = attr(a2, 'Required', e1, True, [e1, a1], **co)
        elif kind == 'o2o-oo':
            p = attr(a1, 'Optional', e2, True, [e2, a2], **po); c = attr(a2, 'Optional', e1, True, [e1, a1], **co)
        elif kind == 'o2m-r':
            p = attr(a1, 'Set', e2, True, [e2, a2], **po); c = attr(a2, 'Required', e1, True, [e1, a1], **co)
        elif kind == 'o2m-o':
            p = attr(a1, 'Set', e2, True, [e2, a2], **po); c = attr(a2, 'Optional', e1, True, [e1, a1], **co)
        elif kind == 'm2m':
            p = attr(a1, 'Set', e2, True, [e2, a2], **po); c = attr(a2, 'Set', e1, True, [e1, a1], **co)
        else: raise ValueError(kind)
        if symmetric:
            p['opts'].update(co)
            E1['attrs'].append(p)
        else:
            E1['attrs'].append(p); E2['attrs'].append(c)
        return p, c
    def done(self):
        return self.spec

def add_pk(e, kind):
    if kind == 'auto': return
    if kind == 'int': e['attrs'].append(attr('id', 'PrimaryKey', 'int'))
    elif kind == 'intauto': e['attrs'].append(attr('id', 'PrimaryKey', 'int', auto=True))
    elif kind == 'str': e['attrs'].append(attr('code', 'PrimaryKey', 'str'))
    elif kind == 'comp':
        e['attrs'].append(attr('ka', 'Required', 'int')); e['attrs'].append(attr('kb', 'Required', 'str'))
        e['pk'] = ['ka', 'kb']
    elif kind == 'comprel': pass      # completed by make_comprel() after the relationship exists
    else: raise ValueError(kind)

def make_comprel(e, relattr):
    e['attrs'].append(attr('kn', 'Required', 'int'))
    e['pk'] = [relattr, 'kn']

# ---- rendering ----------------------------------------------------------------------------------------------
def render(spec):
    out = []
    for e in spec['entities']:
        out.append('class %s(%s):' % (e['name'], ', '.join(e['bases']) or 'db.Entity'))
        body = []
        if e['table'] is not None:
            body.append('_table_ = %r' % (tuple(e['table']) if isinstance(e['table'], (list, tuple)) else e['table'],))
        if e['discr'] is not None: body.append('_discriminator_ = %r' % (e['discr'],))
        for a in e['attrs']:
            typ = repr(a['type']) if a['rel'] else a['type']
            args = [typ] + ['%s=%r' % (k, _lit(v)) for k, v in a['opts'].items()]
            body.append('%s = %s(%s)' % (a['name'], a['cls'], ', '.join(args)))
        own = set(a['name'] for a in e['attrs'])
        def ref(n):      # an attribute inherited from a base class is written Base.attr
            return n if n in own else '%s.%s' % (owner_of(spec, e['name'], n), n)
        if e['pk']: body.append('PrimaryKey(%s)' % ', '.join(e['pk']))
        for k in e['keys']: body.append('composite_key(%s)' % ', '.join(map(ref, k)))
        for k in e['indexes']: body.append('composite_index(%s)' % ', '.join(map(ref, k)))
        out.extend('    ' + b for b in (body or ['pass']))
    return '\n'.join(out) + '\n'

def _lit(v):
    return tuple(v) if isinstance(v, list) and v and v[0] == '__tuple__' else v

# ---- spec helpers used by the oracle -------------------------------------------------------------------------
def ent_by_name(spec):
    return {e['name']: e for e in spec['entities']}

def owner_of(spec, ename, attrname):
    """name of the entity (ename or one of its bases, breadth first) that declares attrname"""
    ents = ent_by_name(spec)
    todo = [ename]
    while todo:
        n = todo.pop(0)
        if any(a['name'] == attrname for a in ents[n]['attrs']): return n
        todo.extend(ents[n]['bases'])
    return ename

def root_of(spec, name):
    ents = ent_by_name(spec)
    while ents[name]['bases']: name = ents[name]['bases'][0]
    return name

def explicit_names(spec):
    """every name the *user* wrote (tables, columns, constraint / index names): these are not judged
    for length or case-only collisions - only names Pony derives are."""
    out = set()
    def add(v):
        if isinstance(v, str): out.add(v)
        elif isinstance(v, (list, tuple)):
            for x in v: add(x)
    for e in spec['entities']:
        if e['table'] is not None: add(e['table'])
        for a in e['attrs']:
            for k in ('column', 'columns', 'reverse_column', 'reverse_columns', 'table', 'fk_name', 'reverse_fk_name',
                      'sequence_name'):
                if k in a['opts']: add(a['opts'][k])
            for k in ('index', 'reverse_index'):
                if isinstance(a['opts'].get(k), str): out.add(a['opts'][k])
    return out

def rename_entity(spec, old, new):
    spec = copy.deepcopy(spec)
    for e in spec['entities']:
        if e['name'] == old: e['name'] = new
        e['bases'] = [new if b == old else b for b in e['bases']]
        for a in e['attrs']:
            if a['rel'] and a['type'] == old: a['type'] = new
            if a['rev'] and a['rev'][0] == old: a['rev'][0] = new
    return spec

def rename_attr(spec, ename, old, new):
    spec = copy.deepcopy(spec)
    for e in spec['entities']:
        if e['name'] == ename:
            for a in e['attrs']:
                if a['name'] == old: a['name'] = new
            if e['pk']: e['pk'] = [new if x == old else x for x in e['pk']]
            e['keys'] = [[new if x == old else x for x in k] for k in e['keys']]
            e['indexes'] = [[new if x == old else x for x in k] for k in e['indexes']]
        for a in e['attrs']:
            if a['rev'] and a['rev'] == [ename, old]:
                a['rev'] = [ename, new]
                if a['opts'].get('reverse') == old: a['opts']['reverse'] = new
            if e['name'] == ename and a['opts'].get('reverse') == old and a['type'] == ename:
                a['opts']['reverse'] = new       # self reference
    return spec

# ---- families -------------------------------------------------------------------------------------------------
PKS = ('auto', 'int', 'str', 'comp')
RELKINDS = ('o2o-ro', 'o2o-oo', 'o2m-r', 'o2m-o', 'm2m')

SCALAR_FEATURES = [
    ('none', lambda e: None),
    ('required-unique-int', lambda e: e['attrs'].append(attr('u', 'Required', 'int', unique=True))),
    ('optional-unique-str', lambda e: e['attrs'].append(attr('u', 'Optional', 'str', unique=True))),
    ('optional-unique-int', lambda e: e['attrs'].append(attr('u', 'Optional', 'int', unique=True))),
    ('optional-str', lambda e: e['attrs'].append(attr('s', 'Optional', 'str'))),
    ('optional-str-nullable', lambda e: e['attrs'].append(attr('s', 'Optional', 'str', nullable=True))),
    ('optional-int', lambda e: e['attrs'].append(attr('n', 'Optional', 'int'))),
    ('optional-int-not-nullable', lambda e: e['attrs'].append(attr('n', 'Optional', 'int', nullable=False))),
    ('required-str-default', lambda e: e['attrs'].append(attr('s', 'Required', 'str', default='x'))),
    ('optional-int-default', lambda e: e['attrs'].append(attr('n', 'Optional', 'int', default=0))),
    ('required-int-sql-default', lambda e: e['attrs'].append(attr('n', 'Required', 'int', sql_default='7'))),
    ('optional-str-sql-default', lambda e: e['attrs'].append(attr('s', 'Optional', 'str', sql_default="'x'"))),
    ('optional-default-none-nullable', lambda e: e['attrs'].append(attr('s', 'Optional', 'str', default=None, nullable=True))),
    ('index-true', lambda e: e['attrs'].append(attr('n', 'Required', 'int', index=True))),
    ('index-named', lambda e: e['attrs'].append(attr('n', 'Optional', 'str', index='ix_custom'))),
    ('unique-index-named', lambda e: e['attrs'].append(attr('n', 'Required', 'int', unique=True, index='ux_custom'))),
    ('index-false-unique', lambda e: e['attrs'].append(attr('n', 'Required', 'int', unique=True, index=False))),
    ('composite-key-required', lambda e: (e['attrs'].extend([attr('a', 'Required', 'int'), attr('b', 'Required', 'str')]),
                                          e['keys'].append(['a', 'b']))),
    ('composite-key-optional-str', lambda e: (e['attrs'].extend([attr('a', 'Optional', 'str'), attr('b', 'Required', 'int')]),
                                              e['keys'].append(['a', 'b']))),
    ('composite-index', lambda e: (e['attrs'].extend([attr('a', 'Required', 'int'), attr('b', 'Optional', 'str')]),
                                   e['indexes'].append(['a', 'b']))),
    ('composite-key-and-index-reversed', lambda e: (e['attrs'].extend([attr('a', 'Required', 'int'), attr('b', 'Required', 'int')]),
                                                    e['keys'].append(['a', 'b']), e['indexes'].append(['b', 'a']))),
    ('two-keys-sharing-attr', lambda e: (e['attrs'].extend([attr('a', 'Required', 'int'), attr('b', 'Required', 'int'),
                                                            attr('c', 'Required', 'int', unique=True)]),
                                         e['keys'].append(['a', 'b']), e['keys'].append(['b', 'c']))),
    ('composite-key-same-as-unique', lambda e: (e['attrs'].extend([attr('a', 'Required', 'int', unique=True), attr('b', 'Required', 'int')]),
                                                e['keys'].append(['a', 'b']), e['indexes'].append(['a', 'b']))),
    ('types', lambda e: e['attrs'].extend([attr('f', 'Required', 'float'), attr('b', 'Optional', 'bool'), attr('d', 'Optional', 'date'),
                                           attr('m', 'Required', 'Decimal'), attr('s', 'Required', 'str', max_len=40)])),
    ('str-key-max-len', lambda e: e['attrs'].append(attr('s', 'Required', 'str', 40, unique=True))),
]

def fam_single():
    for pk in PKS + ('intauto',):
        for fname, f in SCALAR_FEATURES:
            d = Diagram(family='single', pk=pk, feature=fname)
            e = d.ent('Alpha', pk)
            f(e)
            yield d.done()

CHILD_OPTS = [
    ('plain', {}, None),
    ('unique', dict(unique=True), None),
    ('index-true', dict(index=True), None),
    ('index-named', dict(index='ix_fk_custom'), None),
    ('index-false', dict(index=False), None),
    ('fk-name', dict(fk_name='fk_custom'), None),
    ('in-composite-key', {}, 'key'),
    ('in-composite-index', {}, 'index'),
]

def fam_pair(quick):
    for kind in RELKINDS:
        for pk1 in PKS:
            # 'comprel': the reference is one part of a composite primary key; 'pkrel': the reference IS the primary key
            pk2s = PKS + (('comprel',) if kind in ('o2o-ro', 'o2m-r') else ()) + (('pkrel',) if kind == 'o2o-ro' else ())
            for pk2 in pk2s:
                cascades = (None,) if kind == 'm2m' else (None, True, False)
                for cascade in cascades:
                    for cname, copts, extra in CHILD_OPTS:
                        if kind == 'm2m' and cname != 'plain': continue
                        if quick and cname not in ('plain', 'unique', 'in-composite-key') and (pk1, pk2) not in (('auto', 'auto'), ('comp', 'comp')):
                            continue
                        d = Diagram(family='pair', rel=kind, pk1=pk1, pk2=pk2, cascade=cascade, child=cname)
                        if pk2 == 'pkrel' and cname != 'plain': continue
                        d.ent('Alpha', pk1); e2 = d.ent('Beta', 'auto' if pk2 == 'pkrel' else pk2)
                        p_, c_ = d.rel(kind, 'Alpha', 'betas', 'Beta', 'alpha', cascade=cascade, child_opts=copts)
                        if pk2 == 'comprel': make_comprel(e2, 'alpha')
                        if pk2 == 'pkrel': c_['cls'] = 'PrimaryKey'
                        if extra:
                            e2['attrs'].append(attr('x', 'Required', 'int'))
                            (e2['keys'] if extra == 'key' else e2['indexes']).append(['alpha', 'x'])
                        yield d.done()

def fam_self(quick):
    for pk in PKS:
        for kind in ('o2m-o', 'o2o-oo', 'm2m', 'o2m-r', 'o2o-ro'):
            for cascade in ((None,) if kind == 'm2m' else (None, True)):
                d = Diagram(family='self', rel=kind, pk=pk, cascade=cascade, symmetric=False)
                d.ent('Node', pk)
                d.rel(kind, 'Node', 'children', 'Node', 'parent', cascade=cascade)
                yield d.done()
        for kind in ('o2o-oo', 'm2m'):
            d = Diagram(family='self', rel=kind, pk=pk, cascade=None, symmetric=True)
            d.ent('Node', pk)
            d.rel(kind, 'Node', 'peer', 'Node', 'peer')
            yield d.done()

def fam_triple(quick):
    kinds = ('o2o-ro', 'o2m-r', 'o2m-o', 'm2m')
    for k12 in kinds:
        for k23 in kinds:
            for pk1 in ('auto', 'str', 'comp'):
                for pk2 in ('auto', 'comp') + (('comprel',) if k12 in ('o2o-ro', 'o2m-r') else ()):
                    for pk3 in ('auto',) + (('comprel',) if k23 in ('o2o-ro', 'o2m-r') else ()):
                        if quick and pk1 == 'str': continue
                        d = Diagram(family='chain3', rel12=k12, rel23=k23, pk1=pk1, pk2=pk2, pk3=pk3)
                        d.ent('Alpha', pk1); e2 = d.ent('Beta', pk2); e3 = d.ent('Gamma', pk3)
                        d.rel(k12, 'Alpha', 'betas', 'Beta', 'alpha')
                        if pk2 == 'comprel': make_comprel(e2, 'alpha')
                        d.rel(k23, 'Beta', 'gammas', 'Gamma', 'beta')
                        if pk3 == 'comprel': make_comprel(e3, 'beta')
                        yield d.done()
    # reference cycles (creation order cannot be satisfied: must still be creatable)
    for kind in ('o2m-o', 'o2m-r', 'o2o-oo'):
        for pk in ('auto', 'comp'):
            d = Diagram(family='cycle3', rel=kind, pk=pk)
            for n in ('Alpha', 'Beta', 'Gamma'): d.ent(n, pk)
            d.rel(kind, 'Alpha', 'betas', 'Beta', 'alpha')
            d.rel(kind, 'Beta', 'gammas', 'Gamma', 'beta')
            d.rel(kind, 'Gamma', 'alphas', 'Alpha', 'gamma')
            yield d.done()
    # two relationships between the same pair (explicit reverse needed)
    for kind in RELKINDS:
        for pk in ('auto', 'comp'):
            d = Diagram(family='double', rel=kind, pk=pk)
            d.ent('Alpha', pk); d.ent('Beta', pk)
            d.rel(kind, 'Alpha', 'betas', 'Beta', 'alpha', explicit_reverse=True)
            d.rel(kind, 'Alpha', 'others', 'Beta', 'owner', explicit_reverse=True)
            yield d.done()
        d = Diagram(family='double', rel=kind + '+m2m', pk='auto')
        d.ent('Alpha', 'auto'); d.ent('Beta', 'auto')
        d.rel(kind, 'Alpha', 'betas', 'Beta', 'alpha', explicit_reverse=True)
        d.rel('m2m', 'Alpha', 'tags', 'Beta', 'tagged', explicit_reverse=True)
        yield d.done()

SUB_FEATURES = [
    ('required-int', lambda d, sub: d.get(sub)['attrs'].append(attr('n', 'Required', 'int'))),
    ('optional-str', lambda d, sub: d.get(sub)['attrs'].append(attr('s', 'Optional', 'str'))),
    ('optional-unique-str', lambda d, sub: d.get(sub)['attrs'].append(attr('u', 'Optional', 'str', unique=True))),
    ('required-unique-int', lambda d, sub: d.get(sub)['attrs'].append(attr('u', 'Required', 'int', unique=True))),
    ('composite-key', lambda d, sub: (d.get(sub)['attrs'].extend([attr('a', 'Required', 'int'), attr('b', 'Optional', 'str')]),
                                      d.get(sub)['keys'].append(['a', 'b']))),
    ('required-ref-external', lambda d, sub: d.rel('o2m-r', 'Ext', 'subs', sub, 'ext')),
    ('optional-ref-external', lambda d, sub: d.rel('o2m-o', 'Ext', 'subs', sub, 'ext')),
    ('o2o-required-ref-external', lambda d, sub: d.rel('o2o-ro', 'Ext', 'sub', sub, 'ext')),
    ('set-of-external', lambda d, sub: d.rel('o2m-r', sub, 'exts', 'Ext', 'owner')),
    ('set-of-external-optional', lambda d, sub: d.rel('o2m-o', sub, 'exts', 'Ext', 'owner')),
    ('m2m-external', lambda d, sub: d.rel('m2m', sub, 'exts', 'Ext', 'subs')),
    ('ref-to-root', lambda d, sub: d.rel('o2m-o', 'Base', 'subs', sub, 'base_ref')),
    ('ref-to-sibling-or-self', lambda d, sub: d.rel('o2m-o', sub, 'minions', sub, 'boss')),
    ('external-pk-comprel', lambda d, sub: (d.rel('o2m-r', sub, 'exts', 'Ext', 'owner'), make_comprel(d.get('Ext'), 'owner'))),
]
SHAPES = dict(chain2=[('Sub', ['Base'])], chain3=[('Sub', ['Base']), ('SubSub', ['Sub'])],
              fork=[('Sub', ['Base']), ('Sib', ['Base'])],
              diamond=[('Sub', ['Base']), ('Sib', ['Base']), ('Bottom', ['Sub', 'Sib'])])

def fam_inherit(quick):
    for shape, subs in sorted(SHAPES.items()):
        for discr in ('default', 'str-attr', 'int-attr'):
            for pk in ('auto', 'str', 'comp'):
                for fname, f in SUB_FEATURES:
                    if quick and pk == 'str' and discr != 'default': continue
                    d = Diagram(family='inherit', shape=shape, discr=discr, pk=pk, feature=fname)
                    base = d.ent('Base', pk)
                    if discr == 'str-attr': base['attrs'].append(attr('kind', 'Discriminator', 'str'))
                    if discr == 'int-attr':
                        base['attrs'].append(attr('kind', 'Discriminator', 'int')); base['discr'] = 1
                    base['attrs'].append(attr('title', 'Required', 'str'))
                    for i, (n, bases) in enumerate(subs):
                        e = d.ent(n, bases=bases)
                        if discr == 'int-attr': e['discr'] = 2 + i
                    if 'external' in fname: d.ent('Ext', 'auto' if pk != 'comp' else 'comp')
                    target = subs[-1][0] if shape != 'fork' else 'Sub'
                    f(d, target)
                    if shape in ('fork', 'diamond'):      # the sibling gets a scalar of its own
                        d.get('Sib')['attrs'].append(attr('sib_val', 'Required', 'int'))
                    yield d.done()

# ---- a unique / indexed / reference attribute x the composite keys and indexes that also contain its column(s) ----
# target attribute 't': (name, is reference, class, type, options)
KEYMIX_TARGETS = [
    ('plain-int', False, 'Required', 'int', {}),
    ('unique-int', False, 'Required', 'int', dict(unique=True)),
    ('unique-optional-str', False, 'Optional', 'str', dict(unique=True)),
    ('index-true', False, 'Required', 'int', dict(index=True)),
    ('index-named', False, 'Optional', 'int', dict(index='ix_t')),
    ('unique-index-named', False, 'Required', 'int', dict(unique=True, index='ux_t')),
    ('ref', True, 'o2m-r', None, {}),
    ('ref-optional', True, 'o2m-o', None, {}),
    ('ref-index-true', True, 'o2m-r', None, dict(index=True)),
    ('ref-index-named', True, 'o2m-o', None, dict(index='ix_t')),
    ('ref-index-false', True, 'o2m-r', None, dict(index=False)),
    ('ref-unique', True, 'o2m-r', None, dict(unique=True)),
    ('ref-one-to-one', True, 'o2o-ro', None, {}),
]
KEYMIX_COMPOSITES = ('key', 'index', 'pk', 'key+index')
KEYMIX_POSITIONS = ('leading', 'trailing', 'middle')
# where the composite is declared: in the entity that declares t; in a subclass together with an attribute of the
# subclass (composite_key(Base.t, x)); in a subclass over attributes that are all inherited
KEYMIX_WHERE = ('same', 'subclass', 'subclass-inherited')

def fam_keymix(quick):
    for tname, is_rel, cls, typ, opts in KEYMIX_TARGETS:
        for comp in KEYMIX_COMPOSITES:
            for pos in KEYMIX_POSITIONS:
                for where in KEYMIX_WHERE:
                    for extpk in (('auto', 'comp') if is_rel else (None,)):
                        for pk in ('auto', 'comp'):
                            if comp == 'pk' and (where != 'same' or pk != 'auto' or cls in ('Optional', 'o2m-o')): continue
                            if quick and (pos == 'middle' or pk == 'comp' or comp == 'key+index'): continue
                            if quick and where == 'subclass-inherited' and extpk == 'comp': continue
                            tag = dict(family='keymix', target=tname, composite=comp, position=pos, where=where, pk=pk)
                            if is_rel: tag['extpk'] = extpk
                            d = Diagram(**tag)
                            holder = d.ent('Holder', 'comprel' if comp == 'pk' else pk)
                            if is_rel:
                                d.ent('Ext', extpk)
                                d.rel(cls, 'Ext', 'holders', 'Holder', 't', child_opts=opts)
                            else: holder['attrs'].append(attr('t', cls, typ, **opts))
                            decl = holder
                            if where != 'same': decl = d.ent('Sub', bases=['Holder'])
                            others = ['x', 'y'] if pos == 'middle' else ['x']
                            for n in others: (holder if where == 'subclass-inherited' else decl)['attrs'].append(attr(n, 'Required', 'int'))
                            members = dict(leading=['t', 'x'], trailing=['x', 't'], middle=['x', 't', 'y'])[pos]
                            if comp == 'pk': decl['pk'] = members
                            elif comp == 'key': decl['keys'].append(members)
                            elif comp == 'index': decl['indexes'].append(members)
                            else:       # a key and an index in opposite orders: t leads one and trails the other
                                decl['keys'].append(members); decl['indexes'].append(members[::-1])
                            yield d.done()

def base_diagrams(quick):
    return itertools.chain(fam_single(), fam_pair(quick), fam_self(quick), fam_triple(quick), fam_inherit(quick), fam_keymix(quick))

# ---- naming overlays ------------------------------------------------------------------------------------------
def overlay_bases(quick):
    """the structural diagrams that naming overlays are applied to"""
    out = []
    pairs = [('auto', 'auto'), ('comp', 'comp'), ('str', 'comprel')]
    if not quick: pairs += [('int', 'str'), ('comp', 'auto'), ('auto', 'comp'), ('comp', 'comprel')]
    for kind in RELKINDS:
        for pk1, pk2 in pairs:
            if pk2 == 'comprel' and kind not in ('o2o-ro', 'o2m-r'): continue
            d = Diagram(family='pair', rel=kind, pk1=pk1, pk2=pk2, cascade=None, child='plain')
            d.ent('Alpha', pk1); e2 = d.ent('Beta', pk2)
            d.rel(kind, 'Alpha', 'betas', 'Beta', 'alpha')
            if pk2 == 'comprel': make_comprel(e2, 'alpha')
            e2['attrs'].append(attr('val', 'Optional', 'str', unique=True))
            e2['attrs'].append(attr('num', 'Required', 'int', index=True))
            out.append(d.done())
    for pk in ('auto', 'comp') + (() if quick else ('str',)):
        for kind, sym in (('o2m-o', False), ('m2m', False), ('m2m', True), ('o2o-oo', True)) + \
                         (() if quick else (('o2o-oo', False), ('o2m-r', False))):
            d = Diagram(family='self', rel=kind, pk=pk, cascade=None, symmetric=sym)
            d.ent('Node', pk)
            if sym: d.rel(kind, 'Node', 'peer', 'Node', 'peer')
            else: d.rel(kind, 'Node', 'children', 'Node', 'parent')
            out.append(d.done())
    for kind in ('m2m', 'o2m-r') + (() if quick else ('o2m-o', 'o2o-oo')):
        for pk in ('auto',) + (() if quick else ('comp',)):
            d = Diagram(family='double', rel=kind, pk=pk)
            d.ent('Alpha', pk); d.ent('Beta', pk)
            d.rel(kind, 'Alpha', 'betas', 'Beta', 'alpha', explicit_reverse=True)
            d.rel(kind, 'Alpha', 'others', 'Beta', 'owner', explicit_reverse=True)
            out.append(d.done())
    shapes = ('chain2',) if quick else ('chain2', 'chain3', 'fork', 'diamond')
    feats = ('required-ref-external',) if quick else ('required-ref-external', 'm2m-external', 'optional-unique-str', 'ref-to-root')
    for shape in shapes:
        for fname in feats:
            f = dict(SUB_FEATURES)[fname]
            d = Diagram(family='inherit', shape=shape, discr='default', pk='auto', feature=fname)
            d.ent('Base', 'auto'); d.get('Base')['attrs'].append(attr('title', 'Required', 'str'))
            for n, bases in SHAPES[shape]: d.ent(n, bases=bases)
            if 'external' in fname: d.ent('Ext', 'auto')
            f(d, SHAPES[shape][-1][0] if shape != 'fork' else 'Sub')
            out.append(d.done())
    chains = [('o2m-r', 'm2m', 'comp', 'comprel', 'auto')]
    if not quick: chains += [('o2m-r', 'o2m-r', 'comp', 'comprel', 'comprel'), ('m2m', 'o2m-o', 'auto', 'auto', 'auto'),
                             ('o2o-ro', 'o2o-ro', 'str', 'comprel', 'comprel')]
    for k12, k23, pk1, pk2, pk3 in chains:
        d = Diagram(family='chain3', rel12=k12, rel23=k23, pk1=pk1, pk2=pk2, pk3=pk3)
        d.ent('Alpha', pk1); e2 = d.ent('Beta', pk2); e3 = d.ent('Gamma', pk3)
        d.rel(k12, 'Alpha', 'betas', 'Beta', 'alpha')
        if pk2 == 'comprel': make_comprel(e2, 'alpha')
        d.rel(k23, 'Beta', 'gammas', 'Gamma', 'beta' if k23 != 'm2m' else 'betas')
        if pk3 == 'comprel': make_comprel(e3, 'beta')
        out.append(d.done())
    if not quick:
        d = Diagram(family='cycle3', rel='o2m-o', pk='auto')
        for n in ('Alpha', 'Beta', 'Gamma'): d.ent(n, 'auto')
        d.rel('o2m-o', 'Alpha', 'betas', 'Beta', 'alpha'); d.rel('o2m-o', 'Beta', 'gammas', 'Gamma', 'beta')
        d.rel('o2m-o', 'Gamma', 'alphas', 'Alpha', 'gamma')
        out.append(d.done())
    return out

LENGTHS = (27, 29, 30, 31, 60, 62, 63, 64, 65, 70)

def _long(prefix, n, last):
    """an identifier of length n: fixed head, filler, distinguishing last character"""
    body = (prefix + '_' + 'x' * n)[:n - 1]
    return body + last

def _roots(spec):
    return [e for e in spec['entities'] if not e['bases']]

def _colcount_hint(a):
    return a['opts'].get('columns')

def sided(spec):
    """naming options of relationships x the side(s) that declare them: yield (overlay tag, new spec)"""
    ents = spec['entities']
    # O4 many-to-many options x the side(s) of the relationship that declare them.  'first' / 'second' is the
    # declaration order of the two attributes (for a symmetric attribute: the plain option / its reverse_* twin);
    # the name order (which Pony uses to pick the side it processes) is flipped by the 'swapped' bases.
    if any(a['cls'] == 'Set' and _rev(spec, a)['cls'] == 'Set' for e in ents for a in e['attrs']):
        emitted = set([_key(spec)])
        for variant in M2M_VARIANTS:
            for side in SIDES:
                if side == 'conflict' and variant not in ('table', 'table-qualified', 'columns'): continue
                s = copy.deepcopy(spec); k = 0; seen = set()
                for e in s['entities']:
                    for a in e['attrs']:
                        if a['cls'] != 'Set' or _rev(s, a)['cls'] != 'Set': continue
                        key = tuple(sorted([(e['name'], a['name']), tuple(a['rev'])]))
                        first = key not in seen; seen.add(key)
                        if first: k += 1
                        sym = a['rev'] == [e['name'], a['name']]
                        mine = side in ('both', 'conflict') or (side == 'first') == first      # this attribute declares the option
                        plain = mine if not sym else side != 'second'                            # symmetric: plain option
                        twin = sym and side != 'first'                                           # symmetric: reverse_* option
                        ab = 'a' if first else 'b'
                        if variant == 'table':
                            if plain: a['opts']['table'] = 'lnk_%d%s' % (k, 'x' if side == 'conflict' and not first else '')
                        elif variant == 'table-qualified':
                            if plain: a['opts']['table'] = 'lnk_%d' % k if side == 'conflict' and not first else ['main', 'lnk_%d' % k]
                        elif variant == 'table-clash-entity':
                            if plain: a['opts']['table'] = s['entities'][0]['name']
                        elif variant == 'table-clash-m2m':
                            if plain: a['opts']['table'] = 'lnk'
                        elif variant == 'columns':
                            if plain: a['opts']['columns'] = ['__cols__', 'm%d%s' % (k, 'a' if side == 'conflict' else ab)]
                            if twin: a['opts']['reverse_columns'] = ['__cols__', 'm%d%s' % (k, 'a' if side == 'conflict' else 'r')]
                        elif variant == 'fk-names':
                            if plain: a['opts']['fk_name'] = 'fk_m%d%s' % (k, ab)
                            if twin: a['opts']['reverse_fk_name'] = 'fk_m%dr' % k
                        elif variant == 'index-names':
                            if plain: a['opts']['index'] = 'ix_m%d%s' % (k, ab)
                            if twin: a['opts']['reverse_index'] = 'ix_m%dr' % k
                if variant == 'table-clash-m2m' and k < 2: continue
                if _key(s) in emitted: continue          # nothing declared / same as another side choice
                emitted.add(_key(s))
                yield dict(overlay='m2m', variant=variant, side=side), s
    # O5 column / fk_name / index name on to-one attributes x the side(s) that declare them
    if any(a['rel'] and a['cls'] != 'Set' for e in ents for a in e['attrs']):
        emitted = set([_key(spec)])
        for variant in ('fk-name', 'index-name', 'same-fk-name-twice', 'column'):
            for side in ('both', 'first', 'second'):
                if variant == 'same-fk-name-twice' and side != 'both': continue
                if variant == 'column' and side == 'both': continue          # = overlay 'column'
                s = copy.deepcopy(spec); k = 0; seen = set()
                for e in s['entities']:
                    for a in e['attrs']:
                        if not a['rel']: continue
                        key = tuple(sorted([(e['name'], a['name']), tuple(a['rev'])]))
                        first = key not in seen; seen.add(key)
                        if a['cls'] == 'Set': continue
                        k += 1
                        if side != 'both' and (side == 'first') != first: continue
                        if variant == 'fk-name': a['opts']['fk_name'] = 'fk_c%d' % k
                        elif variant == 'same-fk-name-twice': a['opts']['fk_name'] = 'fk_same'
                        elif variant == 'index-name': a['opts']['index'] = 'ix_c%d' % k
                        else: a['opts']['columns'] = ['__cols__', 'c%d' % k]
                if _key(s) in emitted: continue
                emitted.add(_key(s))
                yield dict(overlay='to-one-names', variant=variant, side=side), s

def flip_names(spec):
    """the same diagram with names chosen so that the alphabetical order of the two sides of every relationship is
    the reverse of their declaration order (entities: ZAlpha > YBeta > ...; self-references: zchildren > parent)"""
    names = [e['name'] for e in spec['entities']]
    s = spec; changed = False
    if len(names) > 1:
        for i, n in enumerate(names): s = rename_entity(s, n, chr(ord('Z') - i) + n)
        changed = True
    for e in list(s['entities']):
        for a in e['attrs']:
            if a['rel'] and a['type'] == e['name'] and a['rev'][1] != a['name']:
                b = _rev(s, a)
                first = [x['name'] for x in e['attrs'] if x['name'] in (a['name'], b['name'])][0]
                second = b['name'] if first == a['name'] else a['name']
                if first < second:
                    s = rename_attr(s, e['name'], first, 'z' + first); changed = True
                    break
    return s if changed else None

def overlays(spec, quick):
    """yield (overlay tag, new spec) for one structural diagram"""
    ents = spec['entities']
    names = [e['name'] for e in ents]
    # O1/O2 explicit table names
    for variant in ('plain', 'qualified', 'mixed-qualified', 'case-only', 'same'):
        s = copy.deepcopy(spec)
        for i, e in enumerate(_roots(s)):
            if variant == 'plain': e['table'] = 'tbl_%d' % i
            elif variant == 'qualified': e['table'] = ['main', 'tbl_%d' % i]
            elif variant == 'mixed-qualified': e['table'] = ['main', 'tbl_%d' % i] if i == 0 else None
            elif variant == 'case-only': e['table'] = 'Tbl' if i == 0 else 'TBL'
            elif variant == 'same': e['table'] = 'tbl'
        if variant in ('case-only', 'same') and len(_roots(s)) < 2: continue
        yield dict(overlay='_table_', variant=variant), s
    # O3 explicit column names on every attribute that can have columns
    for variant in ('distinct', 'case-only', 'clash-with-default'):
        s = copy.deepcopy(spec); n = 0
        for e in s['entities']:
            for a in e['attrs']:
                if a['cls'] == 'Set': continue
                n += 1
                if variant == 'distinct': nm = 'c%d' % n
                elif variant == 'case-only': nm = 'Col' if n % 2 else 'COL'
                else: nm = 'id' if n == 1 else 'c%d' % n
                a['opts']['columns'] = ['__cols__', nm]       # resolved by resolve_columns() once widths are known
        yield dict(overlay='column', variant=variant), s
    # O4/O5 options of relationships x declaring side(s), also with the name order of the two sides flipped
    for otag, s in sided(spec): yield otag, s
    flipped = flip_names(spec)
    if flipped is not None:
        for otag, s in sided(flipped):
            if quick and otag.get('side') == 'both': continue
            yield dict(otag, names='swapped'), s
    # O6 long / case-only entity names
    for L in (LENGTHS if not quick else (29, 30, 31, 62, 63, 64, 65)):
        s = spec
        for i, n in enumerate(names):
            s = rename_entity(s, n, _long('E' + n, L, 'abcdefgh'[i]))
        yield dict(overlay='long-entity-names', variant=L), s
    if len(names) >= 2:
        s = rename_entity(rename_entity(spec, names[0], 'Item'), names[1], 'ITEM')
        yield dict(overlay='entity-names', variant='case-only'), s
    # O7 long / case-only attribute names: every attribute of every entity
    for L in (LENGTHS if not quick else (29, 30, 31, 62, 63, 64, 65)):
        s = spec
        for e in ents:
            for j, a in enumerate(e['attrs']):
                s = rename_attr(s, e['name'], a['name'], _long('a' + a['name'], L, 'abcdefghij'[j]))
        yield dict(overlay='long-attr-names', variant=L), s
    for e in ents:
        scal = [a for a in e['attrs'] if a['cls'] != 'Set']
        if len(scal) >= 2:
            s = rename_attr(rename_attr(spec, e['name'], scal[-1]['name'], 'Val'), e['name'], scal[-2]['name'], 'VAL')
            yield dict(overlay='attr-names', variant='case-only'), s
            break
    # O9 names that clash with names Pony derives
    if len(names) >= 2:
        for variant, new in (('entity-named-like-sequence', names[0] + '_SEQ'), ('entity-named-like-trigger', names[0] + '_BI'),
                             ('entity-named-like-m2m-table', names[0] + '_' + names[1]),
                             ('entity-named-like-index', 'idx_' + names[0].lower())):
            if variant == 'entity-named-like-m2m-table' and len(names) < 3: continue
            s = rename_entity(spec, names[-1], new)
            yield dict(overlay='derived-name-clash', variant=variant), s
    for e in ents:
        rels = [a for a in e['attrs'] if a['rel'] and a['cls'] != 'Set']
        if rels:
            tgt = ent_by_name(spec)[rels[0]['type']]
            pkcols = tgt['pk'] or ['id']
            s = copy.deepcopy(spec)
            ent_by_name(s)[e['name']]['attrs'].append(attr('%s_%s' % (rels[0]['name'], pkcols[0]), 'Optional', 'int'))
            yield dict(overlay='derived-name-clash', variant='attr-named-like-composite-fk-column'), s
            break
    if any(e['bases'] for e in ents):
        s = copy.deepcopy(spec)
        [e for e in s['entities'] if e['bases']][0]['attrs'].append(attr('classtype', 'Optional', 'str'))
        yield dict(overlay='derived-name-clash', variant='attr-named-classtype'), s
    # O10 sequence_name (Oracle) on explicit auto pk
    s = copy.deepcopy(spec); changed = False
    for e in _roots(s):
        if not e['pk'] and not any(a['cls'] == 'PrimaryKey' for a in e['attrs']):
            e['attrs'].insert(0, attr('id', 'PrimaryKey', 'int', auto=True, sequence_name='my_seq')); changed = True
    if changed: yield dict(overlay='sequence_name', variant='same-for-all'), s

M2M_VARIANTS = ('table', 'table-qualified', 'table-clash-entity', 'table-clash-m2m', 'columns', 'fk-names', 'index-names')
SIDES = ('both', 'first', 'second', 'conflict')

def _key(spec):
    import json
    return json.dumps(spec['entities'], sort_keys=True)

def _rev(spec, a):
    e = ent_by_name(spec)[a['rev'][0]]
    for b in e['attrs']:
        if b['name'] == a['rev'][1]: return b
    raise KeyError(a['rev'])

def pk_width(spec, ename):
    """number of columns of the primary key of the hierarchy root of `ename`"""
    ents = ent_by_name(spec)
    e = ents[root_of(spec, ename)]
    if e['pk']: pk_attrs = [a for n in e['pk'] for a in e['attrs'] if a['name'] == n]
    else: pk_attrs = [a for a in e['attrs'] if a['cls'] == 'PrimaryKey']
    if not pk_attrs: return 1
    w = 0
    for a in pk_attrs:
        w += pk_width(spec, a['type']) if a['rel'] else 1
    return w

def resolve_columns(spec):
    """replace ['__cols__', stem] markers by column=stem or columns=[stem_1, ...] of the right width"""
    for e in spec['entities']:
        for a in e['attrs']:
            for key, single in (('columns', 'column'), ('reverse_columns', 'reverse_column')):
                v = a['opts'].get(key)
                if isinstance(v, list) and v and v[0] == '__cols__':
                    stem = v[1]
                    if a['cls'] == 'Set': w = pk_width(spec, a['type'])
                    else: w = pk_width(spec, a['type']) if a['rel'] else 1
                    if a['cls'] == 'Set' and key == 'columns' and _rev(spec, a)['cls'] != 'Set':
                        del a['opts'][key]; continue
                    del a['opts'][key]
                    if w == 1: a['opts'][single] = stem
                    else: a['opts'][key] = ['%s_%d' % (stem, i + 1) for i in range(w)]
    return spec

def all_diagrams(quick):
    n = 0
    for spec in base_diagrams(quick):
        yield resolve_columns(spec)
    for base in overlay_bases(quick):
        for otag, s in overlays(base, quick):
            s = copy.deepcopy(s)
            s['tag'] = dict(s['tag'], **otag)
            yield resolve_columns(s)
