"""C22 Concurrent threads do not interfere through shared process state.

Part 1 - schedule exploration (vf/props/_c22_sched.py): two (thorough: also three) real OS threads run
queries built to SHARE the keys of Pony's process-wide caches (same generator / lambda code objects with
different slice bounds and getattr names - the `fixed_param_values` path that invalidates a cached
translator -, same query strings, same raw SQL with $parameters, hybrid methods). A thread switch can be
forced before every line of Query._get_translator, decompile, create_extractors, string2ast, adapt_sql,
parse_raw_sql, before the cache get/store lines of Query.__init__/_order_by/_process_lambda/
_apply_kwargs/_construct_sql_and_arguments/delete and before statement-level driver calls. All schedules
up to the preemption bound are executed, each from fresh caches, fresh rows and fresh per-thread
connections. Oracle: every thread's results and exceptions equal those of the same program running
alone after the same prelude.

Part 2 - sequential cross-session matrix: every use of an object that belongs to another thread's LIVE
db_session must raise (TransactionError or another error), never succeed silently - for three states of the
using thread's own session (it has loaded objects of its own / the foreign object is its very first access /
it has only run a query without objects).

Part 3 - the same programs run free (no scheduler, 4 threads x 200 iterations): a smoke pass that only
exists to crash loudly on unsynchronised dictionary mutation. It decides nothing.
"""
import os, sys, time, threading, hashlib, json
from vf import core

LEVEL = 'model_checking'

# name, prelude (run before, unscheduled, in its own thread), one program per thread, kind
# kind 'stale': a translator that both threads must invalidate (or one reuses, one invalidates) is cached
# kind 'cold' : both threads start from empty caches and race to fill the same keys
def _S(name, kind, prelude, *threads):
    return dict(name=name, kind=kind, prelude=prelude, threads=list(threads),
                writes=any(step[0] == 'q_delete' for prog in threads for step in prog))

SCENARIOS = [
    _S('slice-both-stale', 'stale', [['q_slice', 0, 2]], [['q_slice', 1, 3]], [['q_slice', 0, 3]]),
    _S('slice-one-stale', 'stale', [['q_slice', 0, 2]], [['q_slice', 0, 2]], [['q_slice', 1, 3]]),
    _S('getattr-both-stale', 'stale', [['q_getattr', 'name']], [['q_getattr', 'nick']], [['q_getattr', 'age']]),
    _S('getattr-one-stale', 'stale', [['q_getattr', 'age']], [['q_getattr', 'score']], [['q_getattr', 'age']]),
    _S('filter-slice-stale', 'stale', [['q_filter_slice', 0, 1, 'a']], [['q_filter_slice', 0, 2, 'be']], [['q_filter_slice', 1, 3, 'le']]),
    _S('where-getattr-stale', 'stale', [['q_where_getattr', 'age', 35]], [['q_where_getattr', 'score', 70]], [['q_where_getattr', 'age', 41]]),
    _S('hybrid-slice-stale', 'stale', [['q_hybrid_slice', 0, 2, 30]], [['q_hybrid_slice', 1, 3, 30]], [['q_hybrid_slice', 0, 3, 40]]),
    _S('slice-cold', 'cold', [], [['q_slice', 0, 2]], [['q_slice', 1, 3]]),
    _S('getattr-cold', 'cold', [], [['q_getattr', 'name']], [['q_getattr', 'age']]),
    _S('hybrid-slice-cold', 'cold', [], [['q_hybrid_slice', 0, 2, 30]], [['q_hybrid_slice', 1, 3, 40]]),
    _S('string-cold', 'cold', [], [['q_string', 30]], [['q_string', 40]]),
    _S('string-vartypes', 'cold', [], [['q_string', 30]], [['q_string', 'zz']]),
    _S('string-lambda-cold', 'cold', [], [['q_string_lambda', 30]], [['q_string_lambda', 20]]),
    _S('db-select-cold', 'cold', [], [['q_db_select', 30]], [['q_db_select', 40]]),
    _S('by-sql-cold', 'cold', [], [['q_by_sql', 35]], [['q_by_sql', 20]]),
    _S('raw-sql-cold', 'cold', [], [['q_raw_sql', 30]], [['q_raw_sql2', 30, 40]]),
    _S('raw-sql-same', 'cold', [], [['q_raw_sql2', 20, 30]], [['q_raw_sql2', 30, 40]]),
    _S('hybrid-cold', 'cold', [], [['q_hybrid', 30]], [['q_hybrid', 40.5]]),
    _S('hybrid-global-cold', 'cold', [], [['q_hybrid_global']], [['q_hybrid_global']]),
    _S('kwargs-cold', 'cold', [], [['q_kwargs', 35]], [['q_kwargs_noorder', 70]]),
    _S('order-count-cold', 'cold', [], [['q_order_numbers', 50]], [['q_count', 30]]),
    _S('page-cold', 'cold', [], [['q_page', 0, 2]], [['q_page', 1, 3]]),
    _S('delete-cold', 'cold', [], [['q_delete', 0, 1]], [['q_delete', 1, 2]]),
    _S('collection-cold', 'cold', [], [['q_collection', 1, 30]], [['q_collection', 2, 40]]),
]
# three threads (thorough)
SCENARIOS3 = [
    _S('slice-3-stale', 'stale', [['q_slice', 0, 2]], [['q_slice', 1, 3]], [['q_slice', 0, 3]], [['q_slice', 2, 4]]),
    _S('getattr-3-stale', 'stale', [['q_getattr', 'name']], [['q_getattr', 'nick']], [['q_getattr', 'age']], [['q_getattr', 'score']]),
    _S('filter-slice-3-stale', 'stale', [['q_filter_slice', 0, 1, 'a']], [['q_filter_slice', 0, 2, 'be']], [['q_filter_slice', 1, 3, 'le']], [['q_filter_slice', 0, 1, 'a']]),
    _S('mixed-3-cold', 'cold', [], [['q_string', 30]], [['q_string', 40]], [['q_string_lambda', 30]]),
    _S('raw-3-cold', 'cold', [], [['q_db_select', 30]], [['q_db_select', 40]], [['q_by_sql', 35]]),
]

QUICK_BOUND2 = ('slice-both-stale', 'slice-one-stale', 'getattr-both-stale', 'filter-slice-stale')
THOROUGH_BOUND3 = ('slice-both-stale', 'getattr-both-stale')
THOROUGH_BOUND1 = ('collection-cold',)
THOROUGH_3T_BOUND2 = ('slice-3-stale',)

def bounds(tier, sc):
    """preemption bound per scenario and tier"""
    name, n = sc['name'], len(sc['threads'])
    if tier == 'quick': return 2 if name in QUICK_BOUND2 else 1
    if n == 3: return 2 if name in THOROUGH_3T_BOUND2 else 1
    if name in THOROUGH_BOUND3: return 3
    return 1 if name in THOROUGH_BOUND1 else 2

def scenario_by_name(name):
    for sc in SCENARIOS + SCENARIOS3:
        if sc['name'] == name: return sc
    raise KeyError(name)

# ---- one execution ------------------------------------------------------------------------------
def run_prelude(w, prelude):
    """warm the caches: run in the scheduler thread (never scheduled, its connection is kept)"""
    if not prelude: return None
    from vf.props import _c22_world as W
    return W.run_program(w, prelude)

def execute(w, sc, choices, only=None):
    """fresh caches, fresh rows, prelude, then the scenario's threads (or only thread `only`) under
    the scheduler"""
    from vf.props import _c22_sched as S, _c22_world as W
    W.reset(w, rows=sc.get('writes', False))
    run_prelude(w, sc['prelude'])
    progs = sc['threads'] if only is None else [sc['threads'][only]]
    bodies = [(lambda i, prog=prog: W.run_program(w, prog)) for prog in progs]
    return S.Execution(bodies, choices, w.points, w.locks, finalizer=lambda i: w.db.disconnect()).run()

def outcome(ex):
    return [ex.status, ex.results, ex.errors]

def compare(sc, ex, ref):
    """-> list of (signature, message); ref[i] = (results, labels) of thread i running alone"""
    out = []
    if ex.status != 'ok':
        return [('deadlock|%s' % sc['name'], 'no enabled thread: %r' % (ex.trace[-6:],))]
    for i, prog in enumerate(sc['threads']):
        if ex.errors[i] is not None:
            out.append(('thread-error|%s' % ex.errors[i].split(':')[0], 'thread %d: %s' % (i, ex.errors[i])))
            continue
        for step, got, exp in zip(prog, ex.results[i], ref[i][0]):
            if got == exp: continue
            if got[0] == 'exc' and exp[0] == 'ok':
                out.append(('spurious-exception|%s|%s' % (got[1], got[2]),
                            'thread %d step %r alone -> %r, scheduled -> %s at %s' % (i, step, exp[1], got[1], got[2])))
            elif got[0] == 'ok' and exp[0] == 'exc':
                out.append(('lost-exception|%s|%s' % (exp[1], step[0]),
                            'thread %d step %r alone raises %s, scheduled -> %r' % (i, step, exp[1], got[1])))
            elif got[0] == 'exc':
                out.append(('other-exception|%s|%s' % (got[1], got[2]),
                            'thread %d step %r alone raises %s, scheduled raises %s at %s' % (i, step, exp[1], got[1], got[2])))
            else:
                out.append(('wrong-result|%s|%s' % (step[0], sc['name']),
                            'thread %d step %r alone -> %r, scheduled -> %r' % (i, step, exp[1], got[1])))
    return out

def switch_summary(ex):
    """where the running thread changed: [(decision index, from thread, label it stood at, to thread)]"""
    out, cur = [], None
    for k, (enabled, c, pre, cc) in enumerate(ex.decisions):
        nxt = enabled[c]
        if cur is not None and nxt != cur:
            out.append([k, cur, ex.trace[k - 1][1] if k else None, nxt])
        cur = nxt
    return out

_REFS = {}
def references(w, sc):
    if sc['name'] in _REFS: return _REFS[sc['name']]
    ref = []
    for i in range(len(sc['threads'])):
        ex = execute(w, sc, [], only=i)
        again = execute(w, sc, [], only=i)
        if ex.trace != again.trace or outcome(ex) != outcome(again):
            raise core.HarnessError('C22: thread %d of %s is not deterministic when running alone' % (i, sc['name']))
        if ex.status != 'ok' or ex.errors[0] is not None:
            raise core.HarnessError('C22: reference run of %s thread %d failed: %r %r' % (sc['name'], i, ex.status, ex.errors))
        ref.append((ex.results[0], ex.thread_labels(0)))
    _REFS[sc['name']] = ref
    return ref

class Visitor(object):
    def __init__(self, w, sc):
        self.w, self.sc, self.sub = w, sc, core.Sub()
        self.ref = references(w, sc)
        self.inval = invalidation_labels(w)
        self.outcomes = set()
        self.stats = dict(switch_exec=0, path_diff=0, both_inval=0, points=0)
    def __call__(self, ex):
        sub, sc, ref, stats = self.sub, self.sc, self.ref, self.stats
        stats['points'] = max(stats['points'], len(ex.trace))
        if ex.switch_in:
            stats['switch_exec'] += 1
            for fn, n in ex.switch_in.items(): sub.count('switches_inside_' + fn, n)
        labels = [ex.thread_labels(i) for i in range(ex.n)]
        if any(labels[i] != ref[i][1] for i in range(ex.n)): stats['path_diff'] += 1
        if sum(1 for l in labels if self.inval.intersection(l)) >= 2: stats['both_inval'] += 1
        self.outcomes.add(hashlib.sha1(json.dumps(outcome(ex), sort_keys=True, default=repr).encode()).hexdigest()[:12])
        for sig, msg in compare(sc, ex, ref):
            first = sig not in sub.found
            case = dict(scenario=sc['name'], choices=ex.taken(), preemptions=ex.preemptions(), switches=switch_summary(ex),
                        results=ex.results, alone=[r for r, _ in ref], signature=sig)
            sub.violation(sig, case, msg)
            if first:      # re-execute from the recorded choice list, twice
                identical, violating = 0, 0
                for _ in range(2):
                    again = execute(self.w, sc, ex.taken())
                    if again.trace == ex.trace and outcome(again) == outcome(ex): identical += 1
                    if compare(sc, again, ref): violating += 1
                if identical == 2: sub.count('violations_replayed_identically')
                elif violating:
                    # same schedule, another failing outcome: the code under test iterates over sets of
                    # objects hashed by address (e.g. PreTranslator.externals), which no scheduler controls
                    sub.count('violations_whose_outcome_varies_between_replays')
                else:
                    raise core.HarnessError('C22: violation %s did not reproduce from its choice list' % sig)
    def result(self, exp, t0, c0, **extra):
        self.sub.count('replayed_prefixes_identical_to_parent_execution', exp.prefix_checks)
        return dict(sub=self.sub.dump(), name=self.sc['name'], executions=exp.executions, edges=exp.edges,
                    by_pre=exp.by_preemptions, outcomes=sorted(self.outcomes), stats=self.stats,
                    wall=time.time() - t0, cpu=time.process_time() - c0, **extra)

def expand(args):
    """pmap worker, phase 1: the executions that start with each thread (no further choice), and the
    list of their children = disjoint subtrees to be explored in phase 2"""
    name, bound = args
    from vf.props import _c22_sched as S, _c22_world as W
    t0, c0 = time.time(), time.process_time()
    w = W.world()
    sc = scenario_by_name(name)
    v = Visitor(w, sc)
    for r, _ in v.ref:
        for step in r: v.sub.count('reference_steps_' + step[0])
    exp = S.Explorer(lambda choices: execute(w, sc, choices), bound)
    children = []
    for first in range(len(sc['threads'])):
        children += exp.expand([first], v)
    v.sub.sample(dict(scenario=name, prelude=sc['prelude'], threads=sc['threads'], bound=bound,
                      alone_results=[r for r, _ in v.ref], alone_trace_lengths=[len(l) for _, l in v.ref]))
    return v.result(exp, t0, c0, children=children, described=w.points.described)

def explore(args):
    """pmap worker, phase 2: complete exploration of the subtrees of `items`"""
    name, bound, items = args
    from vf.props import _c22_sched as S, _c22_world as W
    t0, c0 = time.time(), time.process_time()
    w = W.world()
    sc = scenario_by_name(name)
    v = Visitor(w, sc)
    exp = S.Explorer(lambda choices: execute(w, sc, choices), bound)
    exp.run(v, [tuple(it) for it in items])
    return v.result(exp, t0, c0)

def invalidation_labels(w):
    """labels of the line(s) of Query._get_translator that drop a stale translator"""
    import inspect, re
    code = w.pcore.Query._get_translator.__code__
    src, first = inspect.getsourcelines(code)
    out = set('Query._get_translator+%d' % i for i, text in enumerate(src)
              if re.search(r'del\s+.*_translator_cache|_translator_cache\.pop', text))
    if not out: raise core.HarnessError('C22: cannot find the line of Query._get_translator that drops a stale translator')
    return out

# ---- part 2: cross-session matrix ----------------------------------------------------------------
MATRIX_OPS = ('assign-to-one', 'create-with-foreign', 'add-to-collection', 'remove-from-collection', 'in-collection',
              'load-lazy-attr', 'load-collection', 'set', 'delete', 'query-parameter', 'kwargs-filter', 'get-by-foreign',
              'modify-foreign', 'flush-foreign', 'foreign-collection-add')

# state of thread B's own db_session when it touches the foreign object: 'warm' = it has loaded objects of its own,
# 'cold' = the foreign object is its very first database access (no session cache for the Database yet),
# 'after-query' = it has only run a query that returned no object
B_STATES = ('warm', 'cold', 'after-query')
B_STATE_TEXT = {'cold': 'first access of its session', 'after-query': 'first object access after a query without objects'}

class LazyMine(dict):
    def __init__(self, w): dict.__init__(self); self.w = w
    def __missing__(self, k):
        v = self[k] = self.w.Person[1] if k == 'person' else self.w.Grp[1]
        return v

def matrix_op(w, op, mine, foreign):
    """run in thread B inside B's own db_session. mine: B's objects, foreign: objects of A's live session"""
    P, G, orm = w.Person, w.Grp, w.orm
    fp, fg, fg_unloaded = foreign['person'], foreign['grp'], foreign['grp_unloaded']
    if op == 'assign-to-one': mine['person'].grp = fg; return 'assigned'
    if op == 'create-with-foreign': P(name='new', nick='n', age=1, score=1, grp=fg); orm.flush(); return 'created'
    if op == 'add-to-collection': mine['grp'].people.add(fp); return 'added'
    if op == 'remove-from-collection': mine['grp'].people.remove(fp); return 'removed'
    if op == 'in-collection': return 'in -> %r' % (fp in mine['grp'].people)
    if op == 'load-lazy-attr': return 'loaded %r' % (fg_unloaded.name,)
    if op == 'load-collection': return 'loaded %d items' % len(fg.people)
    if op == 'set': fp.set(age=99); return 'set'
    if op == 'delete': fp.delete(); return 'deleted'
    if op == 'query-parameter': return 'query -> %r' % (sorted(orm.select(p.id for p in P if p.grp == fg)),)
    if op == 'kwargs-filter': return 'filter -> %r' % (sorted(p.id for p in P.select().filter(grp=fg)),)
    if op == 'get-by-foreign': return 'get -> %r' % (P.get(id=1, grp=fg),)
    if op == 'modify-foreign': fp.age = 98; return 'modified'
    if op == 'flush-foreign': foreign['person_modified'].flush(); return 'flushed an object modified by thread A'
    if op == 'foreign-collection-add': fg.people.add(mine['person']); return 'added'
    raise AssertionError(op)

def matrix(args):
    """pmap worker. Thread A opens a session and keeps it open; thread B opens its own session and uses
    A's objects; strictly sequential hand-over with events (no scheduler)."""
    from vf.props import _c22_world as W
    sub = core.Sub()
    w = W.world()
    for op in MATRIX_OPS:
        silent = {}
        for b_state in B_STATES:
            r = matrix_case(w, op, b_state)
            sub.count('matrix_cases')
            sub.count('matrix_' + r[0])
            if r[0] == 'refused':
                sub.count('matrix_refused_with_' + r[1])
            elif r[0] == 'silent': silent[b_state] = r[1]
            else:
                raise core.HarnessError('C22 matrix %s (%s): %r' % (op, b_state, r))
        if 'warm' in silent:
            sub.violation('cross-session|%s|succeeded' % op, dict(matrix_op=op, b_state='warm', result=silent['warm']),
                          'thread B used an object of thread A\'s live session (%s) and nothing was raised: %s' % (op, silent['warm']))
        elif silent:
            st = sorted(silent)[0]
            sub.violation('cross-session|%s|succeeded-only-when-%s' % (op, st), dict(matrix_op=op, b_state=st, result=silent[st]),
                          'thread B used an object of thread A\'s live session (%s) as the %s and nothing was raised (a session '
                          'that had already loaded its own objects is refused): %s' % (op, B_STATE_TEXT[st], silent[st]))
    sub.sample(dict(matrix_ops=list(MATRIX_OPS)))
    return dict(sub=sub.dump())

def matrix_case(w, op, b_state='warm'):
    from vf.props import _c22_world as W
    W.reset(w)
    foreign, a_ready, b_done, res = {}, threading.Event(), threading.Event(), {}
    def thread_a():
        try:
            with w.orm.db_session:
                foreign['person'] = w.Person[5]
                foreign['grp'] = w.Grp[2]
                foreign['grp_unloaded'] = w.Person[1].grp          # Grp[1]: known pk, attributes not loaded
                foreign['person_modified'] = w.Person[4]
                foreign['person_modified'].age = 50                # pending change of thread A
                a_ready.set()
                b_done.wait(60)
                w.orm.rollback()
        except BaseException as e:
            res['a_error'] = '%s: %s' % (type(e).__name__, e)
        finally:
            a_ready.set()
            w.db.disconnect()
    def thread_b():
        a_ready.wait(60)
        try:
            if 'a_error' in res: return
            try:
                with w.orm.db_session:
                    if b_state == 'warm': mine = dict(person=w.Person[1], grp=w.Grp[1])
                    else:
                        mine = LazyMine(w)        # own objects are fetched only when the operation names them
                        if b_state == 'after-query': w.orm.select(p.id for p in w.Person if p.id < 0)[:]
                    try:
                        res['b'] = ('silent', matrix_op(w, op, mine, foreign))
                    except Exception as e:
                        res['b'] = ('refused', type(e).__name__, str(e)[:200])
                    w.orm.rollback()
            except Exception as e:
                res.setdefault('b', ('refused', type(e).__name__, str(e)[:200]))
        finally:
            b_done.set()
            w.db.disconnect()
    ta, tb = threading.Thread(target=thread_a, daemon=True), threading.Thread(target=thread_b, daemon=True)
    ta.start(); tb.start(); tb.join(120); ta.join(120)
    if ta.is_alive() or tb.is_alive(): return ('harness', 'matrix thread hung')
    if 'a_error' in res: return ('harness', res['a_error'])
    return res.get('b', ('harness', 'no result'))

# ---- part 3: free-running smoke pass ---------------------------------------------------------------
def smoke(args):
    """4 free threads x 200 iterations over all programs. Decides nothing: only counted."""
    from vf.props import _c22_world as W
    sub = core.Sub()
    w = W.world()
    W.reset(w)
    progs = []
    for sc in SCENARIOS:
        if sc['name'] == 'delete-cold': continue          # the only writer: its result depends on the other threads by design
        for p in ([sc['prelude']] if sc['prelude'] else []) + sc['threads']:
            if p not in progs: progs.append(p)
    alone = {}
    for p in progs:
        alone[json.dumps(p)] = W.run_program(w, p)
    w.db.disconnect()
    counts = {}
    lock = threading.Lock()
    def body(k):
        local = {}
        try:
            for it in range(200):
                p = progs[(it * 7 + k * 3) % len(progs)]
                r = W.run_program(w, p)
                for step in r:
                    key = 'smoke_steps_ok' if step[0] == 'ok' else 'smoke_exc_%s' % step[1]
                    local[key] = local.get(key, 0) + 1
                if r != alone[json.dumps(p)]: local['smoke_programs_differing_from_alone'] = local.get('smoke_programs_differing_from_alone', 0) + 1
        except BaseException as e:
            local['smoke_thread_died_%s' % type(e).__name__] = 1
        finally:
            try: w.db.disconnect()
            except Exception: pass
            with lock:
                for key, v in local.items(): counts[key] = counts.get(key, 0) + v
    ts = [threading.Thread(target=body, args=(k,), daemon=True) for k in range(4)]
    for t in ts: t.start()
    for t in ts: t.join(300)
    if any(t.is_alive() for t in ts): raise core.HarnessError('C22 smoke pass: thread hung')
    for k, v in counts.items(): sub.count(k, v)
    sub.count('smoke_iterations', 4 * 200)
    return dict(sub=sub.dump())

# ---- driver ----------------------------------------------------------------------------------------
def job(item):
    kind = item[0]
    if kind == 'expand': return expand(item[1:])
    if kind == 'explore': return explore(item[1:])
    if kind == 'matrix': return matrix(item[1:])
    if kind == 'smoke': return smoke(item[1:])
    raise AssertionError(kind)

def chunks_for(tier, sc, bound):
    if bound <= 1: return 1
    if tier == 'quick': return 4
    return 16 if bound >= 3 or len(sc['threads']) == 3 else 6

def run(ctx):
    scenarios = list(SCENARIOS) + ([] if ctx.quick else list(SCENARIOS3))
    bound = dict((sc['name'], bounds(ctx.tier, sc)) for sc in scenarios)
    agg = dict(executions=0, edges=0, switch_exec=0, path_diff=0, both_inval=0, cpu=0.0)
    per, by_pre, described, outcomes = {}, {}, None, {}
    def take(r):
        core.absorb(ctx, r['sub'])
        if 'executions' not in r: return
        agg['executions'] += r['executions']; agg['edges'] += r['edges']; agg['cpu'] += r['cpu']
        for k in ('switch_exec', 'path_diff', 'both_inval'): agg[k] += r['stats'][k]
        p = per.setdefault(r['name'], dict(executions=0, bound=bound[r['name']], cpu_s=0.0, longest_trace=0))
        p['executions'] += r['executions']; p['cpu_s'] = round(p['cpu_s'] + r['cpu'], 2)
        p['longest_trace'] = max(p['longest_trace'], r['stats']['points'])
        outcomes.setdefault(r['name'], set()).update(r['outcomes'])
        for k, v in r['by_pre'].items(): by_pre[int(k)] = by_pre.get(int(k), 0) + v
    # phase 1: matrix, smoke pass, and the first-level executions of every scenario
    items = ctx.shuffled([('matrix',), ('smoke',)] + [('expand', sc['name'], bound[sc['name']]) for sc in scenarios])
    work = []
    for it, r in zip(items, ctx.pmap(job, items)):
        take(r)
        if it[0] != 'expand': continue
        described = r['described']
        sc = scenario_by_name(it[1])
        children = ctx.shuffled(sorted(r['children'], key=lambda c: (c[0], c[1])))
        m = chunks_for(ctx.tier, sc, it[2])
        for j in range(m):
            part = children[j::m]
            if part: work.append(('explore', it[1], it[2], part))
    # phase 2: the subtrees
    work.sort(key=lambda it: -len(it[3]) * (30 ** it[2]))        # biggest first
    for r in ctx.pmap(job, work): take(r)
    for name, p in per.items(): p['distinct_outcomes'] = len(outcomes[name])
    n_out = sum(p['distinct_outcomes'] for p in per.values())
    ctx.cov['per_scenario'] = per
    ctx.cov['executions_by_preemptions'] = dict(sorted(by_pre.items()))
    ctx.cov['scheduling_points'] = described
    ctx.cov['distinct_outcomes'] = n_out
    ctx.cov['cpu_s'] = round(agg['cpu'], 1)
    ctx.cov['bounds'] = dict((name, 'preemption bound %d completed' % p['bound']) for name, p in sorted(per.items()))
    ctx.cov['smoke_pass'] = 'free-running 4 threads x 200 iterations: counted only (smoke_* counters), decides nothing'
    ctx.guard('schedules explored', agg['executions'], 1000)
    ctx.guard('schedules with a thread switch inside a cache function', agg['switch_exec'], 500)
    ctx.guard('schedules in which a thread took another path than alone (saw the other thread\'s cache entries)', agg['path_diff'], 100)
    ctx.guard('schedules in which two threads both reached the stale-translator drop', agg['both_inval'], 10)
    ctx.guard('distinct outcomes', n_out, len(per))
    ctx.guard('cross-session matrix cases refused', ctx.counters.get('matrix_refused', 0), 5)
    ctx.guard('smoke iterations', ctx.counters.get('smoke_iterations', 0), 800)
    ctx.assume('granularity: a thread switch is forced only between source lines of the listed Pony functions '
               '(lines inside loops over thread-local data excepted) and before statement-level driver calls; '
               'races inside a single source line (or inside functions not listed) are not explored')
    ctx.assume('CPython 3.12 with the GIL; SQLite file database; one fresh connection per thread and execution')
    ctx.assume('schedules beyond the completed preemption bound are not covered')
    ctx.assume('iteration order over sets of objects hashed by address inside the code under test (PreTranslator.externals) is not '
               'controlled: a failing schedule whose failing outcome varies between replays is still reported (counter '
               'violations_whose_outcome_varies_between_replays); a violation that no replay reproduces is a harness error')
    return dict(states=agg['edges'] + len(per), transitions=agg['edges'], traces_validated_against_impl=agg['executions'])

def replay(ctx, case):
    from vf.props import _c22_world as W
    w = W.world()
    if 'matrix_op' in case:
        r = matrix_case(w, case['matrix_op'])
        print('matrix %s -> %r' % (case['matrix_op'], r))
        return r[0] == 'refused'
    sc = scenario_by_name(case['scenario'])
    ref = references(w, sc)
    ex = execute(w, sc, case['choices'])
    again = execute(w, sc, case['choices'])
    if again.trace != ex.trace: raise core.HarnessError('C22 replay is not deterministic')
    print('scenario %s prelude %r' % (sc['name'], sc['prelude']))
    for i, prog in enumerate(sc['threads']):
        print(' thread %d %r\n   alone     -> %r\n   scheduled -> %r %s' % (i, prog, ref[i][0], ex.results[i], ex.errors[i] or ''))
    print(' switches (decision, from, standing at, to): %r' % switch_summary(ex))
    bad = compare(sc, ex, ref)
    for sig, msg in bad: print(' %s: %s' % (sig, msg))
    return not bad
