"""C15 Deletion honours cascade rules and leaves no dangling references.

SX monitor. For every explored history whose last operation deletes (obj.delete(), delete(query),
Query.delete(bulk=True)):
  twin A = prefix . view            (the state before the deletion)
  twin B = prefix . DELETE . view   (the state after it)
The view after must equal the declarative *deletion closure* of the view before, computed from the
model declaration only: cascading relationships delete dependents, optional references are cleared,
a required dependent without cascade refuses (an error and NO change). After the following commit the
database has no foreign-key violation, passes integrity_check, and a fresh session sees the closure.
"""
from vf import core
from vf.engines import sx
import copy

LEVEL = 'model_checking'
DELETES = ('delete', 'bulkdel', 'qdel')

class Refuse(Exception): pass

def closure(env, view, victims):
    """expected view after deleting the objects `victims` (labels), or raise Refuse"""
    view = copy.deepcopy(view)
    deleted = set()
    def cascade_of(attr):
        return bool(attr.cascade_delete)       # the declared rule as Pony resolved it at mapping time
    def delete(lbl):
        if lbl in deleted or lbl not in view: return
        deleted.add(lbl)
        vals = view[lbl]
        cls = env.E[vals['__class__']]
        for a in cls._attrs_:
            rev = a.reverse
            if not rev: continue
            v = vals.get(a.name)
            if a.is_collection:
                items = [i for i in (v or []) if i not in deleted]
                if not items: continue
                if rev.is_collection:
                    for i in items:
                        if i in view: view[i][rev.name] = [z for z in view[i][rev.name] if z != lbl]
                elif cascade_of(a):
                    for i in items: delete(i)
                elif not rev.is_required:
                    for i in items:
                        if i in view: view[i][rev.name] = None
                else: raise Refuse(lbl)
            else:
                if v is None or v in deleted: continue
                if rev.is_collection:
                    if v in view: view[v][rev.name] = [z for z in view[v][rev.name] if z != lbl]
                elif cascade_of(a): delete(v)
                elif not rev.is_required:
                    if v in view: view[v][rev.name] = None
                else: raise Refuse(lbl)
    for l in victims: delete(l)
    for l in deleted: view.pop(l, None)
    return view

def victims_of(env, op, view):
    if op[0] == 'delete': return [op[1]] if op[1] in view else []
    root = env.roots[op[1]]
    out = []
    for lbl, vals in sorted(view.items()):
        if not lbl.startswith(root + ':'): continue
        if op[0] == 'qdel' or op[2] == 'all': out.append(lbl)
        else:
            attr, _, val = op[2].partition(' == ')
            if vals.get(attr) == int(val): out.append(lbl)
    return out

def judge(env, fixture, hist):
    """None if fine / not applicable, else (kind, detail)"""
    op = hist[-1]
    a = env.run(list(hist[:-1]) + [('resolve', tuple(sx.operands(op))), ('view',)], fixture, record_sql=False)
    if a.skipped or a.obs[-1][0] != 'ok': return None
    before = a.obs[-1][1]
    from vf.props import c12
    if c12.inconsistencies(env, before): return None      # the state before is already C12's finding
    b = sx.Exec(env, fixture, record_sql=False)
    try:
        b.replay(list(hist[:-1]) + [('resolve', tuple(sx.operands(op)))])
        if b.skipped: return None
        o = b.apply(op)
        if o[0] == 'skip': return None
        died = b.died
        vo = b.apply(('view',)) if not (o[0] == 'exc' and died) else None
        co = b.apply(('end',)) if vo is not None and vo[0] == 'ok' else None
        fk = env.raw.execute('PRAGMA foreign_key_check').fetchall()
        ic = env.raw.execute('PRAGMA integrity_check').fetchall()
        fresh = b.apply(('view',)) if co is not None and co[0] == 'ok' else None
    finally: b.finish()
    try:
        expected = closure(env, before, victims_of(env, op, before)); refused = False
    except Refuse:
        expected = before; refused = True
    if fk: return ('dangling-reference-committed', dict(fk=fk))
    if ic != [('ok',)]: return ('integrity_check', dict(ic=ic))
    if o[0] == 'exc':
        if died: return None                       # implicit flush failed: not this property
        if op[0] != 'delete':
            # delete(query) deletes object by object (earlier deletions stay when a later one is refused)
            # and a bulk delete is executed by the database, which may refuse more than the closure does:
            # the property fixes "error and no change" for deleting *an object* only
            return None
        if not refused and op[0] == 'delete':
            return ('refused-although-closure-allows:' + str(o[1]), dict(before=before))
        if vo is not None and vo[0] == 'ok' and vo[1] != before:
            return ('refused-but-changed', dict(before=before, after=vo[1]))
        return None
    if refused:
        return ('deleted-although-required-dependent-without-cascade', dict(before=before, after=vo))
    if op[0] == 'qdel':
        # the session cache and Python-level cascades are bypassed by design (documented): the property
        # only demands that no reference to a deleted row is committed - judged above (foreign_key_check)
        return None
    if vo is None or vo[0] != 'ok': return None
    if vo[1] != expected: return ('session-view-differs-from-closure', dict(expected=expected, got=vo[1]))
    if fresh is not None and fresh[0] == 'ok' and fresh[1] != expected:
        return ('committed-state-differs-from-closure', dict(expected=expected, got=fresh[1]))
    return None

def worker(args):
    name, tier, seed, fixture = args
    from vf.models import catalog
    sub = core.Sub()
    env = sx.Env(catalog.by_name(name))
    rel = name.split('-')[0] + ('-req' if env.model.opts.get('req') else '') + \
          {None: '', True: '-casc', False: '-nocasc'}[env.model.opts.get('cascade')]
    ex = sx.Explorer(env, fixtures=(fixture,), ops=env.ops() + [r for r in env.shaping_reads() if r[0] in ('r_attr', 'r_citer', 'r_ccount')])
    presigs = {}
    def visit(env_, fx, hist, x):
        op = hist[-1]
        if op[0] not in DELETES: return
        if sx.latent_conflict(fixture, hist): return
        if any(o[0] == 'qdel' for o in hist[:-1]): return       # the cache is stale after a bulk delete, by design
        if len([o for o in hist if o[0] == 'create' and o[2] is None]) >= 2:
            # two pending objects with automatic keys: which of them gets which key depends on the flush order, and this
            # check names rows by key
            sub.count('histories_with_two_pending_automatic_keys_skipped'); return
        sub.count('deletions_judged'); sub.count('deletions:' + op[0])
        r = judge(env, fixture, hist)
        if x.obs[-1][0] == 'exc': sub.count('refusals_seen')
        if r is None: return
        pre = (sx.kinds(hist), r[0])
        if pre in presigs:
            sub.violation(presigs[pre], {}, ''); return
        small = sx.shrink(hist, lambda h: (judge(env, fixture, h) or (None,))[0] == r[0])
        r2 = judge(env, fixture, small) or r
        sig = '%s|%s|%s' % (rel, sx.kinds(small) if 'RecursionError' not in r2[0] else 'ownership-cycle', r2[0])
        presigs[pre] = sig
        sub.violation(sig, dict(model=name, fixture=fixture, history=small, detail=r2[1]), 'after %r: %s' % (small, r2[0]))
    ex.run(1 if tier == 'quick' else 2, visit, order=sx.seeded_order(seed), last_only=lambda op: op[0] in DELETES)
    env.close()
    for s in ex.samples: sub.sample(s)
    return dict(sub=sub.dump(), states=ex.states, transitions=ex.transitions, executions=ex.executions)

def run(ctx):
    agg = sx.run_catalogue(ctx, worker, tier='thorough')        # cascade options live in the full catalogue
    ctx.guard('deletions judged', ctx.counters.get('deletions_judged', 0), 300)
    ctx.guard('refusals seen', ctx.counters.get('refusals_seen', 0), 10)
    ctx.guard('bulk deletes judged', ctx.counters.get('deletions:qdel', 0), 20)
    ctx.cov['per_model'] = agg['per_model']
    ctx.cov['bounds'] = 'every obj.delete() / delete(query) / Query.delete(bulk=True) at the end of every history of depth <= %d from both fixtures, all 21 models (cascade True/False/default x required/optional x every relationship kind)' % (2 if ctx.quick else 3)
    ctx.assume('deletion closure computed from the declaration (attr.cascade_delete, is_required); SQLite enforces foreign keys')
    return dict(states=agg['states'], transitions=agg['transitions'],
                traces_validated_against_impl=agg['executions'] + 2 * ctx.counters.get('deletions_judged', 0))

def replay(ctx, case):
    from vf.models import catalog
    env = sx.Env(catalog.by_name(case['model']))
    hist = [tuple(tuple(x) if isinstance(x, list) else x for x in o) for o in case['history']]
    r = judge(env, case['fixture'], hist)
    print(r)
    env.close()
    return r is None
