"""C26 Generated schemas are well formed and match the entity model.

Bounded-exhaustive enumeration of entity diagrams (vf/props/_c26_space.py): every diagram of up to
three entities (one hierarchy may have four classes) from the option space {relationship kind,
required/optional, primary-key kind incl. composite and composite-containing-a-relationship,
cascade_delete, unique / composite_key / composite_index / index, inheritance chain / fork /
diamond with default / str / int discriminator, nullable, defaults} plus naming overlays
(_table_ incl. schema-qualified, column(s), m2m table / columns / reverse_columns / fk names,
fk_name, index names, entity and attribute names of length 27..70 that differ only in their last
character, names that differ only in case, names that clash with names Pony derives).

Attribute x composite keys / indexes over the same column(s) (space.fam_keymix): a target attribute t out of {plain,
unique, unique Optional str, index=True, index=<name>, unique+index=<name>; reference: Required / Optional many-to-one,
index=True / <name> / False, unique, one-to-one} (references to a single- and to a two-column primary key) x a
composite {composite_key, composite_index, PrimaryKey, key+index in opposite orders} that contains t in {leading,
trailing, middle} position x declared in {the entity of t, a subclass together with an attribute of the subclass
(composite_key(Base.t, x)), a subclass over inherited attributes only} x holder primary key {auto, composite}
(quick: leading / trailing, key / index / PrimaryKey, auto primary key).
Oracle on index COLUMN LISTS (all families, entity tables and link tables): every foreign key not declared
index=False is the leading part of an index, a unique constraint or the primary key of its table (fk-index-missing:
also for both foreign keys of every many-to-many link table); every unique constraint is over exactly the columns of
a unique attribute, a one-to-one reference, a composite_key or the primary key (unique-unexplained); every non-unique
index is over exactly the columns of an attribute with index=, a reference, a composite_index or one side of a link
table (index-unexplained); no two indexes over the same column list (index-declared-twice); a unique attribute keeps
its unique constraint whatever other index contains its column (unique-missing).

Options of a relationship x declaring side (space.sided): every option that either attribute of a
relationship may carry - many-to-many: table, schema-qualified table, table equal to an entity's
table, table equal to another m2m's table, column(s) (+reverse_column(s)), fk_name (+reverse_fk_name),
index name (+reverse_index); to-one: column(s), fk_name, index name - is declared on {both sides, only
the first-declared side, only the second-declared side, both sides with conflicting values (table:
two names, qualified vs. plain; columns: the same names on both sides)}, for every relationship of
the overlay bases (pair, self-referencing, symmetric, two relationships between one pair, chain,
inheritance), each base also with entity / attribute names flipped so that the alphabetical order
of the two sides (which decides the side Pony processes) is the reverse of the declaration order
(quick: flipped names only for the one-sided and conflicting declarations).
Oracle for them: an accepted diagram uses exactly the declared name - the m2m table is the declared
one on whichever side it was written (table-name-ignored), is not shared with an entity or another
m2m (table-shared), conflicting declarations therefore cannot be accepted; declared link columns are
the columns that reference the Set's target, fk_name names the foreign key over them, index= names
the index over the columns that reference the declaring entity (when such an index exists);
to-one: a declared column is held by the declaring attribute (also when Pony would otherwise put
the column on the other side of a one-to-one), fk_name declared on either side names the foreign key.
Not judged: index= on the column-less side of a one-to-one, index= for link columns that need no
index of their own (prefix of the link table's primary key).

Each diagram is rendered to class statements and given to a fresh Database on four dialects:
  sqlite    real engine: generate_mapping(create_tables=True) on a file in /dev/shm, catalog
            introspection (PRAGMA table_info / index_list / index_info / foreign_key_list,
            sqlite_master) compared with the model; a second Database over the same file passes
            generate_mapping(check_tables=True); every entity can be selected; creation order
            respects references (modulo reference cycles)
  postgres / mysql / oracle   real provider + schema classes on stub drivers: generate_mapping()
            then schema.generate_create_script(), parsed; the same model comparison, plus: names
            Pony derived are within max_name_len and distinct inside the dialect's namespaces
            (case-folded where the dialect folds), every column declared once, FK column types equal
            the referenced primary-key column types, statements only refer to tables created before.
Any exception while the classes are defined, in generate_mapping or while the script is generated is
a refusal (allowed, counted). Names written by the user (explicit _table_/column/fk_name/...) are not
judged for length or case-only clashes; names Pony derives from them are.
"""
import os, sys, json, copy, shutil, sqlite3, atexit, re, traceback
from vf import core
from vf.props import _c26_space as space
from vf.props import _c26_schema as schema

LEVEL = 'exploration'
DIALECTS = ('sqlite', 'postgres', 'mysql', 'oracle')
QUOTE = dict(sqlite='"', postgres='"', mysql='`', oracle='"')
MAXLEN = dict(postgres=63, mysql=64, oracle=30)
ROOT = None

def _scratch():
    d = os.path.join(ROOT or ('/dev/shm/vf-%d' % os.getpid()), 'w%d' % os.getpid())
    os.makedirs(d, exist_ok=True)
    return d

def _namespace(db):
    from pony import orm
    import datetime, decimal
    return dict(db=db, PrimaryKey=orm.PrimaryKey, Required=orm.Required, Optional=orm.Optional, Set=orm.Set,
                Discriminator=orm.Discriminator, composite_key=orm.composite_key, composite_index=orm.composite_index,
                date=datetime.date, Decimal=decimal.Decimal, __name__='c26_diagram')

# ---- running Pony ------------------------------------------------------------------------------------------------
class Refused(Exception):
    def __init__(self, phase, exc):
        self.phase, self.exc = phase, exc

def build(spec, dialect, path=None):
    """define the classes and generate the mapping; returns db; raises Refused"""
    from pony import orm
    from vf.engines import dm
    src = space.render(spec)
    try:
        if dialect == 'sqlite':
            db = orm.Database()
            exec(compile(src, '<c26 diagram>', 'exec'), _namespace(db))
        else:
            db = dm.capture_database(dialect)
            exec(compile(src, '<c26 diagram>', 'exec'), _namespace(db))
    except Exception as e:
        raise Refused('class-definition', e)
    try:
        if dialect == 'sqlite':
            db.bind('sqlite', path, create_db=True)
            db.generate_mapping(create_tables=True)
        else:
            db.generate_mapping()
    except Exception as e:
        try: db.disconnect()
        except Exception: pass
        raise Refused('generate_mapping', e)
    return db

def tname(dialect, name):
    if isinstance(name, (list, tuple)):
        name = tuple(name)
        if dialect == 'sqlite' and name[0] == 'main': return name[1]
    return name

def metadata(db, spec, dialect):
    md = dict(table={}, pk={}, cols={}, m2m={})
    for e in spec['entities']:
        ent = db.entities[e['name']]
        md['table'][e['name']] = tname(dialect, ent._table_)
        md['pk'][e['name']] = list(ent._pk_columns_)
        for at in ent._new_attrs_:
            if at.is_collection:
                if at.reverse.is_collection:
                    md['m2m'][(e['name'], at.name)] = dict(
                        table=tname(dialect, at.table), cols_to_me=list(at.reverse.columns) if not at.symmetric else list(at.columns),
                        cols_to_me_2=list(at.reverse_columns) if at.symmetric else None)
            else:
                md['cols'][(e['name'], at.name)] = list(at.columns)
    return md

# ---- the model (expectations derived from the spec only) ---------------------------------------------------------------
def find_attr(spec, ename, aname):
    for a in space.ent_by_name(spec)[ename]['attrs']:
        if a['name'] == aname: return a
    return None

def hierarchy(spec, root):
    return [e for e in spec['entities'] if space.root_of(spec, e['name']) == root]

def attr_shape(spec, e, a):
    if a is None: return 'implicit'
    typ = 'rel' if a['rel'] else a['type']
    flags = sorted(k for k in a['opts'] if k not in ('reverse',))
    ctx = []
    if e['bases']: ctx.append('@subclass')
    if any(a['name'] in k for k in e['keys']): ctx.append('@composite_key')
    if any(a['name'] in k for k in e['indexes']): ctx.append('@composite_index')
    subs = [x for x in spec['entities'] if x is not e and _owner(spec, x, a['name']) == e['name']]
    if any(a['name'] in k for x in subs for k in x['keys']): ctx.append('@subclass_composite_key')
    if any(a['name'] in k for x in subs for k in x['indexes']): ctx.append('@subclass_composite_index')
    if e['pk'] and a['name'] in e['pk']: ctx.append('@composite_pk')
    return '%s(%s%s)%s' % (a['cls'], typ, ''.join(',' + f for f in flags), ''.join(ctx))

def notnull_expected(spec, e, a, dialect):
    """True / False / None (not judged)"""
    if e['pk'] and a['name'] in e['pk']: return True
    if a['cls'] == 'PrimaryKey': return True
    if e['bases']: return False                       # single-table inheritance: siblings have no value
    if a['cls'] in ('Required', 'Discriminator'): return True
    if a['rel']: return False
    if 'nullable' in a['opts']: return not a['opts']['nullable']
    if a['type'] != 'str': return False
    if dialect == 'oracle': return False
    if a['opts'].get('unique'): return False
    if any(a['name'] in k for k in e['keys'] + e['indexes']): return False
    return True

def on_delete_allowed(spec, child_e, c):
    p = find_attr(spec, c['rev'][0], c['rev'][1])
    cascade = p['opts'].get('cascade_delete')
    if cascade is True: return ('CASCADE',)
    if cascade is False: return ('SET NULL',) if c['cls'] == 'Optional' else (None,)
    if p['cls'] == 'Set' and c['cls'] == 'Required': return ('CASCADE',)
    if c['cls'] == 'Optional': return ('SET NULL',)
    return (None, 'CASCADE')

class Problems(list):
    def add(self, kind, shape, detail):
        self.append((kind, shape, detail))

def compare(spec, md, obs, dialect, P):
    ents = space.ent_by_name(spec)
    roots = [e['name'] for e in spec['entities'] if not e['bases']]
    expected_tables = {}
    for r in roots:
        t = md['table'][r]
        exp_explicit = ents[r]['table']
        if exp_explicit is not None and tname(dialect, exp_explicit) != t:
            P.add('table-name-ignored', '_table_', 'declared %r, mapped to %r' % (exp_explicit, t))
        expected_tables[t] = r
    otables = obs['tables']
    # ---------------- entity tables
    for r in roots:
        t = md['table'][r]
        ot = otables.get(t)
        if ot is None:
            P.add('missing-table', 'entity', 'table %r of %s does not exist' % (t, r)); continue
        ocols = {}
        for c in ot['columns']:
            if c['name'] in ocols: P.add('column-declared-twice', 'column', '%r.%r' % (t, c['name']))
            ocols[c['name']] = c
        used, pkcols, fk_expect, n_auto = [], [], [], 0
        may_unique, may_index = set(), set()        # column lists that a declaration explains
        hier = hierarchy(spec, r)
        root_e = ents[r]
        declared_pk = root_e['pk'] or [a['name'] for a in root_e['attrs'] if a['cls'] == 'PrimaryKey']
        implicit = []
        if not declared_pk: implicit.append('id')
        has_discr_attr = any(a['cls'] == 'Discriminator' for a in root_e['attrs'])
        if (len(hier) > 1 or root_e['discr'] is not None) and not has_discr_attr: implicit.append('classtype')
        for name in implicit:
            cols = md['cols'].get((r, name))
            if not cols or len(cols) != 1:
                P.add('implicit-attribute', name, 'implicit attribute %s has columns %r' % (name, cols)); continue
            used.extend(cols)
            oc = ocols.get(cols[0])
            if oc is None: P.add('missing-column', 'implicit:' + name, '%r.%r' % (t, cols[0])); continue
            if name == 'id':
                pkcols.extend(cols)
                if not oc['auto'] and dialect != 'oracle': P.add('pk-not-auto', 'implicit:id', '%r.%r' % (t, cols[0]))
            elif not (oc['notnull'] or oc['pk']):
                P.add('nullability', 'implicit:classtype', '%r.%r is nullable' % (t, cols[0]))
        for e in hier:
            for a in e['attrs']:
                if a['cls'] == 'Set': continue
                shape = attr_shape(spec, e, a)
                cols = md['cols'].get((e['name'], a['name']))
                if cols is None:
                    P.add('attribute-lost', shape, '%s.%s has no mapped attribute' % (e['name'], a['name'])); continue
                if a['rel']:
                    rev = find_attr(spec, a['rev'][0], a['rev'][1])
                    width = space.pk_width(spec, a['type'])
                    must = rev['cls'] == 'Set' or a['cls'] == 'Required'
                    if must and not cols:
                        P.add('missing-column', shape, '%s.%s holds no column' % (e['name'], a['name'])); continue
                    if not cols:
                        if not md['cols'].get((a['rev'][0], a['rev'][1])):
                            P.add('missing-column', shape, 'neither side of one-to-one %s.%s holds a column' % (e['name'], a['name']))
                        for key in ('column', 'columns'):
                            if key in a['opts']:
                                P.add('column-name-ignored', shape, '%s.%s declares %r but holds no column' % (e['name'], a['name'], a['opts'][key]))
                        continue
                    if len(cols) != width:
                        P.add('column-count', shape, '%s.%s has columns %r, target key has %d' % (e['name'], a['name'], cols, width))
                    fk_expect.append((e, a, tuple(cols)))
                elif len(cols) != 1:
                    P.add('column-count', shape, '%s.%s has columns %r' % (e['name'], a['name'], cols)); continue
                for key in ('column', 'columns'):
                    if key in a['opts']:
                        want = [a['opts'][key]] if key == 'column' else list(a['opts'][key])
                        if want != cols: P.add('column-name-ignored', shape, 'declared %r, mapped to %r' % (want, cols))
                in_pk = a['name'] in declared_pk and e is root_e
                nn = notnull_expected(spec, e, a, dialect)
                for cname in cols:
                    used.append(cname)
                    oc = ocols.get(cname)
                    if oc is None:
                        P.add('missing-column', shape, '%r.%r' % (t, cname)); continue
                    have = oc['notnull'] or oc['pk'] or cname in ot['pk']
                    if nn is not None and have != nn:
                        P.add('nullability', shape, '%r.%r is %s, declaration needs %s'
                              % (t, cname, 'NOT NULL' if have else 'nullable', 'NOT NULL' if nn else 'nullable'))
                    if a['cls'] == 'PrimaryKey' and a['opts'].get('auto') and not oc['auto'] and dialect != 'oracle':
                        P.add('pk-not-auto', shape, '%r.%r' % (t, cname))
                    if 'sql_default' in a['opts'] and (oc['default'] is None or str(a['opts']['sql_default']) not in str(oc['default'])):
                        P.add('sql-default-lost', shape, '%r.%r default %r' % (t, cname, oc['default']))
                if in_pk: pkcols.append((declared_pk.index(a['name']), cols))
                if cols:
                    if a['opts'].get('unique') or a['cls'] == 'PrimaryKey' or \
                       (a['rel'] and find_attr(spec, a['rev'][0], a['rev'][1])['cls'] != 'Set'): may_unique.add(tuple(cols))
                    if a['opts'].get('index') or (a['rel'] and a['opts'].get('index') is not False): may_index.add(tuple(cols))
                # unique / index declared on the attribute itself
                if a['opts'].get('unique') and cols:
                    if not any(tuple(u) == tuple(cols) for _, u in ot['uniques']):
                        P.add('unique-missing', shape, 'no unique constraint on %r%r' % (t, tuple(cols)))
                ix = a['opts'].get('index')
                if ix and cols:
                    found = [n for n, c, u in ot['indexes'] if tuple(c) == tuple(cols)] + \
                            [n for n, c in ot['uniques'] if tuple(c) == tuple(cols)]
                    # an index (or the primary key) that starts with these columns serves the same purpose
                    covered = found or [c for _, c, _u in ot['indexes'] if tuple(c[:len(cols)]) == tuple(cols)] or \
                              [c for _, c in ot['uniques'] if tuple(c[:len(cols)]) == tuple(cols)] or \
                              tuple(ot['pk'][:len(cols)]) == tuple(cols)
                    if not covered: P.add('index-missing', shape, 'no index on %r%r' % (t, tuple(cols)))
                    elif found and isinstance(ix, str) and ix not in found:
                        P.add('index-name-ignored', 'index=<name>', 'declared %r, found %r' % (ix, found))
            for key in e['keys']:
                cols = tuple(c for n in key for c in md['cols'].get((e['name'], n)) or md['cols'].get((_owner(spec, e, n), n), ()))
                may_unique.add(cols)
                if not any(tuple(u) == cols for _, u in ot['uniques']):
                    P.add('unique-missing', 'composite_key', 'no unique constraint on %r%r' % (t, cols))
            for key in e['indexes']:
                cols = tuple(c for n in key for c in md['cols'].get((e['name'], n)) or md['cols'].get((_owner(spec, e, n), n), ()))
                may_index.add(cols)
                if not any(tuple(c) == cols for _, c, _u in ot['indexes']) and not any(tuple(u) == cols for _, u in ot['uniques']):
                    P.add('index-missing', 'composite_index', 'no index on %r%r' % (t, cols))
        # primary key
        flat = []
        for item in pkcols:
            if isinstance(item, tuple): continue
            flat.append(item)
        ordered = [c for _, cols in sorted(x for x in pkcols if isinstance(x, tuple)) for c in cols]
        want_pk = flat + ordered
        if list(ot['pk']) != want_pk:
            P.add('primary-key', 'pk', '%r has primary key %r, declaration needs %r' % (t, ot['pk'], want_pk))
        if md['pk'][r] != want_pk:
            P.add('primary-key-metadata', 'pk', '_pk_columns_ %r vs %r' % (md['pk'][r], want_pk))
        extra = [c for c in ocols if c not in used]
        if extra: P.add('extra-column', 'column', '%r has unexplained columns %r' % (t, extra))
        dup = [c for c in set(used) if used.count(c) > 1]
        if dup: P.add('column-shared', 'column', 'attributes of %s share column(s) %r' % (r, dup))
        # foreign keys
        ofks = {tuple(f['cols']): f for f in ot['fks']}
        if len(ofks) != len(ot['fks']): P.add('fk-declared-twice', 'fk', '%r' % t)
        for e, a, cols in fk_expect:
            shape = attr_shape(spec, e, a)
            f = ofks.pop(cols, None)
            if f is None:
                P.add('fk-missing', shape, 'no foreign key on %r%r' % (t, cols)); continue
            target_root = space.root_of(spec, a['type'])
            if tname(dialect, f['ref']) != md['table'][target_root]:
                P.add('fk-target', shape, '%r%r references %r, expected %r' % (t, cols, f['ref'], md['table'][target_root]))
            elif list(f['refcols']) != md['pk'][target_root]:
                P.add('fk-target', shape, '%r%r references columns %r, expected %r' % (t, cols, f['refcols'], md['pk'][target_root]))
            allowed = on_delete_allowed(spec, e, a)
            if f['on_delete'] not in allowed:
                rev = find_attr(spec, a['rev'][0], a['rev'][1])
                P.add('on-delete', '%s<-%s(cascade_delete=%r)' % (a['cls'], rev['cls'], rev['opts'].get('cascade_delete')),
                      '%r%r has ON DELETE %s, expected %s' % (t, cols, f['on_delete'], '/'.join(map(str, allowed))))
            rev = find_attr(spec, a['rev'][0], a['rev'][1])
            declared = [x['opts']['fk_name'] for x in (a, rev) if 'fk_name' in x['opts'] and x['cls'] != 'Set']
            if declared and dialect != 'sqlite' and f['name'] not in declared:
                P.add('fk-name-ignored', 'to-one(fk_name=)' if 'fk_name' in a['opts'] else 'to-one(reverse side fk_name=)',
                      'declared %r, found %r' % (declared, f['name']))
            _fk_types(P, shape, obs, dialect, t, f)
        for cols in ofks: P.add('extra-fk', 'fk', '%r has an unexplained foreign key on %r' % (t, cols))
        # every foreign key (unless declared index=False) is the leading part of an index, a unique constraint or the primary key
        for e, a, cols in fk_expect:
            if a['opts'].get('index') is False: continue
            if not _led(ot, cols): P.add('fk-index-missing', 'to-one' + attr_shape(spec, e, a).split(')', 1)[1], 'no index of %r starts with the foreign key columns %r' % (t, cols))
        # every unique constraint / index is over exactly the columns of a declaration
        _unexplained(P, t, ot, want_pk, may_unique, may_index, 'entity-table')
    # ---------------- many-to-many tables
    seen = set()
    for (en, an), m in sorted(md['m2m'].items()):
        a = find_attr(spec, en, an)
        other = tuple(a['rev'])
        key = tuple(sorted([(en, an), other]))
        if key in seen: continue
        seen.add(key)
        sym = other == (en, an)
        t = m['table']
        shape = 'Set<->Set%s' % ('(symmetric)' if sym else '(self)' if en == other[0] else '')
        for side in ((en, an), other):
            sa = find_attr(spec, side[0], side[1])
            if 'table' in sa['opts'] and tname(dialect, sa['opts']['table']) != t:
                P.add('table-name-ignored', 'Set(table=)', 'declared %r, mapped to %r' % (sa['opts']['table'], t))
        if t in expected_tables: P.add('table-shared', shape, 'm2m table %r is also the table of %s' % (t, expected_tables[t]))
        expected_tables[t] = 'm2m:%s.%s' % (en, an)
        ot = otables.get(t)
        if ot is None:
            P.add('missing-table', shape, 'm2m table %r does not exist' % (t,)); continue
        if sym: sides = [(en, m['cols_to_me']), (en, m['cols_to_me_2'])]
        else: sides = [(en, m['cols_to_me']), (other[0], md['m2m'][other]['cols_to_me'])]
        allcols = [c for _, cols in sides for c in cols]
        ocn = [c['name'] for c in ot['columns']]
        if sorted(ocn) != sorted(allcols) or len(set(ocn)) != len(ocn):
            P.add('m2m-columns', shape, '%r has columns %r, expected %r' % (t, ocn, allcols))
        for side_e, cols in sides:
            w = space.pk_width(spec, side_e)
            if len(cols) != w: P.add('column-count', shape, 'm2m columns %r for %s, key has %d' % (cols, side_e, w))
        if sorted(ot['pk']) != sorted(allcols):
            P.add('primary-key', shape, 'm2m table %r has primary key %r, expected all of %r' % (t, ot['pk'], allcols))
        ofks = {tuple(f['cols']): f for f in ot['fks']}
        for side_e, cols in sides:
            f = ofks.pop(tuple(cols), None)
            if f is None:
                P.add('fk-missing', shape, 'no foreign key on %r%r' % (t, tuple(cols))); continue
            rt = space.root_of(spec, side_e)
            if tname(dialect, f['ref']) != md['table'][rt] or list(f['refcols']) != md['pk'][rt]:
                P.add('fk-target', shape, '%r%r references %r%r' % (t, tuple(cols), f['ref'], f['refcols']))
            if f['on_delete'] != 'CASCADE':
                P.add('on-delete', shape, 'm2m %r%r has ON DELETE %s' % (t, tuple(cols), f['on_delete']))
            _fk_types(P, shape, obs, dialect, t, f)
        for cols in ofks: P.add('extra-fk', shape, '%r has an unexplained foreign key on %r' % (t, cols))
        _unexplained(P, t, ot, allcols, set(), set(tuple(cols) for _, cols in sides), shape)
        # options declared on one side: column(s)= / fk_name= of a Set name the link columns (and their foreign key)
        # that reference the Set's *target*; index= names the index of the link columns that reference the *declaring*
        # entity; on a symmetric Set the plain options belong to `columns`, the reverse_* options to `reverse_columns`
        fk_by_cols = {tuple(f['cols']): f for f in ot['fks']}
        if sym: decl = [(a, '', sides[0][1], sides[0][1]), (a, 'reverse_', sides[1][1], sides[1][1])]
        else: decl = [(a, '', sides[1][1], sides[0][1]), (find_attr(spec, other[0], other[1]), '', sides[0][1], sides[1][1])]
        for sa, pre, own_cols, cols_to_owner in decl:
            key, single = pre + 'columns', pre + 'column'
            want = sa['opts'].get(key) or ([sa['opts'][single]] if single in sa['opts'] else None)
            if want and not set(want) <= set(ocn):
                P.add('column-name-ignored', 'Set(%s=)' % key, 'declared %r, table has %r' % (want, ocn))
            elif want and list(want) != list(own_cols):
                P.add('column-name-ignored', 'Set(%s=):wrong-side' % key, 'declared %r for the reference to %s, used %r' % (want, sa['type'], own_cols))
            want = sa['opts'].get(pre + 'fk_name')
            f = fk_by_cols.get(tuple(own_cols))
            if want and f is not None and dialect != 'sqlite' and f['name'] != want:
                P.add('fk-name-ignored', 'Set(%sfk_name=)' % pre, 'declared %r, foreign key on %r is named %r' % (want, tuple(own_cols), f['name']))
            want = sa['opts'].get(pre + 'index')
            # the link columns that reference the declaring entity are the leading part of an index or of the primary key
            if want is not False and tuple(cols_to_owner) in fk_by_cols and not _led(ot, tuple(cols_to_owner)):
                P.add('fk-index-missing', shape, 'no index of %r starts with the foreign key columns %r' % (t, tuple(cols_to_owner)))
            if isinstance(want, str):
                found = [n for n, c, u in ot['indexes'] if tuple(c) == tuple(cols_to_owner)]
                if found and want not in found:
                    P.add('index-name-ignored', 'Set(%sindex=<name>)' % pre, 'declared %r, index on %r is named %r' % (want, tuple(cols_to_owner), found))
    extra = [t for t in otables if t not in expected_tables]
    if extra: P.add('extra-table', 'table', 'unexplained tables %r' % (extra,))

def _led(ot, cols):
    """an index, a unique constraint or the primary key of the observed table starts with cols"""
    cols = tuple(cols); n = len(cols)
    return any(tuple(c[:n]) == cols for _, c, _u in ot['indexes']) or any(tuple(c[:n]) == cols for _, c in ot['uniques']) or \
           tuple(ot['pk'][:n]) == cols

def _unexplained(P, t, ot, pk, may_unique, may_index, shape):
    seen = []
    for _, c in ot['uniques']:
        c = tuple(c)
        if c != tuple(pk) and c != tuple(ot['pk']) and c not in may_unique:
            P.add('unique-unexplained', shape, '%r has a unique constraint on %r that no declaration asks for' % (t, c))
    for _, c, u in ot['indexes']:
        c = tuple(c)
        if u: continue      # judged above
        if c not in may_index: P.add('index-unexplained', shape, '%r has an index on %r that no declaration asks for' % (t, c))
        if c in seen: P.add('index-declared-twice', shape, '%r has two indexes on %r' % (t, c))
        seen.append(c)

def _owner(spec, e, attrname):
    """entity (e or one of its bases) that declares attrname"""
    ents = space.ent_by_name(spec)
    todo = [e['name']]
    while todo:
        n = todo.pop(0)
        if any(a['name'] == attrname for a in ents[n]['attrs']): return n
        todo.extend(ents[n]['bases'])
    return e['name']

_TYPE_NORM = {'SERIAL': 'INTEGER', 'BIGSERIAL': 'BIGINT'}
def _fk_types(P, shape, obs, dialect, t, f):
    ref = obs['tables'].get(tname(dialect, f['ref']))
    if ref is None: return
    mine = {c['name']: c for c in obs['tables'][t]['columns']}
    theirs = {c['name']: c for c in ref['columns']}
    for a, b in zip(f['cols'], f['refcols']):
        if a in mine and b in theirs:
            ta, tb = (_TYPE_NORM.get(x['type'].upper(), x['type'].upper()) for x in (mine[a], theirs[b]))
            ta, tb = (re.sub(r'\s*(PRIMARY KEY|AUTO_INCREMENT|AUTOINCREMENT).*', '', x).strip() for x in (ta, tb))
            if ta != tb: P.add('fk-type', shape, '%r.%r is %s, referenced %r.%r is %s' % (t, a, ta, f['ref'], b, tb))

# ---- well-formedness of a generated script (stub dialects) --------------------------------------------------------------------
def check_names(spec, obs, dialect, P):
    explicit = space.explicit_names(spec)
    limit = MAXLEN[dialect]
    overlay = '%s' % (spec['tag'].get('overlay') or 'defaults')
    fold = (lambda s: s.lower()) if dialect == 'mysql' else (lambda s: s)
    eff = (lambda s: s[:63]) if dialect == 'postgres' else (lambda s: s)
    def base(n): return n[-1] if isinstance(n, tuple) else n
    def sch(n): return n[0] if isinstance(n, tuple) else None
    def too_long(kind, n):
        b = base(n)
        if len(b) > limit:
            if b in explicit: return 'explicit'
            P.add('name-too-long', '%s:%s' % (kind, overlay), '%s name %r has %d characters, limit %d' % (kind, b, len(b), limit))
    def clash(ns, kind, n, where):
        b = base(n)
        key = (sch(n), fold(eff(b)) if kind != 'table' or dialect != 'mysql' else eff(b))
        prev = ns.get(key)
        if prev is not None:
            pk, pb = prev
            if not (b in explicit and pb in explicit):     # two names the user wrote: the user's clash
                P.add('duplicate-name', '%s/%s:%s' % (pk, kind, overlay), '%s %r and %s %r collide %s' % (pk, pb, kind, b, where))
        else: ns[key] = (kind, b)
    relations, constraints, triggers, mysql_fks = {}, {}, {}, {}
    for tn, t in obs['tables'].items():
        too_long('table', tn)
        clash(relations, 'table', tn, 'in the table namespace')
        cols = {}
        for c in t['columns']:
            too_long('column', c['name'])
            clash(cols, 'column', c['name'], 'in table %r' % (tn,))
        per_table = {}
        for n, c, u in t['indexes']:
            too_long('index', n)
            if dialect == 'mysql': clash(per_table, 'index', n, 'in table %r' % (tn,))
            else: clash(relations if dialect == 'postgres' else constraints, 'index', (sch(tn), n) if sch(tn) else n, 'in the index namespace')
        for n, c in t['uniques']:
            if n is None: continue
            too_long('unique-constraint', n)
            if dialect == 'mysql': clash(per_table, 'unique-constraint', n, 'in table %r' % (tn,))
            else: clash(relations if dialect == 'postgres' else constraints, 'unique-constraint', (sch(tn), n) if sch(tn) else n, 'in the index namespace')
        fkns = {}
        for f in t['fks']:
            if f['name'] is None: continue
            too_long('fk', f['name'])
            if dialect == 'postgres': clash(fkns, 'fk', f['name'], 'in table %r' % (tn,))
            elif dialect == 'mysql': clash(mysql_fks, 'fk', f['name'], 'in the schema')
            else: clash(constraints, 'fk', f['name'], 'in the constraint namespace')
    for item in obs['order']:
        if item[0] == 'sequence':
            too_long('sequence', item[1]); clash(relations, 'sequence', item[1], 'in the table/sequence namespace')
        elif item[0] == 'trigger':
            too_long('trigger', item[1]); clash(triggers, 'trigger', item[1], 'in the trigger namespace')

def check_order(obs, dialect, P, overlay):
    created = set()
    for item in obs['order']:
        if item[0] == 'table': created.add(item[1])
        elif item[0] == 'index' and item[2] not in created:
            P.add('create-order', 'index:' + overlay, 'index %r before its table' % (item[1],))
        elif item[0] == 'fk' and (item[2] not in created or item[3] not in created):
            P.add('create-order', 'fk:' + overlay, 'foreign key %r before table %r exists' % (item[1], item[3]))
        elif item[0] == 'trigger' and item[2] not in created:
            P.add('create-order', 'trigger:' + overlay, 'trigger %r before its table' % (item[1],))

def check_inline_order(obs, P, overlay):
    """SQLite: foreign keys are inline; a referenced table must be created earlier unless the two
    tables are on a common reference cycle."""
    order = [i[1] for i in obs['order'] if i[0] == 'table']
    pos = {t: i for i, t in enumerate(order)}
    graph = {t: set(tname('sqlite', f['ref']) for f in obs['tables'][t]['fks']) for t in order}
    def reach(a, b, seen=None):
        seen = seen or set()
        for n in graph.get(a, ()):
            if n == b: return True
            if n not in seen:
                seen.add(n)
                if reach(n, b, seen): return True
        return False
    for t in order:
        for ref in graph[t]:
            if ref == t or ref not in pos: continue
            if pos[ref] > pos[t] and not reach(ref, t):
                P.add('create-order', 'table:' + overlay, 'table %r is created before %r which it references' % (t, ref))

# ---- one diagram on one dialect --------------------------------------------------------------------------------------------------
def evaluate(spec, dialect, counters=None):
    """returns (status, problems). status: 'accepted' | 'refused:<phase>:<exception class>'"""
    P = Problems()
    overlay = '%s' % (spec['tag'].get('overlay') or 'defaults')
    path = None
    if dialect == 'sqlite':
        path = os.path.join(_scratch(), 'd.sqlite')
        for suffix in ('', '-journal', '-wal', '-shm'):
            if os.path.exists(path + suffix): os.remove(path + suffix)
    try:
        db = build(spec, dialect, path)
    except Refused as r:
        return 'refused:%s:%s' % (r.phase, type(r.exc).__name__), P
    try:
        try:
            script = db.schema.generate_create_script()
        except Exception as e:
            if dialect == 'sqlite':
                P.add('refused-later', 'generate_create_script:' + overlay, '%s: %s' % (type(e).__name__, e))
                return 'accepted', P
            # create_tables() runs the same code inside generate_mapping on a live server
            return 'refused:create-script:%s' % type(e).__name__, P
        try:
            parsed = schema.parse_script(script, QUOTE[dialect])
        except schema.ParseError as e:
            P.add('malformed-script', overlay, str(e))
            return 'accepted', P
        md = metadata(db, spec, dialect)
        if dialect == 'sqlite':
            con = sqlite3.connect(path)
            try: obs = schema.introspect_sqlite(con)
            finally: con.close()
            obs_script = dict(parsed, tables={tname('sqlite', k): v for k, v in parsed['tables'].items()},
                              order=[(i[0], tname('sqlite', i[1])) + tuple(i[2:]) for i in parsed['order']])
            check_inline_order(obs_script, P, overlay)
            compare(spec, md, obs, dialect, P)
            _later(spec, db, path, P, overlay)
        else:
            obs = parsed
            check_order(obs, dialect, P, overlay)
            check_names(spec, obs, dialect, P)
            compare(spec, md, obs, dialect, P)
            if dialect == 'oracle': _oracle_auto(spec, md, obs, P, overlay)
        if counters is not None:
            counters['tables'] = counters.get('tables', 0) + len(obs['tables'])
            counters['columns'] = counters.get('columns', 0) + sum(len(t['columns']) for t in obs['tables'].values())
            counters['fks'] = counters.get('fks', 0) + sum(len(t['fks']) for t in obs['tables'].values())
            counters['uniques'] = counters.get('uniques', 0) + sum(len(t['uniques']) for t in obs['tables'].values())
            counters['indexes'] = counters.get('indexes', 0) + sum(len(t['indexes']) for t in obs['tables'].values())
        return 'accepted', P
    finally:
        try: db.disconnect()
        except Exception: pass

def _oracle_auto(spec, md, obs, P, overlay):
    seqs = [i[1] for i in obs['order'] if i[0] == 'sequence']
    trgs = [i for i in obs['order'] if i[0] == 'trigger']
    for e in spec['entities']:
        if e['bases']: continue
        auto = (not e['pk'] and not any(a['cls'] == 'PrimaryKey' for a in e['attrs'])) or \
               any(a['cls'] == 'PrimaryKey' and a['opts'].get('auto') for a in e['attrs'])
        if auto and not any(tr[2] == md['table'][e['name']] for tr in trgs):
            P.add('pk-not-auto', 'oracle-trigger:' + overlay, 'no trigger for %r' % (md['table'][e['name']],))
    if len(seqs) != len(trgs): P.add('pk-not-auto', 'oracle-sequence:' + overlay, '%d sequences, %d triggers' % (len(seqs), len(trgs)))

def _later(spec, db, path, P, overlay):
    """nothing may be refused after generate_mapping accepted the diagram"""
    from pony import orm
    try:
        with orm.db_session:
            for e in spec['entities']:
                db.entities[e['name']].select()[:]
    except Exception as e:
        P.add('refused-later', 'select:' + overlay, '%s: %s' % (type(e).__name__, str(e)[:200]))
    db.disconnect()
    db2 = orm.Database()
    try:
        exec(compile(space.render(spec), '<c26 diagram>', 'exec'), _namespace(db2))
        db2.bind('sqlite', path)
        db2.generate_mapping(check_tables=True)
    except Exception as e:
        P.add('refused-later', 'check_tables:' + overlay, '%s: %s' % (type(e).__name__, str(e)[:200]))
    finally:
        try: db2.disconnect()
        except Exception: pass

# ---- enumeration -------------------------------------------------------------------------------------------------------------------
def work(chunk):
    sub = core.Sub()
    cnt = {}
    distinct = 0
    errors = []
    for idx, spec in chunk:
        accepted_somewhere = False
        for dialect in DIALECTS:
            try:
                status, P = evaluate(spec, dialect, cnt)
            except Exception as e:
                errors.append('%s on %s: %s\n%s' % (type(e).__name__, dialect, traceback.format_exc()[-700:], space.render(spec)))
                continue
            sub.count('evaluations')
            sub.count('%s:%s' % (dialect, status.split(':')[0]))
            if status != 'accepted':
                sub.count('%s:%s' % (dialect, status))
                sub.count('refused:family=%s%s' % (spec['tag'].get('family'), ',overlay=%s' % spec['tag']['overlay'] if 'overlay' in spec['tag'] else ''))
            else:
                accepted_somewhere = True
                if len(sub.samples) < 1 and dialect == 'postgres' and spec['tag'].get('overlay') == 'long-entity-names':
                    sub.sample(dict(tag=spec['tag'], dialect=dialect, source=space.render(spec)))
            for kind, shape, detail in P:
                sig = '%s:%s:%s' % (dialect, kind, shape)
                sub.violation(sig, dict(spec=spec, dialect=dialect), '%s | tag %s' % (detail, json.dumps(spec['tag'], sort_keys=True)))
        if accepted_somewhere: distinct += 1
    d = sub.dump()
    d['distinct'] = distinct
    d['errors'] = errors[:3]
    for k, v in cnt.items(): d['counters']['checked_' + k] = v
    return d

def collapse_dialects(ctx):
    groups = {}
    for sig in list(ctx.found):
        dialect, rest = sig.split(':', 1)
        if dialect in DIALECTS: groups.setdefault(rest, []).append(dialect)
    for rest, ds in groups.items():
        if set(ds) == set(DIALECTS): label = '*'
        elif set(ds) == set(DIALECTS[1:]): label = 'postgres+mysql+oracle'
        else: continue
        merged = None
        for d in DIALECTS:
            e = ctx.found.pop('%s:%s' % (d, rest), None)
            if e is None: continue
            if merged is None: merged = e
            else: merged['n'] += e['n']
        ctx.found[label + ':' + rest] = merged

def run(ctx):
    global ROOT
    ROOT = '/dev/shm/vf-%d' % os.getpid()
    os.makedirs(ROOT, exist_ok=True)
    atexit.register(shutil.rmtree, ROOT, True)
    diagrams = list(enumerate(space.all_diagrams(ctx.quick)))
    keys = set(json.dumps(s, sort_keys=True) for _, s in diagrams)
    ctx.count('diagrams', len(diagrams))
    ctx.count('distinct_diagram_specs', len(keys))
    for _, s in diagrams[:1] + diagrams[len(diagrams) // 2:len(diagrams) // 2 + 2]:
        ctx.sample(dict(tag=s['tag'], source=space.render(s)))
    diagrams = ctx.shuffled(diagrams)
    size = 20
    chunks = [diagrams[i:i + size] for i in range(0, len(diagrams), size)]
    distinct = 0
    try:
        for d in ctx.pmap(work, chunks):
            core.absorb(ctx, d)
            distinct += d['distinct']
            if d['errors']: raise core.HarnessError('internal error in the C26 oracle: ' + d['errors'][0])
    finally:
        shutil.rmtree(ROOT, True)
    collapse_dialects(ctx)
    c = ctx.counters
    for d in DIALECTS:
        ctx.guard('diagrams accepted on ' + d, c.get(d + ':accepted', 0), 500)
        ctx.guard('diagrams refused on ' + d, c.get(d + ':refused', 0), 20)
    ctx.guard('foreign keys compared', c.get('checked_fks', 0), 2000)
    ctx.guard('unique constraints compared', c.get('checked_uniques', 0), 500)
    ctx.guard('distinct diagram specs', len(keys), 1000)
    ctx.assume('PostgreSQL/MySQL/Oracle: the server is replaced by a parser of the generated script; identifier limits '
               '(63/64/30), case folding (MySQL folds column, index and constraint names; quoted PostgreSQL/Oracle names do not fold) '
               'and namespaces (PostgreSQL: tables+indexes+sequences per schema, FK names per table; MySQL: indexes per table, '
               'FK names per schema; Oracle: tables+sequences, indexes, constraints, triggers) are modelled from the vendor manuals')
    ctx.assume('expected nullability / ON DELETE follow the documented declaration semantics (Required -> NOT NULL, Optional '
               'non-string -> NULL, Optional str -> NOT NULL unless nullable/unique/in composite key, subclasses nullable; '
               'cascade_delete -> CASCADE, Optional -> SET NULL, Required child of a Set -> CASCADE)')
    return dict(evaluations=c.get('evaluations', 0), distinct_nontrivial=distinct,
                rule='one evaluation = one diagram on one dialect; distinct = diagram specs (all different as JSON) '
                     'accepted by at least one dialect, i.e. whose schema was actually compared')

def replay(ctx, case):
    global ROOT
    ROOT = '/dev/shm/vf-%d' % os.getpid()
    os.makedirs(ROOT, exist_ok=True)
    try:
        spec, dialect = case['spec'], case['dialect']
        print(space.render(spec))
        status, P = evaluate(spec, dialect)
        print('dialect', dialect, '->', status)
        for kind, shape, detail in P: print('  %s [%s]: %s' % (kind, shape, detail))
        return not P
    finally:
        shutil.rmtree(ROOT, True)
