"""PostgreSQL transaction model for C17 (DESIGN section 2, DM: *model-based*, trusted base).

The REAL pony.orm.core session machinery and the REAL PGProvider / PGPool (set_transaction_mode,
execute, commit, rollback, release, drop, should_reconnect) run on top of the stub psycopg2 module;
psycopg2.connect is served by FakePGConnection through the stub's `_vf_connect` hook.

What the fake connection models (and nothing else):
  * `autocommit` attribute, False after connect (psycopg2 default);
  * with autocommit False the first statement after connect/commit/rollback opens a transaction that
    lasts until the next commit() / rollback() / close(); close() and rollback() discard it;
  * with autocommit True every statement is its own transaction;
  * the statements themselves are executed on a SQLite file as relational substrate (same tables,
    lower-case names; pyformat placeholders rewritten by bind_pyformat below), with the
    transaction boundaries above mapped to BEGIN / COMMIT / ROLLBACK of one sqlite3 connection per
    fake connection - so "what is committed" can be read back by an independent connection;
  * SET TRANSACTION ..., DISCARD ALL are accepted and do nothing.
Every call (connect, set_client_encoding, cursor, execute, executemany, commit, rollback, close) goes
through vf.seams.dbapi.ENV.on_call, i.e. it is numbered and can be hit by an fx fault plan.
Server log entries: (connection number, transaction id or 'auto', verb, is_write).
"""
import os, sqlite3, shutil
from vf import core, stubs
from vf.seams import dbapi
from vf.engines import fx
import re

_PYFORMAT = re.compile(r'%\(([^)]*)\)s|%%|%s')
def bind_pyformat(sql, args):
    """what a pyformat driver does with (sql, args), as (qmark sql, tuple): %(name)s / %s placeholders take their
    values from args, %% is a literal % when args are passed (PEP 249 / psycopg2). Self-contained on purpose."""
    if args is None: return sql, ()
    out, pos = [], [0]
    def rep(m):
        if m.group(0) == '%%': return '%'
        if m.group(0) == '%s':
            out.append(args[pos[0]]); pos[0] += 1
            return '?'
        out.append(args[m.group(1)])
        return '?'
    return _PYFORMAT.sub(rep, sql), tuple(out)

PG_FAULT_KINDS = ('op_none', 'op_admin', 'op_serial', 'integrity', 'interface')
RECONNECTABLE = ('op_none', 'op_admin')

def pg_exc(kind):
    import psycopg2
    if kind == 'op_none': return psycopg2.OperationalError('vf injected: server closed the connection unexpectedly')
    if kind == 'op_admin':
        e = psycopg2.OperationalError('vf injected: terminating connection due to administrator command'); e.pgcode = '57P01'; return e
    if kind == 'op_serial':
        e = psycopg2.OperationalError('vf injected: could not serialize access'); e.pgcode = '40001'; return e
    if kind == 'integrity':
        e = psycopg2.IntegrityError('vf injected'); e.pgcode = '23505'; return e
    if kind == 'interface': return psycopg2.InterfaceError('vf injected')
    raise AssertionError(kind)

SCHEMA = '''
create table "person" ("id" integer primary key autoincrement, "name" text not null, "age" integer);
create table "group" ("id" integer primary key autoincrement, "title" text not null);
create table "pet" ("id" integer primary key autoincrement, "name" text not null, "owner" integer not null references "person" ("id") on delete cascade);
create table "group_person" ("group" integer not null references "group" ("id") on delete cascade, "person" integer not null references "person" ("id") on delete cascade, primary key ("group", "person"));
'''

class Server(object):
    """per-execution statement log of the fake server"""
    def __init__(self):
        self.log, self.ncon, self.ntx = [], 0, 0

class FakeCursor(object):
    def __init__(self, con):
        self.con, self.cur = con, None
    @property
    def description(self): return self.cur.description if self.cur is not None else None
    @property
    def rowcount(self): return self.cur.rowcount if self.cur is not None else -1
    @property
    def lastrowid(self): return self.cur.lastrowid if self.cur is not None else None
    def _run(self, sql, args, many=False):
        con = self.con
        if con.closed: raise con.world.psycopg2.InterfaceError('connection already closed')
        verb = sql.split(None, 1)[0].upper()
        write = dbapi.is_write(sql)
        con._begin_if_needed()
        con.world.server.log.append((con.no, 'auto' if con._autocommit else con.txid, verb, write))
        if verb in ('SET', 'DISCARD'): self.cur = None; return
        sq = con.sq
        if many:
            c = sq.cursor()
            for a in args:
                s, b = bind_pyformat(sql, a)
                c.execute(s, b)
            self.cur = c
        else:
            s, b = bind_pyformat(sql, args)
            self.cur = sq.execute(s, b)
    def execute(self, sql, args=None):
        dbapi.ENV.on_call('execute', sql, args, self.con)
        self._run(sql, args)
    def executemany(self, sql, args):
        dbapi.ENV.on_call('executemany', sql, args, self.con)
        self._run(sql, list(args), many=True)
    def fetchone(self): return self.cur.fetchone() if self.cur is not None else None
    def fetchmany(self, size=None): return self.cur.fetchmany(size) if size else self.cur.fetchmany()
    def fetchall(self): return self.cur.fetchall() if self.cur is not None else []
    def close(self): pass

class FakePGConnection(object):
    server_version = 160000
    def __init__(self, world):
        dbapi.ENV.on_call('connect', None, None, None)
        self.world = world
        world.server.ncon += 1
        self.no = world.server.ncon
        self.sq = sqlite3.connect(world.path, isolation_level=None, timeout=0)
        self.sq.execute('PRAGMA foreign_keys = true')
        self._autocommit = False
        self.txid = None
        self.closed = False
        self.vf_pid = os.getpid()
        fx.register(self)
    # -- the modelled surface --
    @property
    def autocommit(self): return self._autocommit
    @autocommit.setter
    def autocommit(self, value):
        if self.txid is not None:
            raise self.world.psycopg2.ProgrammingError('set_session cannot be used inside a transaction')
        self.world.server.log.append((self.no, None, 'AUTOCOMMIT=%s' % bool(value), False))
        self._autocommit = bool(value)
    def _begin_if_needed(self):
        if not self._autocommit and self.txid is None:
            self.world.server.ntx += 1
            self.txid = self.world.server.ntx
            self.sq.execute('BEGIN')
    def _end(self, how):
        if self.txid is not None:
            self.sq.execute('COMMIT' if how == 'COMMIT' else 'ROLLBACK')
        self.world.server.log.append((self.no, self.txid, how, False))
        self.txid = None
    def set_client_encoding(self, enc):
        dbapi.ENV.on_call('set_client_encoding', None, None, self)
    def cursor(self):
        dbapi.ENV.on_call('cursor', None, None, self)
        if self.closed: raise self.world.psycopg2.InterfaceError('connection already closed')
        return FakeCursor(self)
    def commit(self):
        dbapi.ENV.on_call('commit', None, None, self)
        if self.closed: raise self.world.psycopg2.InterfaceError('connection already closed')
        self._end('COMMIT')
        h = dbapi.ENV.handler
        if h is not None and hasattr(h, 'after_call'): h.after_call('commit', self)
    def rollback(self):
        dbapi.ENV.on_call('rollback', None, None, self)
        if self.closed: raise self.world.psycopg2.InterfaceError('connection already closed')
        self._end('ROLLBACK')
    def close(self):
        dbapi.ENV.on_call('close', None, None, self)
        self.force_close()
    def force_close(self):
        if not self.closed:
            self._end('CLOSE')
            self.closed = True
            self.sq.close()

def define(db, orm):
    class Person(db.Entity):
        name = orm.Required(str); age = orm.Optional(int)
        groups = orm.Set('Group'); pets = orm.Set('Pet')
    class Group(db.Entity):
        title = orm.Required(str); members = orm.Set(Person)
    class Pet(db.Entity):
        name = orm.Required(str); owner = orm.Required(Person)

FIXTURE = '''
insert into "person" ("id", "name", "age") values (1, 'p1', 1), (2, 'p2', 2);
insert into "group" ("id", "title") values (1, 'g1'), (2, 'g2');
insert into "pet" ("id", "name", "owner") values (1, 'x1', 1);
insert into "group_person" ("group", "person") values (1, 1);
'''

class PGWorld(fx.World):
    """fx.World whose Database is bound to the real PGProvider over FakePGConnection"""
    def __init__(self, name='pg'):
        stubs.install_all()
        import psycopg2
        from pony import orm
        self.psycopg2, self.orm, self.name = psycopg2, orm, name
        fx.World._n += 1
        d = dbapi.scratch_dir()
        self.path = os.path.join(d, 'fxpg-%s-%d-%d.sqlite' % (name, os.getpid(), fx.World._n))
        self.pristine = self.path + '.pristine'
        self._unlink()
        raw = sqlite3.connect(self.path, isolation_level=None)
        raw.executescript(SCHEMA); raw.executescript(FIXTURE)
        raw.close()
        shutil.copyfile(self.path, self.pristine)
        self.tables = ['group', 'group_person', 'person', 'pet']
        self.server = Server()
        psycopg2._vf_connect = lambda *a, **k: FakePGConnection(self)
        dbapi.ENV.reset()
        self.db = db = orm.Database()
        define(db, orm)
        db.bind('postgres', host='vf-model', user='vf', password='', database='vf')
        db.generate_mapping(check_tables=False, create_tables=False)
        self.E = dict(db.entities)
        db.disconnect()
        self.mon = None
        del fx.REGISTRY[:]
    def hygiene(self):
        forced = []
        local = self.orm.core.local
        if local.db2cache or local.db_session is not None or local.db_context_counter:
            forced.append('thread-local session state')
            local.db2cache.clear(); local.db_session = None; local.db_context_counter = 0
        dbapi.ENV.reset()
        try: self.db.disconnect()
        except Exception: forced.append('disconnect failed')
        pool = self.db.provider.pool
        if getattr(pool, 'con', None) is not None:
            forced.append('pool connection'); pool.con = None
        for serial, ref, thread in fx.REGISTRY:
            con = ref()
            if con is not None:
                try: con.force_close()
                except Exception: pass
        del fx.REGISTRY[:]
        self.server = Server()
        self.psycopg2._vf_connect = lambda *a, **k: FakePGConnection(self)
        return forced
    def run(self, program, plan=None, warm=False, observe=False, snapshots=False, make_exc=pg_exc):
        x = fx.World.run(self, program, plan, warm, observe, snapshots, make_exc)
        x.notes = list(x.notes) + [('server_log', list(self.server.log))]
        return x
