"""C18 A db_session commits exactly when its body succeeds.

Bounded-exhaustive product (nothing sampled): body scripts (all sequences of length <= L over
{W write a row, F flush, C commit(), B rollback(), raise one of 8 exception kinds}; a different
script per attempt) x session configurations x forms

  dec     @db_session(...) on a function, retry 0..2, allowed_exceptions / retry_exceptions as class
          lists, callables and callables that raise, strict/immediate/serializable/optimistic/ddl/sql_debug
  cm      `with db_session(...)`
  nest    2..3 nested sessions (decorator / context manager per level, options and allowed lists on
          inner and outer levels, an operation after the inner session returned)
  gen     @db_session on a generator function driven by next/send/throw/close/del, with and
          without uncommitted changes at the suspension points, optionally inside another session
          or with another session running while it is suspended
  flask   pony.flask.Pony on the stub Flask app (before_request / teardown_request(exc or None))
  bottle  PonyPlugin.apply(callback) with HTTPResponse / HTTPError / other exceptions

Oracle: `expected()` below - a small reference machine written from the property statement and the
documented db_session semantics. It returns the *set* of acceptable outcomes
(rows in the database afterwards, body executions, propagated exception class); the set has more
than one element only where the documentation does not decide (counted as `ambiguous:*`, never an
alarm). Rows are read through an independent raw sqlite3 connection on a /dev/shm file database;
after every case the thread-local session state must be clean and a following session must work
and see the same rows.

Write flavours: in the single-level dec / cm families (options none / immediate, allowed none / list) every body that
writes is also run with the row written through obj.flush() right after creation, through Database.insert() and through
Database.execute(): each of them must belong to the session's transaction like an entity write.
"""
import os, sys, itertools, sqlite3, warnings, shutil, gc, threading, signal
from vf import core

LEVEL = 'exploration'

NR = ('W', 'F', 'C', 'B')
KINDS = ('A', 'SA', 'R', 'SR', 'O', 'SH', 'TE', 'AR')
CLASSNAME = dict(A='AllowedExc', SA='SubAllowed', R='RetryableExc', SR='SubRetryable', O='OtherExc',
                 SH='ShouldRetryExc', TE='MyTransactionError', AR='BothExc', HR='HTTPResponse',
                 HE='HTTPError', TypeError='TypeError', PTE='TransactionError',
                 AErr='AllowedCallableError', RErr='RetryCallableError')
OPTS = ('none', 'strict', 'immediate', 'serializable', 'optimistic0', 'ddl', 'sql_debug')
LEVEL_DEFAULT = dict(kind='cm', retry=0, allowed='none', rexc='default', opt='none', post=None)

# ---------------------------------------------------------------------------------------------
# script enumeration

def raises(script):
    return bool(script) and script[-1][0] == '!'

def scripts(maxlen, kinds=KINDS):
    """all scripts with at most maxlen operations; nothing follows a raise"""
    out = []
    for n in range(maxlen + 1):
        for body in itertools.product(NR, repeat=n):
            out.append(body)
            if n < maxlen:
                for k in kinds: out.append(body + ('!' + k,))
    return out

def may_retry(rexc, script):
    """pruning only: can the exception ending `script` be retried at all under this spec?
    (a body called more often than enumerated re-runs its last script, so a wrong extra attempt
    is still observed as a wrong execution count)"""
    if not raises(script): return False
    k = script[-1][1:]
    if k == 'SH': return True
    if rexc == 'default': return k == 'TE'
    if rexc in ('list', 'call'): return k in ('R', 'SR', 'AR')
    return False

def attempt_trees(retry, rexc, S0, S1):
    for s0 in S0:
        if retry == 0 or not may_retry(rexc, s0): yield (s0,); continue
        for s1 in S1:
            if retry == 1 or not may_retry(rexc, s1): yield (s0, s1); continue
            for s2 in S1: yield (s0, s1, s2)

# ---------------------------------------------------------------------------------------------
# reference machine (the oracle)

def is_allowed(spec, k):
    if spec == 'none': return False
    if spec in ('list', 'call'): return k in ('A', 'SA', 'AR')
    if spec == 'bottle': return k == 'HR'          # HTTPResponse but not HTTPError
    if spec == 'callraise': return 'raises'
    raise core.HarnessError('allowed spec %r' % spec)

def is_retryable(spec, k):
    if k == 'SH': return True                      # exception object carries should_retry = True
    if spec == 'default': return k in ('TE', 'PTE')  # (TransactionError,) and its subclasses
    if spec in ('list', 'call'): return k in ('R', 'SR', 'AR')
    if spec == 'callraise': return 'raises'
    raise core.HarnessError('retry spec %r' % spec)

class Flags(object):
    """Points the documentation leaves open. The machine asks for a flag; the caller enumerates
    every value of every flag that was consulted, giving the set of acceptable outcomes."""
    DOMAIN = dict(
        refuse=(True, False),     # ddl / serializable session inside a plain one: refused with TransactionError, or option ignored
        both=(0, 1, 2),           # exception both allowed and retryable: 0 retry wins & final attempt rolls back; 1 allowed wins (commit, no retry); 2 retried, committed on the final attempt
        ar_abort=(True, False),   # allowed-callable raises while leaving an attempt that is going to be retried: aborts the loop, or not
        cr_commit=(False, True),  # retry-callable raised, exception is allowed: pending changes discarded or committed
        gen_allowed=(False, True) # generator session: allowed_exceptions honoured or not
    )
    def __init__(self, values=None):
        self.values = dict(values or {})
        self.used = []
    def get(self, name):
        if name not in self.used: self.used.append(name)
        return self.values.get(name, self.DOMAIN[name][0])

class Machine(object):
    def __init__(self, flags):
        self.committed, self.pending, self.nextid, self.trace = set(), [], 1, []
        self.flags = flags
    def op(self, o):
        """returns exception kind or None"""
        if o == 'W': self.pending.append(self.nextid); self.nextid += 1
        elif o == 'F': pass
        elif o == 'C': self.commit()
        elif o == 'B': self.rollback()
        elif o[0] == '!': return o[1:]
        else: raise core.HarnessError('op %r' % (o,))
        return None
    def commit(self): self.committed.update(self.pending); self.pending = []
    def rollback(self): self.pending = []
    def run_script(self, script):
        for o in script:
            e = self.op(o)
            if e: return e
        return None

def lv(L, key): return L.get(key, LEVEL_DEFAULT[key])

def model_levels(m, levels, scripts_):
    """returns frozenset of acceptable exception class names ({None} = no exception)"""
    def body(i):
        if i == len(levels):
            idx = len(m.trace); m.trace.append(idx)
            return m.run_script(scripts_[min(idx, len(scripts_) - 1)])
        return level(i)
    def with_post(i):
        e = body(i + 1)
        if e: return e
        post = lv(levels[i], 'post')
        return m.op(post) if post else None
    def outer_has(i, opt):
        # the session that is actually open is the outermost one
        return lv(levels[0], 'opt') == opt
    def finish(L, e):
        """leave the outermost session with exception kind e (not retried). returns exc kinds acceptable"""
        if e is None: m.commit(); return (None,)
        al = is_allowed(lv(L, 'allowed'), e)
        if al == 'raises': m.rollback(); return ('AErr', e)
        if al: m.commit()
        else: m.rollback()
        return (e,)
    def level(i):
        L = levels[i]
        kind, retry, opt = lv(L, 'kind'), lv(L, 'retry'), lv(L, 'opt')
        active = i > 0
        # --- construction-time refusals
        if retry and opt == 'ddl': return 'TypeError'
        if kind == 'cm' and retry: return 'TypeError'
        if active:
            refusable = (kind == 'dec' and opt == 'ddl') or \
                        (kind == 'cm' and opt in ('ddl', 'serializable') and not outer_has(i, opt))
            if refusable and m.flags.get('refuse'): return 'PTE'
            return with_post(i)          # inner sessions neither commit nor roll back, options ignored
        if kind == 'cm':
            e = with_post(i)
            return finish(L, e)
        # outermost decorator with retry loop
        last = None
        for a in range(retry + 1):
            e = with_post(i)
            if e is None: m.commit(); return (None,)
            rt = is_retryable(lv(L, 'rexc'), e)
            al = is_allowed(lv(L, 'allowed'), e)
            if rt == 'raises':
                if al is True and m.flags.get('cr_commit'): m.commit()
                else: m.rollback()
                return ('RErr', 'AErr', e) if al == 'raises' else ('RErr', e)
            if not rt: return finish(L, e)
            if al is True:
                both = m.flags.get('both')
                if both == 1: m.commit(); return (e,)
                if both == 2 and a == retry: m.commit(); return (e,)
            m.rollback()
            if al == 'raises' and m.flags.get('ar_abort'): return ('AErr', e)
            last = e
        return (last,)
    r = level(0)
    if not isinstance(r, tuple): r = (r,)       # refusal of the outermost level itself
    return r

def model_gen(m, cfg):
    segs, drive = cfg['segs'], cfg['drive']
    opt, allowed = cfg.get('opt', 'none'), cfg.get('allowed', 'none')
    if opt in ('ddl', 'serializable') or cfg.get('retry'): return ('TypeError',)
    if cfg.get('inside'): return ('PTE',)
    i = 0
    while True:
        m.trace.append(i)
        e = m.run_script(segs[i])
        if e:
            if is_allowed(allowed, e) is True and m.flags.get('gen_allowed'): m.commit()
            else: m.rollback()
            return (e,)
        if i == len(segs) - 1:
            m.commit(); return (None,)
        if m.pending:                      # uncommitted changes at suspension: refused, rolled back
            m.rollback(); return ('PTE',)
        if cfg.get('between'):
            m.op('W'); m.commit()
        act = drive[i]
        if act in ('next', 'send'): i += 1
        elif act.startswith('throw:'):
            if cfg.get('catch'): i += 1
            else: return (act[6:],)
        elif act in ('close', 'del'): return (None,)
        else: raise core.HarnessError('drive action %r' % act)

def model_once(case, flags):
    m = Machine(flags)
    form = case['form']
    if form in ('dec', 'cm', 'nest'):
        excs = model_levels(m, case['levels'], case['scripts'])
    elif form == 'flask':
        excs = model_levels(m, [dict(kind='cm')] + list(case['levels']), case['scripts'])
    elif form == 'bottle':
        excs = model_levels(m, [dict(kind='dec', allowed='bottle')] + list(case['levels']), case['scripts'])
    elif form == 'gen':
        excs = model_gen(m, case)
    else: raise core.HarnessError('form %r' % form)
    names = frozenset(None if k is None else CLASSNAME[k] for k in excs)
    return (tuple(sorted(m.committed)), tuple(m.trace), names)

def expected(case):
    """-> list of acceptable outcomes (rows, executions trace, {exception class names}); the first is
    the default reading."""
    f = Flags()
    first = model_once(case, f)
    if not f.used: return [first], ()
    out = [first]
    used = list(f.used)
    # flags consulted may grow under other values; iterate to a fixed point over consulted flags
    seen_used = None
    while seen_used != used:
        seen_used = list(used)
        for combo in itertools.product(*[Flags.DOMAIN[n] for n in seen_used]):
            f2 = Flags(dict(zip(seen_used, combo)))
            o = model_once(case, f2)
            if o not in out: out.append(o)
            for n in f2.used:
                if n not in used: used.append(n)
    return out, tuple(used)

# ---------------------------------------------------------------------------------------------
# the real thing

class _Env(object): pass
_ENV = None

class SelfDeadlock(Exception):
    """the only thread of the harness would wait for a lock that it holds itself"""
class CaseTimeout(BaseException):
    """a single case did not terminate"""

class NoWaitLock(object):
    """Stand-in for the SQLite provider's transaction_lock / pre_transaction_lock (instance attributes,
    DESIGN section 0). The harness is single-threaded, so finding the lock held means the session
    machinery leaked it and would block forever: raise instead."""
    def __init__(self): self._lock = threading.Lock()
    def acquire(self, blocking=True, timeout=-1):
        if not self._lock.acquire(False):
            raise SelfDeadlock('SQLite transaction lock is still held by an earlier session of this thread')
        return True
    def release(self): self._lock.release()
    def locked(self): return self._lock.locked()
    def __enter__(self): self.acquire(); return self
    def __exit__(self, *a): self.release()

def _on_alarm(signum, frame):
    raise CaseTimeout()
CASE_TIMEOUT_S = 60

def scratch_dir():
    d = os.environ.get('VF_C18_DIR')
    if not d:
        d = '/dev/shm/vf-%d' % os.getpid()
        os.environ['VF_C18_DIR'] = d
    os.makedirs(d, exist_ok=True)
    return d

def env():
    global _ENV
    if _ENV is not None and _ENV.pid == os.getpid(): return _ENV
    from pony import orm
    from pony.orm import core as pc
    from vf import stubs
    stubs.install_flask(); stubs.install_bottle()
    import flask, bottle
    import pony.flask as pony_flask
    from pony.orm.integration import bottle_plugin
    warnings.simplefilter('ignore')
    E = _Env()
    E.pid = os.getpid()
    E.orm, E.pc = orm, pc
    wdir = os.path.join(scratch_dir(), 'w%d' % os.getpid())      # own directory per worker: journal files
    os.makedirs(wdir, exist_ok=True)                              # are created/deleted on every commit
    E.path = os.path.join(wdir, 'c18.sqlite')
    if os.path.exists(E.path): os.unlink(E.path)
    db = orm.Database()
    class T(db.Entity):
        id = orm.PrimaryKey(int)
    @db.on_connect(provider='sqlite')
    def _journal_in_memory(db, connection):
        # harness speed only (no journal file created/unlinked per transaction); atomicity is unchanged
        connection.execute('PRAGMA journal_mode = MEMORY').fetchall()
    db.bind('sqlite', E.path, create_db=True, timeout=0)
    db.generate_mapping(create_tables=True)
    if hasattr(db.provider, 'transaction_lock'): db.provider.transaction_lock = NoWaitLock()
    if hasattr(db.provider, 'pre_transaction_lock'): db.provider.pre_transaction_lock = NoWaitLock()
    E.db, E.T = db, T
    E.raw = sqlite3.connect(E.path, timeout=0, isolation_level=None)
    E.raw.execute('PRAGMA journal_mode = MEMORY').fetchall()
    class AllowedExc(Exception): pass
    class SubAllowed(AllowedExc): pass
    class RetryableExc(Exception): pass
    class SubRetryable(RetryableExc): pass
    class OtherExc(Exception): pass
    class ShouldRetryExc(OtherExc): should_retry = True
    class MyTransactionError(pc.TransactionError): pass
    class BothExc(AllowedExc, RetryableExc): pass
    class AllowedCallableError(Exception): pass
    class RetryCallableError(Exception): pass
    E.exc = dict(A=AllowedExc, SA=SubAllowed, R=RetryableExc, SR=SubRetryable, O=OtherExc,
                 SH=ShouldRetryExc, TE=MyTransactionError, AR=BothExc,
                 HR=bottle.HTTPResponse, HE=bottle.HTTPError)
    def a_call(e): return isinstance(e, AllowedExc)
    def a_raise(e): raise AllowedCallableError()
    def r_call(e): return isinstance(e, RetryableExc)
    def r_raise(e): raise RetryCallableError()
    E.allowed = dict(list=[AllowedExc], call=a_call, callraise=a_raise)
    E.rexc = dict(list=[RetryableExc], call=r_call, callraise=r_raise)
    app = flask.Flask('c18')
    pony_flask.Pony(app)
    E.app = app
    E.plugin = bottle_plugin.PonyPlugin()
    _ENV = E
    return E

class _St(object):
    def __init__(self): self.trace, self.nextid, self.write = [], 1, 'entity'

# how a body writes its row: through the entity (the default), through obj.flush() right after creating the object,
# through Database.insert() and through Database.execute() - every one of them must belong to the session's transaction
WRITES = ('entity', 'objflush', 'insert', 'execute')

def run_ops(E, ops, st):
    for o in ops:
        if o == 'W':
            n = st.nextid; st.nextid += 1
            if st.write == 'entity': E.T(id=n)
            elif st.write == 'objflush': E.T(id=n).flush()
            elif st.write == 'insert': E.db.insert(E.T._table_, id=n)
            elif st.write == 'execute': E.db.execute('insert into "%s" ("id") values ($n)' % E.T._table_)
            else: raise core.HarnessError('write %r' % (st.write,))
        elif o == 'F': E.orm.flush()
        elif o == 'C': E.orm.commit()
        elif o == 'B': E.orm.rollback()
        elif o[0] == '!': raise E.exc[o[1:]]()
        else: raise core.HarnessError('op %r' % (o,))

OPT_KW = dict(none={}, strict=dict(strict=True), immediate=dict(immediate=True),
              serializable=dict(serializable=True), optimistic0=dict(optimistic=False), ddl=dict(ddl=True),
              sql_debug=dict(sql_debug=False))     # pushes / pops the thread's debug state on entry / exit

def session_kwargs(E, L):
    kw = dict(OPT_KW[L.get('opt', 'none')])
    if L.get('retry'): kw['retry'] = L['retry']
    a = L.get('allowed', 'none')
    if a != 'none': kw['allowed_exceptions'] = E.allowed[a]
    r = L.get('rexc', 'default')
    if r != 'default': kw['retry_exceptions'] = E.rexc[r]
    return kw

def build_levels(E, levels, scripts_, st):
    def innermost():
        idx = len(st.trace); st.trace.append(idx)
        run_ops(E, scripts_[min(idx, len(scripts_) - 1)], st)
    f = innermost
    for L in reversed(list(levels)):
        f = _wrap(E, L, f, st)
    return f

def _wrap(E, L, inner, st):
    post = L.get('post')
    def body():
        inner()
        if post: run_ops(E, (post,), st)
    if L.get('kind', 'cm') == 'dec':
        def lvl():
            return E.orm.db_session(**session_kwargs(E, L))(body)()
    else:
        def lvl():
            with E.orm.db_session(**session_kwargs(E, L)):
                body()
    return lvl

def run_gen(E, cfg, st):
    segs, drive, catch = cfg['segs'], cfg['drive'], cfg.get('catch')
    db_session = E.orm.db_session
    def genbody():
        for i, seg in enumerate(segs):
            st.trace.append(i)
            run_ops(E, seg, st)
            if i < len(segs) - 1:
                if catch:
                    try: yield i
                    except Exception: pass
                else:
                    yield i
    kw = dict(OPT_KW[cfg.get('opt', 'none')])
    if cfg.get('retry'): kw['retry'] = cfg['retry']
    if cfg.get('allowed', 'none') != 'none': kw['allowed_exceptions'] = E.allowed[cfg['allowed']]
    def drive_it():
        wrapped = db_session(**kw)(genbody)
        g = wrapped()
        try:
            next(g)
            for act in drive:
                if cfg.get('between'):
                    with db_session: run_ops(E, ('W',), st)
                if act == 'next': next(g)
                elif act == 'send': g.send(7)
                elif act.startswith('throw:'): g.throw(E.exc[act[6:]]())
                elif act == 'close': g.close(); return
                elif act == 'del':
                    del g; return       # CPython: the last reference goes away, the generator is closed
        except StopIteration:
            return
    if cfg.get('inside'):
        with db_session: drive_it()
    else:
        drive_it()

def run_real(case):
    """-> (rows, trace, exception class name or None, leaks tuple)"""
    E = env()
    pc = E.pc
    try:
        E.raw.execute('delete from t')
    except sqlite3.OperationalError as e:
        raise core.HarnessError('cannot reset scratch table: %s' % e)
    st = _St()
    st.write = case.get('write', 'entity')
    form = case['form']
    exc = None
    if threading.current_thread() is threading.main_thread():
        signal.signal(signal.SIGALRM, _on_alarm)
        signal.setitimer(signal.ITIMER_REAL, CASE_TIMEOUT_S)
    try:
        if form in ('dec', 'cm', 'nest'):
            build_levels(E, case['levels'], case['scripts'], st)()
        elif form == 'flask':
            E.app.dispatch(build_levels(E, case['levels'], case['scripts'], st))
        elif form == 'bottle':
            E.plugin.apply(build_levels(E, case['levels'], case['scripts'], st), None)()
        elif form == 'gen':
            run_gen(E, case, st)
        else: raise core.HarnessError('form %r' % form)
    except core.HarnessError: raise
    except BaseException as e:
        if isinstance(e, (KeyboardInterrupt, SystemExit)): raise
        exc = type(e).__name__
        e = None
    finally:
        if threading.current_thread() is threading.main_thread():
            signal.setitimer(signal.ITIMER_REAL, 0)
    leaks = []
    local = pc.local
    if local.db_session is not None: leaks.append('local.db_session')
    if local.db_context_counter: leaks.append('local.db_context_counter')
    if local.db2cache: leaks.append('local.db2cache')
    if local.debug_stack: leaks.append('local.debug_stack')
    if leaks:
        # put the thread back into a usable state so that later cases are judged on their own
        try: pc.rollback()
        except Exception: pass
        local.db_session = None; local.db_context_counter = 0; local.db2cache.clear(); del local.debug_stack[:]
    lock = getattr(E.db.provider, 'transaction_lock', None)
    if lock is not None and lock.locked():
        leaks.append('sqlite-transaction_lock-still-held')
        try: lock.release()
        except Exception: pass
    try:
        rows = tuple(sorted(r[0] for r in E.raw.execute('select id from t')))
    except sqlite3.OperationalError:
        rows = ()
        leaks.append('database-left-locked-for-readers')
    # a following session must work and see exactly the committed rows
    try:
        with E.orm.db_session:
            seen = tuple(sorted(E.orm.select(t.id for t in E.T)[:]))
        if seen != rows: leaks.append('following-session-sees-other-rows')
    except Exception as e2:
        leaks.append('following-session-fails:' + type(e2).__name__)
        try: pc.rollback()
        except Exception: pass
        local.db_session = None; local.db_context_counter = 0; local.db2cache.clear()
    # an independent connection must be able to write: no transaction may be left open
    try:
        E.raw.execute('delete from t')
    except sqlite3.OperationalError:
        leaks.append('database-left-locked-for-writers')
        try: E.db.disconnect()
        except Exception: pass
        gc.collect()
    if local.db_session is not None or local.db_context_counter or local.db2cache or lock is not None and lock.locked():
        # (the following session itself may have leaked) next case must start from a clean thread
        try: pc.rollback()
        except Exception: pass
        local.db_session = None; local.db_context_counter = 0; local.db2cache.clear(); del local.debug_stack[:]
        if lock is not None and lock.locked():
            try: lock.release()
            except Exception: pass
        try: E.db.disconnect()
        except Exception: pass
    return rows, tuple(st.trace), exc, tuple(leaks)

# ---------------------------------------------------------------------------------------------
# judging, shrinking, signatures

def judge(case):
    """-> (ok, diff components, real, expected list, flags used)"""
    exp, used = expected(case)
    real = run_real(case)
    rows, trace, exc, leaks = real
    if not leaks:
        for (erows, etrace, eexcs) in exp:
            if rows == erows and trace == etrace and exc in eexcs:
                return True, (), real, exp, used
    erows, etrace, eexcs = exp[0]
    diff = []
    if rows != erows:
        if set(rows) - set(erows): diff.append('rows+')       # something committed that must not be
        if set(erows) - set(rows): diff.append('rows-')       # something lost that must be committed
    if trace != etrace: diff.append('executions')
    if exc not in eexcs: diff.append('exception')
    for l in leaks: diff.append('leak:' + l)
    if not diff: diff.append('combination')     # each component matches some acceptable outcome, but no single one
    return False, tuple(diff), real, exp, used

def _simpler(case):
    """candidate simplifications, simplest-first; each is a complete case"""
    form = case['form']
    def clone(**kw):
        c = dict(case); c.update(kw); return c
    if form == 'gen':
        segs, drive = [tuple(s) for s in case['segs']], list(case['drive'])
        if len(segs) > 1:
            yield clone(segs=segs[:-1], drive=drive[:-1])
            yield clone(segs=segs[1:], drive=drive[1:])
        for key, dflt in (('inside', False), ('between', False), ('catch', False), ('opt', 'none'),
                          ('allowed', 'none'), ('retry', 0)):
            if case.get(key, dflt) != dflt: yield clone(**{key: dflt})
        for i, a in enumerate(drive):
            if a != 'next':
                yield clone(drive=drive[:i] + ['next'] + drive[i + 1:])
            if a.startswith('throw:') and a != 'throw:O':
                yield clone(drive=drive[:i] + ['throw:O'] + drive[i + 1:])
        for i, s in enumerate(segs):
            for j in range(len(s)):
                yield clone(segs=segs[:i] + [s[:j] + s[j + 1:]] + segs[i + 1:])
            if raises(s) and s[-1] != '!O':
                yield clone(segs=segs[:i] + [s[:-1] + ('!O',)] + segs[i + 1:])
        return
    levels = [dict(L) for L in case['levels']]
    scr = [tuple(s) for s in case['scripts']]
    fixed_outer = form in ('flask', 'bottle')
    minlevels = 0 if fixed_outer else 1
    if len(levels) > minlevels:
        for i in range(len(levels)):
            yield clone(levels=levels[:i] + levels[i + 1:])
    for i, L in enumerate(levels):
        for key in ('post', 'opt', 'retry', 'rexc', 'allowed'):
            if key in L and L[key] != LEVEL_DEFAULT[key]:
                L2 = dict(L); del L2[key]
                yield clone(levels=levels[:i] + [L2] + levels[i + 1:])
        if L.get('retry', 0) > 1:
            L2 = dict(L); L2['retry'] = L['retry'] - 1
            yield clone(levels=levels[:i] + [L2] + levels[i + 1:])
        for key, simple in (('allowed', 'list'), ('rexc', 'list')):
            if L.get(key) in ('call', 'callraise'):
                L2 = dict(L); L2[key] = simple
                yield clone(levels=levels[:i] + [L2] + levels[i + 1:])
    if len(scr) > 1:
        yield clone(scripts=scr[:-1])
        yield clone(scripts=scr[1:])
    for i, s in enumerate(scr):
        for j in range(len(s)):
            yield clone(scripts=scr[:i] + [s[:j] + s[j + 1:]] + scr[i + 1:])
        if raises(s) and s[-1] != '!O':
            yield clone(scripts=scr[:i] + [s[:-1] + ('!O',)] + scr[i + 1:])

def shrink(case, budget=150):
    """greedy removal while *some* disagreement persists -> minimal failing shape"""
    cur = case
    progress = True
    while progress and budget > 0:
        progress = False
        for cand in _simpler(cur):
            budget -= 1
            if budget <= 0: break
            try: ok = judge(cand)[0]
            except core.HarnessError: continue
            if not ok:
                cur = cand; progress = True
                break
    return cur

def _lvl_text(L):
    parts = []
    for key in ('retry', 'allowed', 'rexc', 'opt', 'post'):
        if key in L and L[key] != LEVEL_DEFAULT[key]: parts.append('%s=%s' % (key, L[key]))
    return '%s(%s)' % (L.get('kind', 'cm'), ','.join(parts))

def shape(case):
    form = case['form']
    if form == 'gen':
        bits = ['gen']
        for key in ('opt', 'allowed', 'retry', 'inside', 'between', 'catch'):
            if case.get(key) not in (None, False, 0, 'none'): bits.append('%s=%s' % (key, case[key]))
        bits.append('segs=' + ' / '.join(','.join(s) or '-' for s in case['segs']))
        bits.append('drive=' + ','.join(case['drive']))
        return ' '.join(bits)
    return '%s [%s] body=%s%s' % (form, ' > '.join(_lvl_text(L) for L in case['levels']),
                                  ' | '.join(','.join(s) or '-' for s in case['scripts']),
                                  '' if case.get('write', 'entity') == 'entity' else ' W=' + case['write'])

def signature(case):
    small = shrink(case)
    ok, diff, real, exp, used = judge(small)
    if ok:      # cannot happen: shrink only keeps failing cases
        raise core.HarnessError('shrunk case does not reproduce: %r' % (small,))
    return '%s :: %s' % (shape(small), '+'.join(diff)), small, diff, real, exp

_MEMO = {}

def presignature(case, diff):
    if case['form'] == 'gen':
        cfg = tuple(sorted((k, v) for k, v in case.items() if k not in ('segs', 'drive', 'form')))
        return ('gen', cfg, len(case['segs']), tuple(s[-1] for s in case['segs'] if raises(s)),
                tuple(a.split(':')[0] for a in case['drive']), diff)
    return (case['form'], tuple(tuple(sorted(L.items())) for L in case['levels']), len(case['scripts']),
            tuple(s[-1] if raises(s) else '' for s in case['scripts']), diff)

def nontrivial(case):
    if case['form'] == 'gen':
        return any('W' in s for s in case['segs'])
    return any('W' in s for s in case['scripts']) or any(L.get('post') == 'W' for L in case['levels'])

def check_case(sub, case, outcomes):
    ok, diff, real, exp, used = judge(case)
    sub.count('cases')
    sub.count('cases:' + case['form'])
    if nontrivial(case): sub.count('nontrivial')
    if len(exp) > 1:
        sub.count('ambiguous_cases')
        for u in used: sub.count('ambiguous:' + u)
    outcomes.add((case['form'],) + real[:3])
    if real[2] is not None: sub.count('propagated_exception')
    if real[0]: sub.count('something_committed')
    if len(real[1]) > 1: sub.count('body_executed_more_than_once')
    if ok:
        if len(sub.samples) < 1 and len(real[1]) > 1 and real[0]:
            sub.sample(dict(case=case, rows=real[0], executions=len(real[1]), exception=real[2]))
        return True
    # must reproduce identically before it is reported
    again = run_real(case)
    if again != real and not (real[3] or again[3]):     # leaked session state legitimately makes runs differ
        raise core.HarnessError('non-deterministic execution of %r: %r then %r' % (case, real, again))
    sub.count('raw_disagreements')
    # Shrinking costs ~100 executions. Cases of one class (same form, level structure, final
    # exception kinds, differing components) shrink to the same minimal shape; after 3 members of a
    # class agreed on it, later members are attributed to it without being shrunk again.
    pre = presignature(case, diff)
    memo = _MEMO.setdefault(pre, dict(n=0, sigs={}))
    if memo['n'] >= 3 and len(memo['sigs']) == 1:
        sig = next(iter(memo['sigs']))
        small, sreal, sexp = memo['sigs'][sig]
        sub.count('disagreements_attributed_without_shrinking')
    else:
        sig, small, sdiff, sreal, sexp = signature(case)
        memo['n'] += 1
        memo['sigs'][sig] = (small, sreal, sexp)
    msg = ('%s: database rows %r, body executions %d, propagated %r, leaks %r; expected rows %r, '
           'executions %d, exception in %r' % (shape(small), list(sreal[0]), len(sreal[1]), sreal[2], list(sreal[3]),
                                               list(sexp[0][0]), len(sexp[0][1]), sorted(map(str, sexp[0][2]))))
    sub.violation(sig, dict(small, original=case), msg)
    return False

# ---------------------------------------------------------------------------------------------
# enumeration (blocks are enumerated inside the workers; a block is (family, parameters))

A_SPECS = ('none', 'list', 'call', 'callraise')
R_SPECS = ('default', 'list', 'call', 'callraise')
GEN_ACTIONS = ('next', 'send', 'throw:O', 'throw:A', 'close', 'del')

def cases_of(block):
    fam = block[0]
    if fam == 'dec':
        _, retry, a, r, opt, L0, L1, part, parts = block
        L = dict(kind='dec')
        if retry: L['retry'] = retry
        if a != 'none': L['allowed'] = a
        if r != 'default': L['rexc'] = r
        if opt != 'none': L['opt'] = opt
        S0, S1 = scripts(L0), scripts(L1)
        for n, tree in enumerate(attempt_trees(retry, r, S0, S1)):
            if n % parts == part:
                yield dict(form='dec', levels=[L], scripts=list(tree))
                if any('W' in s_ for s_ in tree) and opt in ('none', 'immediate') and a in ('none', 'list') and r == 'default':
                    for wk in WRITES[1:]: yield dict(form='dec', levels=[L], scripts=list(tree), write=wk)
    elif fam == 'cm':
        _, retry, a, opt, L0 = block
        L = dict(kind='cm')
        if retry: L['retry'] = retry
        if a != 'none': L['allowed'] = a
        if opt != 'none': L['opt'] = opt
        for s in scripts(L0):
            yield dict(form='cm', levels=[L], scripts=[s])
            if 'W' in s and opt in ('none', 'immediate') and a in ('none', 'list'):
                for wk in WRITES[1:]: yield dict(form='cm', levels=[L], scripts=[s], write=wk)
    elif fam == 'nest':
        _, outer, mids, inners, L0 = block
        for mid in mids:
            for inner in inners:
                levels = [outer] + list(mid) + [inner]
                S = scripts(L0)
                r = outer.get('retry', 0) if outer.get('kind') == 'dec' else 0
                for tree in attempt_trees(r, outer.get('rexc', 'default'), S, scripts(1)):
                    yield dict(form='nest', levels=[dict(x) for x in levels], scripts=list(tree))
    elif fam in ('flask', 'bottle'):
        _, view_levels, L0 = block
        kinds = KINDS + (('HR', 'HE') if fam == 'bottle' else ())
        for s in scripts(L0, kinds):
            yield dict(form=fam, levels=[dict(x) for x in view_levels], scripts=[s])
    elif fam == 'gen':
        _, nseg, opt, allowed, retry, inside, between, catch, Lseg, first = block
        SS = scripts(Lseg, ('A', 'O'))
        clean = [s for s in SS if not raises(s)]
        def rec(prefix):
            if len(prefix) == nseg:
                for drive in itertools.product(GEN_ACTIONS, repeat=nseg - 1):
                    c = dict(form='gen', segs=[tuple(s) for s in prefix], drive=list(drive))
                    if opt != 'none': c['opt'] = opt
                    if allowed != 'none': c['allowed'] = allowed
                    if retry: c['retry'] = retry
                    if inside: c['inside'] = True
                    if between: c['between'] = True
                    if catch: c['catch'] = True
                    yield c
                return
            # a segment that raises ends the generator: later segments would be dead code
            for s in (SS if len(prefix) == nseg - 1 else clean):
                for c in rec(prefix + [s]): yield c
        for c in rec([first]): yield c
    else:
        raise core.HarnessError('block %r' % (block,))

def level_variants(kinds, alloweds, opts, posts):
    out = []
    for k in kinds:
        for a in alloweds:
            for o in opts:
                for p in posts:
                    L = dict(kind=k)
                    if a != 'none': L['allowed'] = a
                    if o == 'retry1': L['retry'] = 1
                    elif o != 'none': L['opt'] = o
                    if p: L['post'] = p
                    out.append(L)
    return out

def blocks(quick):
    B = []
    # ---- decorator at top level
    for retry in (0, 1, 2):
        for a in A_SPECS:
            for r in R_SPECS:
                for opt in OPTS:
                    if quick:
                        plain = (a in ('none', 'list') and r in ('default', 'list'))
                        if opt != 'none' and not plain: continue
                        if retry == 0: L0, L1 = 3, 1
                        elif opt == 'none': L0, L1 = 2, 1
                        else: L0, L1 = 1, 1
                    else:
                        L0, L1 = (3, 2) if retry < 2 else (3, 1)
                    parts = 1 if (quick or retry == 0) else (4 if retry == 1 else 16)
                    for part in range(parts):
                        B.append(('dec', retry, a, r, opt, L0, L1, part, parts))
    # ---- context manager
    for retry in (0, 1):
        for a in A_SPECS:
            for opt in OPTS:
                B.append(('cm', retry, a, opt, 2 if (quick and (retry or opt != 'none')) else 3))
    # ---- nested sessions
    outers = level_variants(('dec', 'cm'), ('none', 'list'), ('none', 'retry1', 'ddl', 'serializable', 'sql_debug'),
                            (None, 'W', '!O'))
    inners = level_variants(('dec', 'cm'), ('none', 'list'), ('none', 'retry1', 'ddl', 'serializable', 'sql_debug'),
                            (None, 'W', '!O'))
    mids2 = [()]
    mids3 = [(m,) for m in level_variants(('dec', 'cm'), ('none',), ('none',), (None, '!O'))]
    for o in outers:
        B.append(('nest', o, mids2, inners, 1 if quick else 2))
        if quick:
            B.append(('nest', o, mids3, [i for i in inners if not i.get('post')], 1))
        else:
            B.append(('nest', o, mids3, inners, 1))
            B.append(('nest', o, mids3, [i for i in inners if not i.get('post')], 2))
    # ---- web framework integrations
    views = [[], [dict(kind='dec')], [dict(kind='dec', allowed='list')], [dict(kind='cm')],
             [dict(kind='dec', retry=1)], [dict(kind='cm', opt='serializable')], [dict(kind='dec', opt='ddl')]]
    for fam in ('flask', 'bottle'):
        for v in views:
            B.append((fam, v, 3 if not v else 2))
    # ---- generator functions
    for nseg in (1, 2, 3):
        for opt in ('none', 'immediate', 'strict', 'optimistic0', 'sql_debug', 'ddl', 'serializable'):
            for allowed in ('none', 'list'):
                for retry in (0, 1):
                    for inside in (False, True):
                        for between in (False, True):
                            for catch in (False, True):
                                special = (opt != 'none') + (allowed != 'none') + bool(retry) + inside
                                if special > 1: continue          # options are varied one at a time
                                if (opt in ('ddl', 'serializable') or retry or inside) and (between or catch): continue
                                if nseg == 1 and (between or catch): continue
                                if quick and nseg == 3 and special and (between or catch): continue
                                if quick: Lseg = 2 if (nseg < 3 and not special and not between) else 1
                                elif nseg < 3: Lseg = 2 if special else 3
                                else: Lseg = 2 if not (special or between) else 1
                                if (opt in ('ddl', 'serializable') or retry or inside): Lseg = min(Lseg, 1)
                                firsts = scripts(Lseg, ('A', 'O'))
                                if nseg > 1: firsts = [s for s in firsts if not raises(s)]
                                for first in firsts:
                                    B.append(('gen', nseg, opt, allowed, retry, inside, between, catch, Lseg, first))
    return B

REFUSALS = (
    ('retry=-1', dict(retry=-1)), ("retry='1'", dict(retry='1')), ('ddl+retry', dict(ddl=True, retry=1)),
    ('same class allowed and retried', 'same'), ('positional argument', 'positional'),
)

def constructor_refusals(ctx):
    """db_session(...) option combinations the constructor documents as errors."""
    E = env()
    for name, kw in REFUSALS:
        try:
            if kw == 'same': E.orm.db_session(allowed_exceptions=[E.exc['A']], retry_exceptions=[E.exc['A']])
            elif kw == 'positional': E.orm.db_session(1, 2)
            else: E.orm.db_session(**kw)
            got = None
        except Exception as e:
            got = type(e).__name__
        ctx.count('constructor_refusals_checked')
        if got != 'TypeError':
            ctx.violation('constructor accepts ' + name, dict(form='ctor', what=name),
                          'db_session(%s) -> %r, TypeError expected' % (name, got))

def work(args):
    os.environ['VF_C18_DIR'] = args[0]
    sub = core.Sub()
    outcomes = set()
    for block in args[1]:
        for case in cases_of(block):
            check_case(sub, case, outcomes)
    d = sub.dump()
    d['outcomes'] = sorted(outcomes, key=repr)
    return d

def run(ctx):
    d = scratch_dir()
    try:
        B = ctx.shuffled(blocks(ctx.quick))
        n = max(1, ctx.nworkers * 6)
        groups = [B[i::n] for i in range(n)]
        groups = [g for g in groups if g]
        outcomes = set()
        for dumped in ctx.pmap(work, [(d, g) for g in groups]):
            core.absorb(ctx, dumped)
            outcomes.update(tuple(map(lambda x: tuple(x) if isinstance(x, list) else x, o)) for o in dumped['outcomes'])
        constructor_refusals(ctx)
    finally:
        global _ENV
        if _ENV is not None:
            try: _ENV.raw.close()
            except Exception: pass
            try: _ENV.db.disconnect()
            except Exception: pass
            _ENV = None
        shutil.rmtree(d, ignore_errors=True)
    c = ctx.counters
    ctx.cov['distinct_outcomes'] = len(outcomes)
    ctx.cov['blocks'] = len(B)
    ctx.cov['bounds'] = (
        'quick: first-attempt scripts <=3 ops (decorator retry=0, context manager, flask, bottle), <=2 (retry 1-2, plain options), '
        '<=1 (retry 1-2 with strict/immediate/...); later attempts <=1 op; nesting depth 2 and 3 with scripts <=1 op; generators with '
        '1-2 segments of <=2 ops (<=1 with options / a session in between), 3 segments of <=1 op'
        if ctx.quick else
        'thorough: first-attempt scripts <=3 ops everywhere at depth 1; second attempt <=2 ops (retry=1), later attempts <=1 op (retry=2); '
        'nesting depth 2 with scripts <=2 ops, depth 3 with <=1 op (<=2 without an operation after the innermost session); generators '
        'with 1-2 segments of <=3 ops (<=2 with options), 3 segments of <=2 ops (<=1 with options / a session in between)')
    for form, minimum in (('dec', 2000), ('cm', 1000), ('nest', 5000), ('gen', 2000), ('flask', 500), ('bottle', 500)):
        ctx.guard('cases of form ' + form, c.get('cases:' + form, 0), minimum)
    ctx.guard('cases with a propagated exception', c.get('propagated_exception', 0), 1000)
    ctx.guard('cases that committed something', c.get('something_committed', 0), 1000)
    ctx.guard('cases whose body ran more than once', c.get('body_executed_more_than_once', 0), 500)
    ctx.guard('distinct outcomes', len(outcomes), 40)
    ctx.assume('the reference function expected() encodes the documented db_session semantics: commit on normal exit or '
               'allowed exception, rollback otherwise, exception always propagates, retry only for retry_exceptions / '
               'should_retry at most `retry` extra times, inner sessions are ignored, a generator session must be clean when it suspends')
    ctx.assume('where the documentation is silent (exception both allowed and retryable; callables that raise; ddl/serializable '
               'inside a plain session refused or ignored; allowed_exceptions on generator sessions) every reading is accepted and counted as ambiguous:*')
    ctx.assume('Flask and Bottle are ten-line stubs (vf/stubs) that call the real integration code the way the frameworks do')
    return dict(evaluations=c.get('cases', 0), distinct_nontrivial=c.get('nontrivial', 0),
                rule='every (form, configuration, per-attempt scripts / generator segments + driver) tuple is enumerated once; '
                     'non-trivial = the body writes at least one row, so commit vs rollback is observable')

def replay(ctx, case):
    d = scratch_dir()
    try:
        case = dict(case); case.pop('original', None)
        if case.get('form') == 'ctor':
            constructor_refusals(ctx); return not ctx.found
        ok, diff, real, exp, used = judge(case)
        print('case     :', shape(case))
        print('observed : rows=%r executions=%d exception=%r leaks=%r' % (list(real[0]), len(real[1]), real[2], list(real[3])))
        for e in exp:
            print('accepted : rows=%r executions=%d exception in %r' % (list(e[0]), len(e[1]), sorted(map(str, e[2]))))
        if not ok: print('differs in:', '+'.join(diff))
        return ok
    finally:
        shutil.rmtree(d, ignore_errors=True)
