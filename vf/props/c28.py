"""C28 In-place changes to Json and array values are persisted; reading never marks the object.

Bounded-exhaustive enumeration of *programs* (Python source text) that is executed twice: once
against a real Pony object (`obj.data` is a TrackedDict/TrackedList/TrackedArray on a real SQLite
database) and once against a plain holder object whose `.data` is a plain deep copy.  The plain run
is the oracle.  After the Pony run the session commits and a NEW db_session must read a value equal
to the plain result.

Space (see _c28_space.py):
  documents   two Json documents that are the complete {dict, list} kind-tree down to nesting 2
              (root -> child -> grandchild; 7 containers each, leaves hold scalars) and three arrays
              (IntArray, StrArray, FloatArray)
  steps       every mutating method / operator form of dict and list (item + slice assignment and
              deletion, append/extend/insert/pop/remove/sort(key=, reverse=)/reverse/clear, update
              in all call forms, setdefault, pop, popitem, clear, +=, *=, |=), inserted values
              scalar and container, applied to every container of the *current* document
  routes      through the attribute (`obj.data[..][..] op`), through a local alias bound at every
              prefix of the path (`a = obj.data[..]; a[..] op`, full alias `a op`), and - for the
              last hop - through .get()/.copy()[k]/values()/iteration/slices/negative index
  programs    length 1 and length 2 (second step enumerated on the document produced by the
              first), with and without a flush() between the steps
  origins     object loaded from the database, created in this session (before / after flush),
              assigned in this session (before / after flush)          [all routes, length 1; read-only too]
  contexts    (class Context; origin = '<provenance>-<phase>[+<modifier>]') the state of the object and the
              provenance of the value before the first step:
              object pre-state  a pending change on ANOTHER attribute (scalar assigned / Json-or-array assigned /
                                Json-or-array changed in place) of a loaded, inserted, updated or committed
                                object; another attribute saved in this session; after commit() inside the
                                same db_session (loaded / assigned / created objects)
              provenance        assigned from ANOTHER object's tracked value (root and nested part), from the
                                same object's sibling attribute, from the object's own nested part, passed to
                                the constructor from another object's value, and the donor side (the object's
                                value was assigned to another object) - each pending, flushed and committed,
                                some combined with a pre-state modifier
              length-1 mutation programs in every context, read-only programs in RO_CONTEXTS; routes
              {attribute, full alias} in the quick tier, all routes in the thorough tier; the thorough tier
              also runs length-2 programs (attribute route, flush between the steps) in LEN2_CONTEXTS
  loading     (origin suffix '@<load>', see LOADS) HOW the database value reaches memory - which call site builds the
  paths       tracked value: Json/array attributes declared lazy=True (separate SELECT on first access, and fetched by
              obj.load()), declared volatile=True (value dropped at every save and fetched again), object obtained
              from select_by_sql() with only id + a scalar column (rest fetched on first access), rows fetched again
              by a query after the setup. Each x LOAD_BASES (loaded / after commit / pending in-place change
              elsewhere / assigned+flushed / created+flushed / from the lazy|volatile sibling / donor): length-1
              mutation programs (routes as in the added contexts), read-only programs in LOAD_RO_BASES; thorough:
              length-2 programs (attribute route, flush between the steps) in LOAD_LEN2_CONTEXTS. The plain twin takes
              over the KEY ORDER Pony delivers before the first step / after the flush (key order is not part of a
              Json value; the database text is key-sorted), values must be equal.
  read-only   indexing, iteration, len, in, get, keys/values/items, copy, get_untracked,
              comparison, json.dumps, repr, pickle, copy/deepcopy, concatenation, mutation of a
              copy - must leave status AND write bits unchanged and emit no INSERT/UPDATE/DELETE for a
              row that had nothing pending (driver log with parameters through bind(factory=...)).

Oracle per program: (1) after every step the in-memory value equals the plain result; (2) a step that
changed the value leaves the object 'modified'/'created' and, when 'modified', with the write bit of
THAT attribute set; (3) a read leaves (status, write bits) as they were; (4) the second object of the
context (only read after the setup) keeps (status, write bits), keeps its values in memory, and its row
is not written unless it had a pending change from the setup; (5) after commit a new db_session reads
the plain result for the target and the expected values for every other attribute of both rows.
Signatures name the context only when the same program passes from origin 'loaded' (and, for a
modifier, passes without the modifier; for a loading path, passes with the value loaded by Entity[pk]):
'<kind>:ctx[<provenance-phase> | +<modifier> | @<load>]:<shape>:<what>';
four or more operation shapes failing alike in one context collapse to shape '*'.
"""
import os, sys, json, copy, pickle, hashlib, sqlite3, itertools, shutil, atexit
from vf import core
from vf.props import _c28_space as space

LEVEL = 'model_checking'

# ---- driver log seam ---------------------------------------------------------------------------
SQLLOG = []          # statement texts
SQLARGS = []         # parallel: the parameter tuple of each statement (None for executemany)
class RecCursor(sqlite3.Cursor):
    def execute(self, sql, *a):
        SQLLOG.append(sql); SQLARGS.append(a[0] if a else ())
        return sqlite3.Cursor.execute(self, sql, *a)
    def executemany(self, sql, *a):
        SQLLOG.append(sql); SQLARGS.append(None)
        return sqlite3.Cursor.executemany(self, sql, *a)

def written_rows(start):
    """[(table, pk or None, statement)] of the INSERT/UPDATE/DELETE statements logged since `start`"""
    out = []
    for sql, args in zip(SQLLOG[start:], SQLARGS[start:]):
        head = sql.lstrip()[:6].upper()
        if head not in ('UPDATE', 'INSERT', 'DELETE'): continue
        pk = None
        try:
            table = sql.split('"')[1]
            if head == 'UPDATE': pk = args[sql[:sql.index('WHERE')].count('?')]
            elif head == 'DELETE': pk = args[0]
            else:
                cols = sql[sql.index('(') + 1:sql.index(')')].replace('"', '').replace(' ', '').split(',')
                pk = args[cols.index('id')]
        except Exception: table = '?'
        out.append((table, pk, sql))
    return out
class RecConnection(sqlite3.Connection):
    def cursor(self, *a, **k):
        return sqlite3.Connection.cursor(self, RecCursor)

class Holder(object):
    """the plain twin: .data is an ordinary dict / list"""
    def __init__(self, data): self.data = data

class KV(object):
    """mapping-protocol object (keys() + __getitem__) for dict.update(obj)"""
    def keys(self): return ['z', 'k']
    def __getitem__(self, k): return {'z': 9, 'k': [5]}[k]

_CODE = {}
def _compile(src):
    c = _CODE.get(src)
    if c is None: c = _CODE[src] = compile(src, '<c28 step>', 'exec')
    return c

def _untrack(v):
    # Pony side: the documented way to get a plain copy; plain side: a deep copy
    return v.get_untracked() if hasattr(v, 'get_untracked') else copy.deepcopy(v)

def _ns(obj):
    return dict(obj=obj, KV=KV, json=json, copy=copy, pickle=pickle, UNTRACK=_untrack)

def canon(v):
    return json.dumps(v, sort_keys=True)

# ---- contexts: how the object and its value came to be before the first step -----------------------
# origin = '<provenance>-<phase>[+<pre-state modifier>]'  (the five historical names are aliases)
#   provenance  db          value loaded from the database
#               literal     obj.attr = <plain value>
#               ctor        Entity(id=1, attr=<plain value>)
#               peer        obj.attr = peer.attr            (tracked value of ANOTHER object, same attribute)
#               peernested  obj.attr = peer.attr['w']       (nested tracked value of another object; Json only)
#               sibling     obj.attr = obj.<sibling attr>   (tracked value of the SAME object, other attribute)
#               ctorpeer    Entity(id=1, attr=peer.attr)
#               donor       peer.attr = obj.attr            (obj's value was handed to another object)
#               selfnested  obj.attr = obj.attr['w']        (own nested tracked value becomes the root; Json only)
#   phase       pending (nothing flushed) | flushed (flush()) | committed (commit(), same db_session)
#   modifier    dirty-scalar   obj.note = 'x'               pending change on ANOTHER (scalar) attribute
#               dirty-json     obj.other = <new value>      pending change on another Json/array attribute
#               dirty-inplace  in-place change of another Json/array attribute
#               clean-other    obj.note = 'x'; flush()      another attribute was saved in this session
ALIASES = dict(loaded='db-pending', inserted='ctor-flushed', created='ctor-pending', updated='literal-flushed',
               assigned='literal-pending')
SIBLING = dict(json='tail', IntArray='ia2', StrArray='sa2', FloatArray='fa2')
PROVENANCES = ('db', 'literal', 'ctor', 'peer', 'peernested', 'sibling', 'ctorpeer', 'donor', 'selfnested')
PHASES = ('pending', 'flushed', 'committed')
MODIFIERS = ('', 'dirty-scalar', 'dirty-json', 'dirty-inplace', 'clean-other')
# loading path '@<load>': HOW a database value reaches obj._vals_ (which converter call site builds the tracked value)
#   (none)     Entity[pk]: the row is fetched with all columns (Entity._db_set_)
#   lazy       the Json/array attributes are declared lazy=True: separate SELECT on first access (Attribute.db_set)
#   lazyload   lazy=True attributes fetched by an explicit obj.load()
#   volatile   the Json/array attributes are declared volatile=True (no read bit; the value is dropped at every save
#              and fetched again on the next access)
#   partial    the object comes from select_by_sql() with the id and a scalar column only; the rest is fetched on
#              first access (Entity._load_)
#   refetch    after the setup the rows are fetched AGAIN by a query (Entity._db_set_ on objects that hold values)
LOADS = ('', 'lazy', 'lazyload', 'volatile', 'partial', 'refetch')
LOAD_DECL = dict(lazy=dict(lazy=True), lazyload=dict(lazy=True), volatile=dict(volatile=True))

def origin_load(origin):
    load = origin.partition('@')[2]
    assert load in LOADS, origin
    return load

def parse_origin(origin):
    origin = origin.partition('@')[0]
    base, _, mod = origin.partition('+')
    prov, phase = ALIASES.get(base, base).split('-')
    assert prov in PROVENANCES and phase in PHASES and mod in MODIFIERS, origin
    return prov, phase, mod

class Context(object):
    """fixture rows + in-session setup + the expected values of everything that is NOT the target"""
    def __init__(self, vk, origin, doc):
        self.vk, self.origin, self.doc = vk, origin, doc
        self.prov, self.phase, self.mod = prov, phase, mod = parse_origin(origin)
        self.load = origin_load(origin)
        self.json = js = vk == 'json'
        self.target = t = 'data' if js else space.ARRAY_ATTR[vk]
        self.sib = sib = SIBLING[vk]
        if js:
            row = dict(note='n', other={'o': [1]}, data={'old': [0]}, tail=[{'t': 1}])
            self.other2, self.inplace_attr, self.inplace_val = {'o': [2]}, 'other', {'o': [1, 2]}
        else:
            row = dict(note='n', other=[7], ia=[], sa=[], fa=[], ia2=[], sa2=[], fa2=[])
            row[t] = doc[:1]
            self.other2, self.inplace_attr, self.inplace_val = [7, 8], 'other', [7, 8]
        if prov in ('peernested', 'selfnested') and not js: raise ValueError('Json only: ' + origin)
        r1, r2 = copy.deepcopy(row), None
        if prov == 'db': r1[t] = doc
        elif prov == 'ctor': r1 = None
        elif prov == 'peer': r2 = dict(copy.deepcopy(row)); r2[t] = doc
        elif prov == 'peernested': r2 = dict(copy.deepcopy(row)); r2[t] = {'w': doc}
        elif prov == 'sibling': r1[sib] = doc
        elif prov == 'ctorpeer': r1 = None; r2 = dict(copy.deepcopy(row)); r2[t] = doc
        elif prov == 'donor': r1[t] = doc; r2 = copy.deepcopy(row)
        elif prov == 'selfnested': r1[t] = {'w': doc}
        self.rows = {1: r1, 2: r2}
        self.ctor_row = copy.deepcopy(row)
        # what a new session (and memory) must show for everything but obj.<target>
        e1 = copy.deepcopy(r1 if r1 is not None else row); e1.pop(t)
        if prov == 'sibling': e1[sib] = copy.deepcopy(doc)
        if mod in ('dirty-scalar', 'clean-other'): e1['note'] = 'x'
        elif mod == 'dirty-json': e1['other'] = copy.deepcopy(self.other2)
        elif mod == 'dirty-inplace': e1[self.inplace_attr] = copy.deepcopy(self.inplace_val)
        e2 = copy.deepcopy(r2)
        if prov == 'donor': e2[t] = copy.deepcopy(doc)      # the value at the time of the assignment
        self.expect = {1: e1, 2: e2}

    def setup(self, env):
        """inside a db_session; returns (obj, peer or None)"""
        orm, ent, t, doc = env.orm, env.entity(self.vk, self.load), self.target, self.doc
        prov, peer, load = self.prov, None, self.load
        def fetch(pk):
            if load == 'partial':
                o = ent.select_by_sql('select id, note from "%s" where id = %d' % (ent._table_, pk))[0]
            else: o = ent[pk]
            if load == 'lazyload': o.load()
            return o
        if prov in ('ctor', 'ctorpeer'):
            kw = copy.deepcopy(self.ctor_row)
            if prov == 'ctor': kw[t] = copy.deepcopy(doc)
            else:
                peer = fetch(2); kw[t] = getattr(peer, t)
            obj = ent(id=1, **kw)
        else:
            obj = fetch(1)
            if prov == 'db': getattr(obj, t)
            elif prov == 'literal': setattr(obj, t, copy.deepcopy(doc))
            elif prov == 'peer': peer = fetch(2); setattr(obj, t, getattr(peer, t))
            elif prov == 'peernested': peer = fetch(2); setattr(obj, t, getattr(peer, t)['w'])
            elif prov == 'sibling': setattr(obj, t, getattr(obj, self.sib))
            elif prov == 'donor': peer = fetch(2); setattr(peer, t, getattr(obj, t))
            elif prov == 'selfnested': setattr(obj, t, getattr(obj, t)['w'])
        if self.phase == 'flushed': orm.flush()
        elif self.phase == 'committed': orm.commit()
        if load == 'refetch':
            again = ent.select().order_by(ent.id)[:]
            assert obj in again
        mod = self.mod
        if mod == 'dirty-scalar': obj.note = 'x'
        elif mod == 'dirty-json': obj.other = copy.deepcopy(self.other2)
        elif mod == 'dirty-inplace':
            v = getattr(obj, self.inplace_attr)
            if self.json: v['o'].append(2)
            else: v.append(8)
        elif mod == 'clean-other':
            obj.note = 'x'; orm.flush()
        return obj, peer

def _plainval(v):
    return v.get_untracked() if hasattr(v, 'get_untracked') else v

def mismatches(o, expected):
    """attributes of entity instance `o` whose value differs from the expected plain value"""
    bad = []
    for name in sorted(expected):
        got = _plainval(getattr(o, name))
        want = expected[name]
        if not (got == want and (isinstance(want, str) or canon(got) == canon(want))):
            bad.append('%s=%s (expected %s)' % (name, canon(got), canon(want)))
    return bad

# ---- the environment (one per process) -----------------------------------------------------------
class Env(object):
    _inst = None
    @classmethod
    def get(cls):
        if cls._inst is None or cls._inst.pid != os.getpid():
            cls._inst = Env()
        return cls._inst
    def __init__(self):
        from pony import orm
        self.pid = os.getpid()
        self.orm = orm
        db = self.db = orm.Database()
        def entity(name, columns, **decl):
            # the same attributes in the same order; `decl` (lazy=True / volatile=True) on every Json/array attribute
            attrs = [('id', orm.PrimaryKey(int)), ('note', orm.Optional(str))]
            attrs += [(n, orm.Optional(t, **decl)) for n, t in columns]
            return type(name, (db.Entity,), dict(attrs))
        jcols = [('other', orm.Json), ('data', orm.Json), ('tail', orm.Json)]
        acols = [('other', orm.IntArray), ('ia', orm.IntArray), ('sa', orm.StrArray), ('fa', orm.FloatArray),
                 ('ia2', orm.IntArray), ('sa2', orm.StrArray), ('fa2', orm.FloatArray)]
        self.entities = {}
        for suffix, decl in (('', {}), ('L', dict(lazy=True)), ('V', dict(volatile=True))):
            self.entities[True, suffix] = entity('E' + suffix, jcols, **decl)
            self.entities[False, suffix] = entity('A' + suffix, acols, **decl)
        self.E, self.A = self.entities[True, ''], self.entities[False, '']
        # private in-memory database; the pooled connection survives between db_sessions, every
        # db_session has a fresh cache, so a new session can only see what was really written
        db.bind('sqlite', ':memory:', factory=RecConnection)
        db.generate_mapping(create_tables=True)
        self.raw = db.provider.pool.con
        assert isinstance(self.raw, RecConnection)
        from pony.orm.ormtypes import TrackedValue
        self.TrackedValue = TrackedValue

    def entity(self, vk, load):
        suffix = 'L' if load in ('lazy', 'lazyload') else 'V' if load == 'volatile' else ''
        return self.entities[vk == 'json', suffix]

    # -- fixture ------------------------------------------------------------------------------
    def reset(self, cx):
        raw = self.raw
        table = self.entity(cx.vk, cx.load)._table_
        raw.execute('delete from %s' % table)
        for pk in (1, 2):
            row = cx.rows[pk]
            if row is None: continue
            cols = sorted(row)
            raw.execute('insert into %s (id, %s) values (?, %s)' % (table, ', '.join(cols), ', '.join('?' * len(cols))),
                        [pk] + [row[c] if c == 'note' else json.dumps(row[c]) for c in cols])

def _exec(src, ns):
    try:
        exec(_compile(src), ns)
    except Exception as e:
        return type(e).__name__
    return None

def _marks(o):
    return (o._status_, o._wbits_)

def run_program(prog, diagnose=False):
    """Execute one program against Pony and against the plain twin.
    Returns dict(problems=[(step_index or None, kind, detail)], changed=bool, states=[...], refused=..)"""
    env = Env.get()
    orm = env.orm
    vk, origin, steps, flush_between = prog['vk'], prog['origin'], prog['steps'], prog.get('flush', False)
    doc = copy.deepcopy(prog['docvalue']) if prog.get('docvalue') is not None else space.document(vk, prog['doc'])
    attrname = 'data' if vk == 'json' else space.ARRAY_ATTR[vk]
    readonly = prog.get('readonly', False)
    cx = Context(vk, origin, doc)
    env.reset(cx)
    ent = env.entity(vk, cx.load)
    plain = Holder(copy.deepcopy(doc))
    if attrname != 'data': setattr(plain, attrname, plain.data)
    problems, states, notes = [], [], []
    out = dict(problems=problems, states=states, notes=notes, changed=False, refused=0, both_raise=0,
               executed_steps=0, untracked_after=None, raised=[], refused_steps=[], mark_status=None)
    del SQLLOG[:]; del SQLARGS[:]
    try:
        with orm.db_session:
            obj, peer = cx.setup(env)
            mark = len(SQLLOG)
            bit = obj._bits_[getattr(ent, attrname)]
            obj_marks = _marks(obj)                       # (status, write bits) the reads must preserve
            peer_marks = _marks(peer) if peer is not None else None
            out['mark_status'] = obj_marks[0]
            # rows that legitimately have something to write at this point
            def pending_rows():
                return set(o._pk_ for o in (obj, peer) if o is not None and o._status_ in ('created', 'modified'))
            def check_writes(start, pending):
                allowed = set(pending)
                if not readonly: allowed.add(1)
                for table, pk, sql in written_rows(start):
                    if pk not in allowed:
                        if pk == 1: problems.append((None, 'write-after-read', sql[:80]))
                        else: problems.append((None, 'bystander-written', 'row %r was only read: %s' % (pk, sql[:80])))
                        break
            pending = pending_rows()
            def adopt_key_order():
                # the order of the keys is not part of a Json value: a value that came (back) from the database has
                # the order the database text has; the plain twin takes over the order Pony delivers (equal values only)
                tv = _plainval(getattr(obj, attrname))
                if canon(tv) == canon(getattr(plain, attrname)):
                    plain.data = copy.deepcopy(tv)
                    if attrname != 'data': setattr(plain, attrname, plain.data)
            if cx.load:
                adopt_key_order()
                obj_marks = _marks(obj)
            saved = canon(getattr(plain, attrname))       # value at the last save point
            ns_t, ns_p = _ns(obj), _ns(plain)
            for i, src in enumerate(steps):
                if i and flush_between:
                    orm.flush()
                    if cx.load: adopt_key_order()
                    saved = canon(getattr(plain, attrname))
                    if obj._status_ == 'modified':
                        problems.append((i, 'flush-left-modified', ''))
                    obj_marks = _marks(obj)
                    if peer is not None: peer_marks = _marks(peer)
                    check_writes(mark, pending)
                    mark, pending = len(SQLLOG), pending_rows()
                before = copy.deepcopy(getattr(plain, attrname))
                ex_p = _exec(src, ns_p)
                ex_t = _exec(src, ns_t)
                out['executed_steps'] += 1
                if ex_t is not None and ex_p is None:
                    # Pony refused something plain Python does: allowed; the oracle forgets the step
                    out['refused'] += 1
                    out['refused_steps'].append(i)
                    notes.append('refused:%s' % ex_t)
                    plain.data = before
                    if attrname != 'data': setattr(plain, attrname, before)
                    ns_p = _ns(plain)
                elif ex_t is None and ex_p is not None:
                    problems.append((i, 'no-exception', 'plain Python raised %s, tracked value did not' % ex_p))
                elif ex_t is not None:
                    out['both_raise'] += 1
                    out['raised'].append(i)
                pv = getattr(plain, attrname)
                tv = getattr(obj, attrname)
                cur = canon(pv)
                if not (tv == pv and canon(tv) == cur):
                    problems.append((i, 'memory', 'in-memory value %s, plain Python gives %s' % (canon(tv), cur)))
                status = obj._status_
                if readonly:
                    if _marks(obj) != obj_marks:
                        problems.append((i, 'marked-by-read', 'status, write bits %r -> %r' % (obj_marks, _marks(obj))))
                elif cur != saved and status not in ('modified', 'created'):
                    problems.append((i, 'not-marked', 'value changed but status is %r' % status))
                elif cur != saved and status == 'modified' and not (obj._wbits_ & bit):
                    problems.append((i, 'not-marked', 'value changed, status is %r but the write bit of %s is not set '
                                     '(write bits %r)' % (status, attrname, obj._wbits_)))
                if peer is not None and _marks(peer) != peer_marks:
                    problems.append((i, 'bystander-marked', 'the other object was only read: status, write bits %r -> %r'
                                     % (peer_marks, _marks(peer))))
                states.append((status, cur))
                if diagnose and out['untracked_after'] is None and _untracked(env, obj, tv):
                    out['untracked_after'] = i
            final = getattr(plain, attrname)
            out['changed'] = canon(final) != canon(doc)
            # everything that is not the target still has its value in memory
            bad = mismatches(obj, cx.expect[1])
            if bad: problems.append((None, 'neighbour-memory', 'other attribute changed in memory: ' + '; '.join(bad)))
            if peer is not None:
                bad = mismatches(peer, cx.expect[2])
                if bad: problems.append((None, 'bystander-memory', 'the other object changed in memory: ' + '; '.join(bad)))
        # session left normally -> commit
        check_writes(mark, pending)
        with orm.db_session:
            obj2 = ent[1]
            got = getattr(obj2, attrname)
            if not (got == final and canon(got) == canon(final)):
                problems.append((None, 'persisted', 'new session reads %s, expected %s' % (canon(got), canon(final))))
            # the neighbours must be untouched
            bad = mismatches(obj2, cx.expect[1])
            if bad: problems.append((None, 'neighbour', 'other attribute changed: ' + '; '.join(bad)))
            if cx.expect[2] is not None:
                bad = mismatches(ent[2], cx.expect[2])
                if bad: problems.append((None, 'bystander-persisted', 'the other object changed: ' + '; '.join(bad)))
    except Exception as e:
        import traceback
        problems.append((None, 'session-error', '%s: %s' % (type(e).__name__, str(e)[:200])))
        try: orm.rollback()
        except Exception: pass
    return out

def _untracked(env, obj, value):
    """is there a nested dict/list that is not a tracked value bound to obj? (diagnosis only)"""
    TV = env.TrackedValue
    stack = [value]
    while stack:
        v = stack.pop()
        if isinstance(v, (dict, list)):
            if not isinstance(v, TV) or v.obj_ref() is not obj: return True
            stack.extend(v.values() if isinstance(v, dict) else v)
    return False

PRIORITY = ('not-marked', 'marked-by-read', 'write-after-read', 'memory', 'persisted', 'bystander-marked',
            'bystander-written', 'bystander-memory', 'bystander-persisted', 'neighbour', 'neighbour-memory',
            'no-exception', 'flush-left-modified', 'session-error')

# ---- signatures ------------------------------------------------------------------------------------
def signature(prog, res):
    """minimal failing shape: value kind + container kind + method/operator + access route + what
    disagreed. Sequences are first shrunk by operation removal (the removed first step is replaced
    by its plain-Python effect on the initial document)."""
    problems = res['problems']
    metas = prog['meta']
    kinds = set(k for _, k, _ in problems)
    primary = [k for k in PRIORITY if k in kinds][0]
    vkind = 'json' if prog['vk'] == 'json' else 'array'
    def shape(m, j):
        return '%s:%s%s:%s' % (m['ckind'], m['op'], '!raises' if j in res['raised'] else '', m['route'])
    if '@' in prog['origin']:
        # a loading path: is it part of the minimal shape? (the same program with the value loaded by Entity[pk])
        plain_origin = prog['origin'].partition('@')[0]
        r = run_program(dict(prog, origin=plain_origin))
        if r['problems']: return signature(dict(prog, origin=plain_origin), r)
        feature = '@' + origin_load(prog['origin'])
        if len(metas) == 1:
            return '%s:ctx[%s]:%s:%s' % (vkind, feature, shape(metas[0], 0), primary)
        return '%s:ctx[%s]:seq[%s%s%s]:%s' % (vkind, feature, shape(metas[0], 0),
                                             ' ; flush ; ' if prog.get('flush') else ' ; ', shape(metas[1], 1), primary)
    if prog['origin'] not in ALIASES:
        # a context beyond the five historical origins: is the context part of the minimal shape?
        r = run_program(dict(prog, origin='loaded'))
        if r['problems']: return signature(dict(prog, origin='loaded'), r)
        base, _, mod = prog['origin'].partition('+')
        feature = base
        if mod:
            r = run_program(dict(prog, origin=base))
            if r['problems']: return signature(dict(prog, origin=base), r)
            feature = '+' + mod          # fails only with the pre-state modifier
        if len(metas) == 1:
            return '%s:ctx[%s]:%s:%s' % (vkind, feature, shape(metas[0], 0), primary)
        return '%s:ctx[%s]:seq[%s%s%s]:%s' % (vkind, feature, shape(metas[0], 0),
                                             ' ; flush ; ' if prog.get('flush') else ' ; ', shape(metas[1], 1), primary)
    if len(metas) == 1:
        return '%s:%s:%s' % (vkind, shape(metas[0], 0), primary)
    base = dict(prog, flush=False)
    first = dict(base, steps=prog['steps'][:1], meta=metas[:1])
    r = run_program(first)
    if r['problems']: return signature(first, r)
    doc = copy.deepcopy(prog['docvalue']) if prog.get('docvalue') is not None else space.document(prog['vk'], prog['doc'])
    # a first step that Pony refused had no effect
    mid = doc if 0 in res.get('refused_steps', ()) else space.apply_plain(prog['vk'], doc, prog['steps'][0])
    if mid is not None:
        second = dict(base, steps=prog['steps'][1:], meta=metas[1:], docvalue=mid)
        r = run_program(second)
        if r['problems']: return signature(second, r)
    # genuine interaction of two steps
    diag = run_program(prog, diagnose=True)
    ua = diag['untracked_after']
    if ua is not None and ua < len(metas) - 1:
        return '%s:%s:inserted-container-untracked' % (vkind, shape(metas[ua], ua))
    return '%s:seq[%s%s%s]:%s' % (vkind, shape(metas[0], 0), ' ; flush ; ' if prog.get('flush') else ' ; ',
                                 shape(metas[1], 1), primary)

# ---- workers ------------------------------------------------------------------------------------------
def work(item):
    """item: dict(vk, doc, origin, mode, first=[indices], flush, routes2)"""
    sub = core.Sub()
    sub.states = set()
    sub.keys = 0
    sub.traces = 0
    vk, docname, origin = item['vk'], item['doc'], item['origin']
    doc = space.document(vk, docname)
    if item['mode'] == 'ro':
        steps1 = space.steps(vk, doc, readonly=True, routes=item['routes'])
        for k in item['first']:
            src, meta = steps1[k]
            prog = dict(vk=vk, doc=docname, origin=origin, steps=[src], meta=[meta], readonly=True)
            _one(sub, prog)
    elif item['mode'] == 'len1':
        steps1 = space.steps(vk, doc, readonly=False, routes=item['routes'])
        for k in item['first']:
            src, meta = steps1[k]
            prog = dict(vk=vk, doc=docname, origin=origin, steps=[src], meta=[meta])
            _one(sub, prog)
    else:
        steps1 = space.steps(vk, doc, readonly=False, routes=item['routes'])
        for k in item['first']:
            src1, meta1 = steps1[k]
            mid = space.apply_plain(vk, doc, src1)
            if mid is None:
                sub.count('len2_first_step_raises_skipped')
                continue
            tainted = space.shared_paths(mid)
            for src2, meta2 in space.steps(vk, mid, readonly=False, routes=item['routes2']):
                if tainted and any(tuple(meta2['path'][:n]) in tainted for n in range(len(meta2['path']) + 1)):
                    # step 1 (list *= n) made one container reachable by two paths; a Json value is a
                    # tree, Pony may or may not keep the sharing -> outside the data model, not judged
                    sub.count('len2_second_step_inside_shared_subtree_skipped')
                    continue
                for fl in item['flush']:
                    prog = dict(vk=vk, doc=docname, origin=origin, steps=[src1, src2], meta=[meta1, meta2], flush=fl)
                    _one(sub, prog)
    d = sub.dump()
    d['states'] = sorted(sub.states)
    d['keys'] = sub.keys
    return d

def _one(sub, prog):
    res = run_program(prog)
    sub.keys += 1
    sub.count('programs')
    sub.count('programs:%s:%s' % (prog['vk'], 'readonly' if prog.get('readonly') else 'len%d' % len(prog['steps'])))
    sub.count('steps_executed', res['executed_steps'])
    if prog['origin'] not in ALIASES:
        sub.count('programs_in_added_contexts')
        sub.count('context:%s:%s' % (prog['origin'], 'readonly' if prog.get('readonly') else 'len%d' % len(prog['steps'])))
    load = origin_load(prog['origin'])
    if load:
        sub.count('programs_with_loading_path')
        sub.count('loading_path:%s' % load)
    sub.count('status_before_first_step:%s' % res['mark_status'])
    if res['refused']: sub.count('steps_refused_by_pony', res['refused'])
    for n in res['notes']: sub.count(n)
    if res['refused']:
        for m in prog['meta']: sub.count('refused_program_with:%s:%s' % ('json' if prog['vk'] == 'json' else 'array', m['op']))
    if res['both_raise']: sub.count('steps_raising_in_python_too', res['both_raise'])
    if res['changed']: sub.count('programs_changing_the_value')
    prov, _, mod = parse_origin(prog['origin'])
    if prov in ('db', 'literal', 'ctor'): prov = ''       # the historical origins: told apart by the status alone
    if load: prov += '@' + load
    for st, cur in res['states']:
        # a state = value kind, provenance of the value, pending change elsewhere, object status, value
        sub.states.add(hashlib.md5(('%s|%s|%s|%s|%s' % (prog['vk'], prov, mod, st, cur)).encode()).hexdigest()[:12])
    if len(sub.samples) < 1 and len(prog['steps']) == 2 and res['changed'] and prog.get('flush'):
        sub.sample(dict(vk=prog['vk'], doc=prog['doc'], origin=prog['origin'], steps=prog['steps'], flush=True))
    if res['problems']:
        sig = signature(prog, res)
        case = dict(vk=prog['vk'], doc=prog['doc'], origin=prog['origin'], steps=prog['steps'],
                    flush=prog.get('flush', False), readonly=prog.get('readonly', False), meta=prog['meta'])
        sub.violation(sig, case, '; '.join('%s%s: %s' % (k, '' if i is None else '@step%d' % i, d)
                                           for i, k, d in res['problems'])[:500]
                      + ' | program: ' + ' ;; '.join(prog['steps']))

ORIGINS = ('loaded', 'inserted', 'updated', 'created', 'assigned')
RO_ORIGINS = ('loaded', 'inserted', 'updated')
# contexts beyond the historical origins (see Context): object pre-states x value provenances
PRESTATE_CONTEXTS = (
    'db-pending+dirty-scalar', 'db-pending+dirty-json', 'db-pending+dirty-inplace', 'db-pending+clean-other',
    'ctor-flushed+dirty-scalar', 'literal-flushed+dirty-scalar', 'literal-flushed+dirty-inplace',
    'db-committed', 'literal-committed', 'ctor-committed', 'db-committed+dirty-scalar')
PROVENANCE_CONTEXTS = tuple('%s-%s' % (p, ph) for p in ('peer', 'peernested', 'sibling', 'ctorpeer', 'donor', 'selfnested')
                            for ph in PHASES) + ('peer-flushed+dirty-scalar', 'donor-flushed+dirty-scalar',
                                                 'sibling-flushed+dirty-inplace')
CONTEXTS = PRESTATE_CONTEXTS + PROVENANCE_CONTEXTS
RO_CONTEXTS = ('db-pending+dirty-scalar', 'db-pending+dirty-inplace', 'db-committed', 'literal-pending', 'ctor-pending',
               'peer-pending', 'peer-flushed', 'peer-committed', 'peernested-flushed', 'sibling-pending',
               'sibling-flushed', 'ctorpeer-pending', 'ctorpeer-flushed', 'donor-pending', 'donor-flushed',
               'selfnested-flushed')
LEN2_CONTEXTS = ('db-pending+dirty-scalar', 'peer-pending', 'sibling-pending', 'donor-pending')
# loading paths x the contexts in which a value (re)enters memory from the database
LOAD_BASES = ('db-pending', 'db-committed', 'db-pending+dirty-inplace', 'literal-flushed', 'ctor-flushed',
              'sibling-pending', 'donor-pending')
LOAD_RO_BASES = ('db-pending', 'literal-flushed', 'donor-pending')

def applicable(vk, origin):
    prov = parse_origin(origin)[0]
    if prov == 'ctor' and origin_load(origin) in ('lazy', 'lazyload', 'partial'): return False   # nothing is loaded
    return vk == 'json' or prov not in ('peernested', 'selfnested')
LOAD_CONTEXTS = tuple('%s@%s' % (b, l) for l in LOADS[1:] for b in LOAD_BASES if applicable('json', '%s@%s' % (b, l)))
LOAD_RO_CONTEXTS = tuple('%s@%s' % (b, l) for l in LOADS[1:] for b in LOAD_RO_BASES)
LOAD_LEN2_CONTEXTS = ('db-pending@lazy', 'db-pending@volatile', 'literal-flushed@volatile', 'db-pending@partial')

def plan(ctx):
    items = []
    def chunks(n, size):
        return [list(range(i, min(n, i + size))) for i in range(0, n, size)]
    wide = 'core' if ctx.quick else 'all'        # routes of the programs run in the added contexts
    for vk, docname in space.DOCUMENTS:
        doc = space.document(vk, docname)
        n = dict((ro, dict((r, len(space.steps(vk, doc, readonly=ro, routes=r))) for r in ('all', 'core')))
                 for ro in (False, True))
        for origin in ORIGINS:
            for ch in chunks(n[False]['all'], 100):
                items.append(dict(vk=vk, doc=docname, origin=origin, mode='len1', routes='all', first=ch))
        for origin in RO_ORIGINS:
            for ch in chunks(n[True]['all'], 100):
                items.append(dict(vk=vk, doc=docname, origin=origin, mode='ro', routes='all', first=ch))
        for origin in CONTEXTS + LOAD_CONTEXTS:
            if not applicable(vk, origin): continue
            for ch in chunks(n[False][wide], 100):
                items.append(dict(vk=vk, doc=docname, origin=origin, mode='len1', routes=wide, first=ch))
        for origin in RO_CONTEXTS + LOAD_RO_CONTEXTS:
            if not applicable(vk, origin): continue
            for ch in chunks(n[True][wide], 100):
                items.append(dict(vk=vk, doc=docname, origin=origin, mode='ro', routes=wide, first=ch))
        # length 2: (routes of step 1, routes of step 2, origins, flush variants)
        if ctx.quick:
            combos = [('attr+aug-alias', 'core', ('loaded',), (True,))]
        else:
            combos = [('core', 'all', ('loaded',), (True,)),
                      ('core', 'core', ('loaded',), (False,)),
                      ('core', 'core', ('inserted', 'updated'), (True,)),
                      ('attr', 'attr', LEN2_CONTEXTS + LOAD_LEN2_CONTEXTS, (True,))]
        for r1, r2, origins2, flushes in combos:
            n1 = len(space.steps(vk, doc, readonly=False, routes=r1))
            for origin in origins2:
                for ch in chunks(n1, 2 if vk == 'json' else 8):
                    items.append(dict(vk=vk, doc=docname, origin=origin, mode='len2', routes=r1, routes2=r2,
                                      first=ch, flush=flushes))
    return items

def run(ctx):
    items = plan(ctx)
    ctx.count('work_items', len(items))
    results = ctx.pmap(work, ctx.shuffled(items))
    states = set()
    keys = 0
    for d in results:
        core.absorb(ctx, d)
        states.update(d['states'])
        keys += d['keys']
    collapse_routes(ctx)
    collapse_contexts(ctx)
    c = ctx.counters
    ctx.guard('programs executed', c.get('programs', 0), 5000)
    ctx.guard('programs that change the value', c.get('programs_changing_the_value', 0), 2000)
    ctx.guard('read-only programs', c.get('programs:json:readonly', 0), 300)
    ctx.guard('array programs', sum(v for k, v in c.items() if k.startswith('programs:') and not k.startswith('programs:json')), 500)
    ctx.guard('length-2 programs', c.get('programs:json:len2', 0), 1000)
    ctx.guard('programs in the added contexts', c.get('programs_in_added_contexts', 0), 10000)
    for st in ('loaded', 'inserted', 'updated', 'created', 'modified'):
        ctx.guard('programs starting from status %s' % st, c.get('status_before_first_step:%s' % st, 0), 500)
    for load in LOADS[1:]:
        ctx.guard('programs with loading path %s' % load, c.get('loading_path:%s' % load, 0), 3000)
    ctx.guard('contexts with a second object', sum(v for k, v in c.items() if k.startswith(
        ('context:peer', 'context:ctorpeer', 'context:donor'))), 3000)
    ctx.cov['bounds'] = dict(
        documents=[list(d) for d in space.DOCUMENTS], nesting=2, program_length=2,
        length1_routes='all', length1_origins=list(ORIGINS), readonly_origins=list(RO_ORIGINS),
        added_contexts=list(CONTEXTS), added_readonly_contexts=list(RO_CONTEXTS),
        loading_paths=list(LOADS[1:]), loading_path_contexts=list(LOAD_CONTEXTS),
        loading_path_readonly_contexts=list(LOAD_RO_CONTEXTS),
        loading_path_length2='none' if ctx.quick else 'attr x attr with a flush between the steps in %s' % (LOAD_LEN2_CONTEXTS,),
        added_context_routes='{attr, full alias}' if ctx.quick else 'all',
        added_context_length2='none' if ctx.quick else 'attr x attr with a flush between the steps in %s' % (LEN2_CONTEXTS,),
        length2=('step1 through the attribute (augmented assignments also through a full alias) x step2 routes '
                 '{attr, full alias}, origin loaded, flush between the steps' if ctx.quick else
                 'step1 routes {attr, full alias} x step2 all routes from origin loaded with a flush between the steps; '
                 '{attr, full alias}^2 from origin loaded without flush and from origins inserted/updated with flush'))
    ctx.cov['evaluations'] = c.get('programs', 0)
    ctx.cov['distinct_nontrivial'] = c.get('programs_changing_the_value', 0) + sum(
        v for k, v in c.items() if k.startswith('programs:') and k.endswith(':readonly'))
    ctx.cov['rule'] = ('programs are enumerated without repetition (value kind, document, origin, flush, step texts); '
                       'non-trivial = mutation programs whose plain-Python result differs from the initial value, '
                       'plus read-only programs')
    ctx.assume('the oracle is CPython itself: the same program text executed on a plain dict/list deep copy')
    ctx.assume('real SQLite file database in /dev/shm; the committed value is read back through a new db_session')
    return dict(states=len(states), transitions=c.get('steps_executed', 0),
                traces_validated_against_impl=c.get('programs', 0))

def collapse_routes(ctx):
    """A shape that fails through the plain attribute route fails because of the method itself:
    the same shape through aliases / other hops is the same minimal shape -> route '*'."""
    import re
    groups = {}
    for sig in list(ctx.found):
        m = re.match(r'^(\w+:\w+:[^:]+):((?:attr|alias|alias-prefix|hop:[^:]+)):([\w-]+)$', sig)
        if m: groups.setdefault((m.group(1), m.group(3)), []).append((m.group(2), sig))
    for (head, tail), members in groups.items():
        if any(r == 'attr' for r, _ in members):
            new = '%s:*:%s' % (head, tail)
            merged = None
            for r, sig in sorted(members, key=lambda x: (x[0] != 'attr', x[0])):
                e = ctx.found.pop(sig)
                if merged is None: merged = e
                else: merged['n'] += e['n']
            ctx.found[new] = merged

def collapse_contexts(ctx):
    """A context that breaks (nearly) every operation is one shape, not one per operation: four or more
    operation shapes failing the same way in the same context -> '<kind>:ctx[..]:*:<what>'."""
    import re
    groups = {}
    for sig in list(ctx.found):
        m = re.match(r'^(\w+:ctx\[[^\]]+\]):(.+):([\w-]+)$', sig)
        if m: groups.setdefault((m.group(1), m.group(3)), []).append(sig)
    for (head, tail), members in groups.items():
        if len(members) < 4: continue
        merged = None
        for sig in sorted(members):
            e = ctx.found.pop(sig)
            if merged is None: merged = e
            else: merged['n'] += e['n']
        ctx.found['%s:*:%s' % (head, tail)] = merged
    # the same provenance failing the same way in two or more phases -> '<provenance>-*'
    groups = {}
    for sig in list(ctx.found):
        m = re.match(r'^(\w+):ctx\[(\w+)-(\w+)\]:\*:([\w-]+)$', sig)
        if m: groups.setdefault((m.group(1), m.group(2), m.group(4)), []).append(sig)
    for (vkind, prov, tail), members in groups.items():
        if len(members) < 2: continue
        merged = None
        for sig in sorted(members):
            e = ctx.found.pop(sig)
            if merged is None: merged = e
            else: merged['n'] += e['n']
        ctx.found['%s:ctx[%s-*]:*:%s' % (vkind, prov, tail)] = merged

def replay(ctx, case):
    prog = dict(case)
    res = run_program(prog)
    print('program:', ' ;; '.join(prog['steps']), '| origin', prog['origin'], '| flush between' if prog.get('flush') else '')
    for i, k, d in res['problems']:
        print('  %s%s: %s' % (k, '' if i is None else '@step%d' % i, d))
    return not res['problems']
