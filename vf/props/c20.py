"""C20 Optimistic concurrency control prevents lost updates.

TX (thread-schedule explorer) on SQLite. Two and three sessions, each a small program over two shared rows
of one entity with attributes of every optimistic kind (int x, y; str s; float f = no optimistic check;
n with optimistic=False; volatile v), are run under every schedule (statement granularity: every driver
call and every acquire of the provider's locks is a scheduling point) - all interleavings for pairs in
the thorough tier, iterative preemption bounding otherwise. Monitors on every execution:

 (i)   stale read: when a session's update of row o is committed, every attribute it read from o and did
       not overwrite (and that is subject to optimistic checks) still has, in the committed state just
       before its commit (observer connection), the value it read;
 (ii)  per row (write skew across different rows is deliberately not flagged): the final row equals the
       composition, in commit order, of the committed sessions' updates of that row - every written value
       is a function of values the same session read from the same row, so a lost update shows;
 (iii) rows change only in a commit of a session that ends successfully: a session that got
       OptimisticCheckError / UnrepeatableReadError (or any error) leaves no trace;
 control groups: float / optimistic=False / volatile attributes must NOT make a session fail: an
       OptimisticCheckError or UnrepeatableReadError needs another session's committed change of a checked
       column of a row the failing session touched; lost updates on control attributes are counted, not
       flagged (they show that the schedules do contain the conflicts);
 no deadlock, no non-Pony exception.

Multi-transaction db_sessions (MULTI): an explicit commit() in the middle ends the transaction and every lock, the
identity map and the values read stay. Programs: (get_for_update | query.for_update | create [+flush] | plain get) ;
read ; [write] ; commit() ; [re-read | refetch | lock again] ; update another attribute / a function of the stale
read ; [commit() ; update]. The monitors work per transaction (commit attribution, composition in commit order of
the TRANSACTIONS) and the stale-read monitor spans the whole db_session: a value read before an in-session commit
still counts for every later update of that object (a refetch either raises or leaves it valid).

PostgreSQL: server behaviour is out of reach; only the UPDATE text that the real PGProvider/PGSQLBuilder
emit on a statement-log connection is checked: its WHERE clause names every checked attribute the session
read before the update and no attribute that is excluded from optimistic checks.
"""
import itertools
from vf import core
from vf.engines import tx
from vf.props import _tx_lib as L

LEVEL = 'model_checking'
P = L.P

def r(o, a): return ('r', o, a)
def w(o, a, src=None): return ('w', o, a, src)

PROGRAMS = [
    P('rmw_x', r(1, 'x'), w(1, 'x', 'x')),
    P('rmw_y', r(1, 'y'), w(1, 'y', 'y')),
    P('rmw_s', r(1, 's'), w(1, 's', 's')),
    P('ry_wx', r(1, 'y'), w(1, 'x')),
    P('rs_wx', r(1, 's'), w(1, 'x')),
    P('rx_wy', r(1, 'x'), w(1, 'y')),
    P('rx_ry_rmw_x', r(1, 'x'), r(1, 'y'), w(1, 'x', 'x')),
    P('x_from_y', r(1, 'y'), w(1, 'x', 'y')),
    P('blind_x', w(1, 'x')),
    P('blind_y', w(1, 'y')),
    P('blind_s', w(1, 's')),
    # control groups: excluded from optimistic checks
    P('rmw_f', r(1, 'f'), w(1, 'f', 'f')),
    P('rf_wx', r(1, 'f'), w(1, 'x')),
    P('blind_f', w(1, 'f')),
    P('rmw_n', r(1, 'n'), w(1, 'n', 'n')),
    P('rn_wx', r(1, 'n'), w(1, 'x')),
    P('blind_n', w(1, 'n')),
    P('rmw_v', r(1, 'v'), w(1, 'v', 'v')),
    P('rv_wx', r(1, 'v'), w(1, 'x')),
    P('blind_v', w(1, 'v')),
    # a checked attribute declared after the excluded ones, read together with an excluded one
    P('rf_rz_wx', r(1, 'f'), r(1, 'z'), w(1, 'x')),
    P('rn_rmw_z', r(1, 'n'), r(1, 'z'), w(1, 'z', 'z')),
    P('blind_z', w(1, 'z')),
    # read via query
    P('qx_wy', ('selq', 'x'), w(1, 'y')),
    P('getby_x_wy', ('getby', 1, 'x'), w(1, 'y')),
    # locked objects / non-optimistic sessions
    P('fu_rmw_x', ('getfu', 1, ''), r(1, 'x'), w(1, 'x', 'x')),
    P('fu_ry_wx', ('getfu', 1, ''), r(1, 'y'), w(1, 'x')),
    P('ry_then_fu_wx', r(1, 'y'), ('getfu', 1, ''), w(1, 'x')),
    P('nonopt_rmw_x', r(1, 'x'), w(1, 'x', 'x'), optimistic=False),
    P('nonopt_ry_wx', r(1, 'y'), w(1, 'x'), optimistic=False),
    # two rows, reload, flush in the middle, delete, create
    P('r2y_rmw_1x', r(2, 'y'), r(1, 'x'), w(1, 'x', 'x')),
    P('rmw_1x_rmw_2x', r(1, 'x'), w(1, 'x', 'x'), r(2, 'x'), w(2, 'x', 'x')),
    P('rmw_2y', r(2, 'y'), w(2, 'y', 'y')),
    P('rmw_x_flush_rmw_y', r(1, 'x'), w(1, 'x', 'x'), ('flush',), r(1, 'y'), w(1, 'y', 'y')),
    P('ry_refetch_wx', r(1, 'y'), ('refetch', 1), w(1, 'x')),
    P('del_1', ('del', 1)),
    P('rx_del_1', r(1, 'x'), ('del', 1)),
    P('new_3', ('new', 3)),
    # write first, read afterwards: a read of ANOTHER attribute of an object that already has a pending change is a read too
    P('wx_ry', w(1, 'x'), r(1, 'y')),
    P('wx_rs', w(1, 'x'), r(1, 's')),
    P('wx_ry_wz_from_y', w(1, 'x'), r(1, 'y'), w(1, 'z', 'y')),
]
C = ('commit',)
# db_sessions that go on after an explicit commit(): the transaction and every lock end there, the identity map and
# the values read stay; later updates of the same objects must be protected by the optimistic check again - for
# objects that were locked FOR UPDATE before, for objects the session created itself, and for plain ones
MULTI = [
    P('fu_ry|wx', ('getfu', 1, ''), r(1, 'y'), C, w(1, 'x')),
    P('fu_ry_wz|wx', ('getfu', 1, ''), r(1, 'y'), w(1, 'z'), C, w(1, 'x')),
    P('fu_ry_wz|ry_wx', ('getfu', 1, ''), r(1, 'y'), w(1, 'z'), C, r(1, 'y'), w(1, 'x')),
    P('fu_rx_wy|rmw_x', ('getfu', 1, ''), r(1, 'x'), w(1, 'y'), C, w(1, 'x', 'x')),
    P('fu_rs|wx', ('getfu', 1, ''), r(1, 's'), C, w(1, 'x')),
    P('selfu_ry|wx', ('selfu', 1, ''), r(1, 'y'), C, w(1, 'x')),
    P('fu_ry|refetch_wx', ('getfu', 1, ''), r(1, 'y'), C, ('refetch', 1), w(1, 'x')),
    P('fu_ry|fu_wx', ('getfu', 1, ''), r(1, 'y'), C, ('getfu', 1, ''), w(1, 'x')),
    P('fu_ry|wx|wz', ('getfu', 1, ''), r(1, 'y'), C, w(1, 'x'), C, w(1, 'z')),
    P('new3|ry_wx', ('new', 3), C, r(3, 'y'), w(3, 'x')),
    P('new3_flush_ry_wz|wx', ('new', 3), ('flush',), r(3, 'y'), w(3, 'z'), C, w(3, 'x')),
    P('new3_rx|rmw_x', ('new', 3), r(3, 'x'), C, w(3, 'x', 'x')),
    P('new3|rs_wx|wz', ('new', 3), C, r(3, 's'), w(3, 'x'), C, w(3, 'z')),
    P('ry|wx', r(1, 'y'), C, w(1, 'x')),
    P('ry_wz|wx', r(1, 'y'), w(1, 'z'), C, w(1, 'x')),
    P('rmw_x|rmw_x', r(1, 'x'), w(1, 'x', 'x'), C, r(1, 'x'), w(1, 'x', 'x')),
    P('rx_wy|rmw_x', r(1, 'x'), w(1, 'y'), C, w(1, 'x', 'x')),
    # control groups: excluded attributes read before the in-session commit must not make the later update fail
    P('fu_rf|wx', ('getfu', 1, ''), r(1, 'f'), C, w(1, 'x')),
    P('fu_rn_wz|wx', ('getfu', 1, ''), r(1, 'n'), w(1, 'z'), C, w(1, 'x')),
    P('new3|rv_wx', ('new', 3), C, r(3, 'v'), w(3, 'x')),
]
# sessions that change the row the multi-transaction sessions create (they end with ObjectNotFound before it exists)
ROW3 = [
    P('rmw_3y', r(3, 'y'), w(3, 'y', 'y')),
    P('blind_3y', w(3, 'y')),
    P('rmw_3x', r(3, 'x'), w(3, 'x', 'x')),
    P('blind_3s', w(3, 's')),
    P('blind_3v', w(3, 'v')),
    P('del_3', ('del', 3)),
]
BASE = list(PROGRAMS)
PROGRAMS = BASE + MULTI + ROW3
# quick tier: partners of the multi-transaction sessions (thorough: every program)
PARTNERS_1 = ['rmw_x', 'rmw_y', 'blind_y', 'blind_x', 'rmw_s', 'blind_f', 'blind_n', 'fu_rmw_x', 'del_1']
PARTNERS_3 = ['rmw_3y', 'blind_3y', 'rmw_3x', 'blind_3s', 'blind_3v', 'del_3', 'new_3']
BY_NAME = {p['name']: p for p in PROGRAMS}
assert len(BY_NAME) == len(PROGRAMS)
TRIPLE_CORE = ['rmw_x', 'ry_wx', 'blind_y', 'rmw_f', 'fu_rmw_x', 'del_1']
QUICK_CORE = ['rmw_x', 'rmw_s', 'ry_wx', 'rx_wy', 'x_from_y', 'blind_x', 'blind_y', 'rmw_f', 'rf_wx', 'blind_f', 'rn_wx', 'blind_n',
              'rv_wx', 'blind_v', 'rf_rz_wx', 'blind_z', 'qx_wy', 'fu_rmw_x', 'ry_then_fu_wx', 'nonopt_rmw_x', 'ry_refetch_wx', 'del_1']
QUICK_TRIPLE_CORE = ['rmw_x', 'ry_wx', 'blind_y', 'fu_rmw_x']
XCHECK = [('rmw_x', 'ry_wx'), ('rmw_x', 'fu_rmw_x'), ('blind_y', 'ry_refetch_wx')]

def creates_3(name):
    return any(op[0] == 'new' for op in BY_NAME[name]['ops'])

def work_items(ctx):
    names = [p['name'] for p in BASE]
    pairs = list(itertools.combinations_with_replacement(names, 2))
    multi = [p['name'] for p in MULTI]
    row3 = [p['name'] for p in ROW3]
    items = []
    if ctx.quick:
        items += [('pair', pr, 2 if (pr[0] in QUICK_CORE and pr[1] in QUICK_CORE) else 1, 'visible') for pr in pairs]
        # the other session fits between two transactions of the multi-transaction session with ONE preemption
        items += [('multi', (m, o), 2 if i < 4 else 1, 'visible') for m in multi
                  for i, o in enumerate(PARTNERS_3 if creates_3(m) else PARTNERS_1)]
        items += [('triple', tr, 1, 'visible') for tr in itertools.combinations_with_replacement(QUICK_TRIPLE_CORE, 3)]
        items += [('xcheck', pr, 1, 'all') for pr in XCHECK[:2]]
    else:
        items += [('pair', pr, None, 'visible') for pr in pairs]
        items += [('multi', (m, o), None, 'visible') for m in multi for o in (row3 + ['new_3'] if creates_3(m) else names)]
        items += [('multi', pr, 2, 'visible') for pr in itertools.combinations_with_replacement(multi, 2)]
        items += [('triple', tr, 3, 'visible') for tr in itertools.combinations_with_replacement(TRIPLE_CORE, 3)]
        items += [('xcheck', pr, 2, 'all') for pr in XCHECK]
    return items

MONITORS = ('attribution', 'composition', 'stale', 'spurious', 'unexpected')

def judge(v, counters):
    out = []
    if v.x.deadlock: out.append(('deadlock|%s' % '+'.join(sorted(L.sclass(p) for p in v.progs)), 'no enabled thread while some thread is unfinished'))
    out += L.mon_commit_attribution(v)
    out += L.mon_composition(v, counters)
    out += L.mon_stale_read(v, counters)
    out += L.mon_spurious(v, counters)
    out += L.mon_unexpected(v)
    for t in range(v.n):
        if v.res[t].get('cls') == 'OptimisticCheckError' and any(d[0] == 'committed' for _, d in v.notes[t]):
            counters['OptimisticCheckError_after_in_session_commit'] = counters.get('OptimisticCheckError_after_in_session_commit', 0) + 1
            if any(d[0] in ('lock', 'new') for _, d in v.notes[t]):
                counters['OptimisticCheckError_after_commit_on_object_locked_or_created_before'] = counters.get('OptimisticCheckError_after_commit_on_object_locked_or_created_before', 0) + 1
    return out

def worker(arg):
    item, seed = arg
    sub = core.Sub()
    st = L.explore_item(item, seed, sub, 'C20', [BY_NAME[n] for n in item[1]], judge)
    return dict(item=item, sub=sub.dump(), stats=st)

# ---- PostgreSQL emission ----------------------------------------------------------------------------
def pg_part(ctx):
    db, pool = L.pg_database()
    checked = 0
    for prog in PROGRAMS:
        if any(op[0] in ('del', 'new') for op in prog['ops']) and not any(op[0] == 'w' for op in prog['ops']): continue
        if prog in ROW3: continue          # they need the row another session creates
        if creates_3(prog['name']) and any(op[0] == 'r' and op[2] == 'v' for op in prog['ops']): continue   # a volatile attribute
        # is re-read from the database after a commit and the statement-log model only knows the fixture rows
        marks = []
        from pony import orm
        notes = []
        pool.con = None
        def note(*d): notes.append((len(pool.con.log) if pool.con is not None else 0, d))
        try:
            with orm.db_session(**prog['flags']):
                try: L.interpret(0, prog, orm, db.entities['A'], note)
                except L.Stop: pass
            res = None
        except Exception as e:
            res = '%s: %s' % (type(e).__name__, e)
        log = list(pool.con.log) if pool.con is not None else []
        orm.core.local.db_session = None
        db.disconnect()
        if res is not None:
            ctx.violation('pg-emission|session-failed|%s' % res.split(':')[0], dict(program=prog, error=res), 'PostgreSQL model run failed: ' + res)
            continue
        locked = prog['flags'].get('optimistic') is False
        for i, (kind, sql, args, autocommit) in enumerate(log):
            if kind != 'execute' or not sql.lstrip().upper().startswith('UPDATE'): continue
            ctx.count('pg_update_statements')
            cols = L.where_columns(sql)
            pk_param = __import__('re').search(r'"id" = %\((p\d+)\)s', sql).group(1)
            o = args[pk_param]
            written, required = set(), set()
            has_lock = locked
            for pos, d in notes:
                if pos > i: break
                if d[0] == 'w' and d[1] == o: written.add(d[2])
                if d[0] in ('lock', 'new') and d[1] == o: has_lock = True      # a row the transaction inserted is its own
                if d[0] == 'committed':            # the lock ends with the transaction; what was written is known like a read
                    has_lock = locked; written = set()
                if d[0] == 'r' and d[1] == o and d[2] not in written and d[2] not in L.CONTROL_OCE: required.add(d[2])
            checked += 1
            case = dict(program=prog, sql=sql, where=cols, required=sorted(required))
            if not has_lock and not required <= set(cols):
                ctx.violation('pg-emission|optimistic-where-misses-read-attribute|%s' % ','.join(sorted(L.KIND[a] for a in required - set(cols))),
                              case, '%s: UPDATE WHERE %r does not cover the read attributes %r' % (prog['name'], cols, sorted(required)))
            if set(cols) & set(L.CONTROL_OCE):
                ctx.violation('pg-emission|excluded-attribute-in-optimistic-where|%s' % ','.join(sorted(set(cols) & set(L.CONTROL_OCE))),
                              case, '%s: UPDATE WHERE %r uses an attribute excluded from optimistic checks' % (prog['name'], cols))
            if required and not has_lock: ctx.count('pg_updates_with_nonempty_read_set')
            if required and not has_lock and any(d[0] == 'committed' for pos, d in notes if pos <= i): ctx.count('pg_updates_after_in_session_commit_with_read_set')
            if autocommit is not False:
                ctx.violation('pg-emission|update-in-autocommit-mode', case, '%s: UPDATE sent with autocommit=%r' % (prog['name'], autocommit))
    ctx.count('pg_updates_checked', checked)
    return checked

# ---- entry points -------------------------------------------------------------------------------------
def run(ctx):
    items = work_items(ctx)
    order = ctx.shuffled(items)
    results = ctx.pmap(worker, [(it, ctx.seed) for it in order])
    agg = L.merge(ctx, results)
    L.xcheck(ctx, agg, results)
    pg_part(ctx)
    if not ctx.quick:
        # smoke pass without scheduler (real threading.Lock objects, 4 free-running threads): decides nothing,
        # its only job is to crash loudly on unsynchronised shared state that cooperative scheduling hides
        # journal=None: no on_connect PRAGMA of the harness - executed outside Pony with timeout=0 it fails with a raw
        # 'database is locked' when it meets another free-running thread's commit, which is not Pony's doing
        world = tx.World('free', L.define, L.populate, journal=None)
        try: smoke = tx.free_run(world, [L.body_of(BY_NAME[n]) for n in ('rmw_x', 'ry_wx', 'fu_rmw_x', 'rmw_x')], 200)
        finally: world.close()
        ctx.cov['free_running_smoke_pass'] = dict(iterations=200, threads=4, outcome_classes=sorted(smoke), note='not deterministic; decides nothing')
        for k in smoke:
            if 'NON-PONY' in k: ctx.violation('free-run|%s' % k, dict(outcome=k), 'free-running threads: ' + k)
    c = ctx.counters
    L.guards(ctx, [
        ('schedules in which OptimisticCheckError occurred', c.get('OptimisticCheckError', 0), 500),
        ('schedules in which UnrepeatableReadError occurred', c.get('UnrepeatableReadError', 0), 5),
        ('control attribute changed under a committing reader without an error', c.get('control_changed_silently', 0), 20),
        ('lost updates observed (and exempt) on control attributes', c.get('control_lost_update', 0), 20),
        ('checked reads still valid at commit', c.get('reads_still_valid_at_commit', 0), 500),
        ('executions with a session disabled on the provider lock', c.get('executions_with_a_session_waiting_on_the_lock', 0), 500),
        ('program pairs with more than one distinct outcome', agg['per_kind']['pair']['tuples_with_more_than_one_outcome'], 100),
        ('PostgreSQL UPDATE statements with a non-empty read set', c.get('pg_updates_with_nonempty_read_set', 0), 8),
        ('PostgreSQL UPDATE statements after an in-session commit with a non-empty read set', c.get('pg_updates_after_in_session_commit_with_read_set', 0), 8),
        ('OptimisticCheckError after an in-session commit, object locked for update / created earlier in the db_session',
         c.get('OptimisticCheckError_after_commit_on_object_locked_or_created_before', 0), 100),
        ('multi-transaction pairs with more than one distinct outcome', agg['per_kind']['multi']['tuples_with_more_than_one_outcome'], 60),
        ('all-points cross-check tuples', c.get('xcheck_tuples_all_points_outcomes_contained', 0), 2)])
    out = L.coverage(ctx, agg)
    ctx.cov.update(programs=len(PROGRAMS), multi_transaction_programs=len(MULTI),
                   bounds=('pairs: preemption bound 2 inside the %d-program core, bound 1 otherwise; triples of %d programs: bound 1; '
                           'multi-transaction session x %d/%d partners: bound 2 for the first four partners, bound 1 otherwise'
                           % (len(QUICK_CORE), len(QUICK_TRIPLE_CORE), len(PARTNERS_1), len(PARTNERS_3))) if ctx.quick else
                          ('pairs: all interleavings; triples of %d programs: preemption bound 3; multi-transaction session x every '
                           'single-transaction program: all interleavings; multi x multi: preemption bound 2' % len(TRIPLE_CORE)))
    ctx.cov['exhaustive'] = True      # the stated bounded space is covered completely (caps would reset this)
    ctx.assume('SQLite only for behaviour; PostgreSQL: UPDATE text on a statement-log connection (DM transaction model), server behaviour out of reach')
    return out

def replay(ctx, case):
    progs = case['programs']
    for p in progs: p['ops'] = [tuple(op) for op in p['ops']]
    if 'choices' not in case:
        print(case); return False
    world = L.make_world()
    try:
        ex = tx.Explorer(world, [L.body_of(p) for p in progs], points=case.get('points', 'visible'))
        x = ex.run(tuple(case['choices']))
        v = L.View(world, progs, x)
        for line in x.describe(80): print('  ' + line)
        print('results', [(r_['status'], r_.get('cls'), r_.get('msg')) for r_ in v.res]); print('final', v.final)
        found = judge(v, {})
        for sig, msg in found: print('VIOLATED', sig, '-', msg)
        return not found
    finally:
        world.close()
