"""C21 Repeated reads in a session return the same value or fail loudly.

TX (thread-schedule explorer) on SQLite. A reading session re-observes state by different routes
(attribute access, obj.load(), re-running a query that returns the row, a full-table query, loading a
collection, collection.load(), prefetch, a lazy attribute, navigation from the other side of a relationship,
get_for_update) and is interleaved at every position with one (thorough tier also: two) committing
writers: attribute update, delete, link / unlink / move of a to-one side, insert into a loaded collection,
many-to-many link / unlink, first member of an empty collection, re-link of a one-to-one pair. Oracle on every execution: for every non-volatile (object, attribute) and every
fully loaded collection that the reader observed more than once, all observations are equal - unless the
session ended with an exception (UnrepeatableReadError is the loud failure the property allows; any other
Pony exception ends the session too; a non-Pony exception is reported). Only reads OF the attribute or
collection itself count (attribute access, iteration / len / in / count / is_empty of a collection that was
fully loaded before); an aggregate recomputed by the database before a full load is a different read.
Control group: volatile attributes and volatile collections may change silently and must NOT raise: an
UnrepeatableReadError needs another session's committed change outside the volatile columns/tables.

Two generated reader families on top of the hand-written readers:
 * loaded-first: the collection is made fully loaded (len / load() / prefetch / bool) BEFORE its content is first
   observed (iteration, copy(), len, count, is_empty, bool, in, ==), the items' to-one attribute is never read
   directly, then the item rows are fetched again by a query text not used before (five of them) and the same
   observation is repeated. A derived question (len, in ...) put twice to a collection that was fully loaded
   before the first one must get the same answer, also when the content was never iterated.
 * write-between: the reader observes attribute A, modifies another attribute B of the same object and calls
   commit() / flush() inside the db_session that stays open (identity map and read marks survive), a writer
   commits a new A, the reader fetches the row again (eight routes) and observes A again.
 * observed-loaded ('E:' readers): group 3 has NO items and NO tags. Its collection is made fully loaded (len / load() /
   prefetch / bool / iteration), one question (iteration, copy(), len, count, is_empty, bool, in, ==) is answered
   (0 / True / [] is an answer like any other), a writer commits the FIRST member (new item row, existing item moved in,
   many-to-many link), the reader fetches nothing at all ('none') or the item rows / the other side by one of 5 (items) /
   3 (tags) routes and puts the same question again. 5 loaders x 8 questions x (1 + 5 | 1 + 3) refetches; the quick tier
   takes 'none' for every loader x question plus one rotating refetch at preemption bound 1; the thorough tier takes all
   of them and, with refetch 'none', the same product on the NON-empty collections of group 1 and their five / two writers.
 * one2one ('O:' readers, a second world): one-to-one attributes whose OWN side holds a column - symmetric S.spouse
   (4 rows, S1 <-> S4) and M.wife / F.husband with column= on both sides (2 + 2 rows, M1 <-> F1). The reader observes
   x.attr for an x that is linked and an x that is single, a writer commits a re-link (marry two singles, take a partner
   away, divorce; made through either side; two writers store ONE side only with raw SQL like a foreign program), the
   reader fetches another row y of the partner entity (every y; by primary key, one-row query, get_for_update,
   y's own side of the relationship, full-table query, filtered query; also with y loaded BEFORE the first observation
   and fetched again by q_all / q_one / load()) and observes x.attr again. 96 readers x 3 (S) / 7 (M, F) writers,
   preemption bound 1 (quick), all interleavings (thorough). The new value arrives through the reverse side of the
   relationship (db_update_reverse), not through x's own row.
"""
import itertools
from vf import core
from vf.engines import tx
from vf.props import _tx_lib as L

LEVEL = 'model_checking'

def define(db, orm):
    class G(db.Entity):
        id = orm.PrimaryKey(int)
        name = orm.Required(str)
        items = orm.Set('I', reverse='g')
        vitems = orm.Set('V', reverse='g', volatile=True)
        tags = orm.Set('T', reverse='groups')
    class I(db.Entity):
        id = orm.PrimaryKey(int)
        val = orm.Required(int)
        vol = orm.Required(int, volatile=True)
        lz = orm.Optional(str, lazy=True)
        g = orm.Optional(G, reverse='items')
        detail = orm.Optional('D', reverse='item')        # one-to-one, no column on this side
    class D(db.Entity):
        id = orm.PrimaryKey(int)
        item = orm.Optional(I, reverse='detail', column='item')
    class V(db.Entity):
        id = orm.PrimaryKey(int)
        g = orm.Optional(G, reverse='vitems')
    class T(db.Entity):
        id = orm.PrimaryKey(int)
        label = orm.Required(str)
        groups = orm.Set(G, reverse='tags')

def populate(E):
    G, I, V, T, D = E['G'], E['I'], E['V'], E['T'], E['D']
    g1, g2 = G(id=1, name='g1'), G(id=2, name='g2')
    I(id=1, val=0, vol=0, lz='l1', g=g1); I(id=2, val=0, vol=0, lz='l2', g=g1); I(id=3, val=0, vol=0, lz='l3', g=g2)
    V(id=1, g=g1); V(id=2, g=g2)
    D(id=1, item=I[1]); D(id=2)
    t1, t2 = T(id=1, label='t1'), T(id=2, label='t2')
    g1.tags.add(t1); g2.tags.add(t2)
    G(id=3, name='g3')                                     # no items, no tags: collections that are observed EMPTY

def make_world():
    return tx.World('reads', define, populate)

# second world: one-to-one relationships whose READ side holds a column (symmetric; column= on both sides)
def define2(db, orm):
    class S(db.Entity):
        id = orm.PrimaryKey(int)
        name = orm.Required(str)
        spouse = orm.Optional('S', reverse='spouse')       # symmetric one-to-one: every row has the column
    class M(db.Entity):
        id = orm.PrimaryKey(int)
        name = orm.Required(str)
        wife = orm.Optional('F', reverse='husband', column='wife')
    class F(db.Entity):
        id = orm.PrimaryKey(int)
        name = orm.Required(str)
        husband = orm.Optional(M, reverse='wife', column='husband')

def populate2(E):
    S, M, F = E['S'], E['M'], E['F']
    for i in (1, 2, 3, 4): S(id=i, name='s%d' % i)
    for i in (1, 2): M(id=i, name='m%d' % i); F(id=i, name='f%d' % i)
    S._database_.flush()                                   # rows first, links afterwards (cyclic chains cannot be inserted)
    S[1].spouse = S[4]
    M[1].wife = F[1]

def make_world2():
    return tx.World('one2one', define2, populate2)

WORLD2_ENTITIES = ('S', 'M', 'F')
def world_factory_for(progs):
    return make_world2 if any(len(op) > 1 and op[1] in WORLD2_ENTITIES for p in progs for op in p['ops']) else make_world

# volatile-only data: a committed change confined to these cannot justify an UnrepeatableReadError
VOLATILE_COLUMNS = {('I', 'vol')}
VOLATILE_TABLES = {'V'}

P = L.P
READERS = [
    P('val|load', ('attr', 'I', 1, 'val'), ('load', 'I', 1), ('attr', 'I', 1, 'val')),
    P('val|q_one', ('attr', 'I', 1, 'val'), ('q_one', 'I', 1), ('attr', 'I', 1, 'val')),
    P('val|q_all', ('attr', 'I', 1, 'val'), ('q_all', 'I'), ('attr', 'I', 1, 'val')),
    P('val|other_side', ('attr', 'I', 1, 'val'), ('items', 'G', 1, 'items'), ('attr', 'I', 1, 'val')),
    P('val|get_fu', ('attr', 'I', 1, 'val'), ('get_fu', 'I', 1), ('attr', 'I', 1, 'val')),
    P('val|lazy_load', ('attr', 'I', 1, 'val'), ('attr', 'I', 1, 'lz'), ('attr', 'I', 1, 'val')),
    P('val|prefetch', ('attr', 'I', 1, 'val'), ('prefetch', 'G', 'items'), ('attr', 'I', 1, 'val')),
    P('q_val|load', ('q_one', 'I', 1), ('attr', 'I', 1, 'val'), ('load', 'I', 1), ('attr', 'I', 1, 'val')),
    P('lz|load', ('attr', 'I', 1, 'lz'), ('load', 'I', 1), ('attr', 'I', 1, 'lz')),
    P('lz|q_all', ('attr', 'I', 1, 'lz'), ('q_all', 'I'), ('load', 'I', 1, 'lz'), ('attr', 'I', 1, 'lz')),
    P('g|q_one', ('attr', 'I', 1, 'g'), ('q_one', 'I', 1), ('attr', 'I', 1, 'g')),
    P('g|other_side', ('attr', 'I', 1, 'g'), ('items', 'G', 2, 'items'), ('attr', 'I', 1, 'g')),
    P('item|q_other', ('attr', 'D', 1, 'item'), ('q_one', 'D', 2), ('attr', 'D', 1, 'item')),
    P('item|q_all', ('attr', 'D', 1, 'item'), ('q_all', 'D'), ('attr', 'D', 1, 'item')),
    P('detail|q_all', ('attr', 'I', 1, 'detail'), ('q_all', 'D'), ('attr', 'I', 1, 'detail')),
    P('name|q_all', ('attr', 'G', 1, 'name'), ('q_all', 'G'), ('attr', 'G', 1, 'name')),
    P('items|cload', ('items', 'G', 1, 'items'), ('cload', 'G', 1, 'items'), ('items', 'G', 1, 'items')),
    P('items|q_all', ('items', 'G', 1, 'items'), ('q_all', 'I'), ('items', 'G', 1, 'items'), ('len', 'G', 1, 'items')),
    P('items|derived', ('items', 'G', 1, 'items'), ('q_all', 'I'), ('count', 'G', 1, 'items'), ('in', 'G', 1, 'items', 1),
      ('in', 'G', 1, 'items', 3), ('in', 'G', 1, 'items', 4), ('empty', 'G', 1, 'items')),
    P('len|cload|items', ('len', 'G', 1, 'items'), ('cload', 'G', 1, 'items'), ('items', 'G', 1, 'items')),
    P('items|prefetch', ('items', 'G', 1, 'items'), ('prefetch', 'G', 'items'), ('items', 'G', 1, 'items')),
    P('items|nav', ('items', 'G', 1, 'items'), ('attr', 'I', 3, 'g'), ('attr', 'I', 4, 'g'), ('items', 'G', 1, 'items')),
    P('count|items|count', ('count', 'G', 1, 'items'), ('items', 'G', 1, 'items'), ('count', 'G', 1, 'items')),
    P('tags|cload', ('items', 'G', 1, 'tags'), ('cload', 'G', 1, 'tags'), ('items', 'G', 1, 'tags')),
    P('tags|other_side', ('items', 'G', 1, 'tags'), ('items', 'T', 2, 'groups'), ('items', 'T', 1, 'groups'), ('items', 'G', 1, 'tags')),
    P('tags|prefetch', ('items', 'G', 1, 'tags'), ('prefetch', 'G', 'tags'), ('items', 'G', 1, 'tags')),
    # control group: volatile attribute / volatile collection
    P('vol|load', ('attr', 'I', 1, 'vol'), ('load', 'I', 1), ('attr', 'I', 1, 'vol')),
    P('vol|q_all', ('attr', 'I', 1, 'vol'), ('q_all', 'I'), ('attr', 'I', 1, 'vol')),
    P('vitems|cload', ('items', 'G', 1, 'vitems'), ('cload', 'G', 1, 'vitems'), ('items', 'G', 1, 'vitems')),
    P('vitems|q_all', ('items', 'G', 1, 'vitems'), ('q_all', 'V'), ('items', 'G', 1, 'vitems')),
]
WRITERS = [
    P('upd_val', ('set', 'I', 1, 'val', 7)),
    P('upd_vol', ('set', 'I', 1, 'vol', 7)),
    P('upd_lz', ('set', 'I', 1, 'lz', 'z')),
    P('upd_name', ('set', 'G', 1, 'name', 'n2')),
    P('del_I1', ('delete', 'I', 1)),
    P('move_I1', ('link', 'I', 1, 'g', 2)),
    P('unlink_I1', ('link', 'I', 1, 'g', None)),
    P('move_I3_in', ('link', 'I', 3, 'g', 1)),
    P('new_I4', ('new', 'I', 4, 1)),
    P('tag_add', ('m2m', 'add', 1, 2)),
    P('tag_remove', ('m2m', 'remove', 1, 1)),
    P('swap_detail', ('link1', 1, None), ('link1', 2, 1)),
    P('move_V1', ('link', 'V', 1, 'g', 2)),
    P('move_V2_in', ('link', 'V', 2, 'g', 1)),
    # writers that put a first member into the EMPTY collections of group 3 (only used by the 'observed-loaded' family)
    P('new_I5_G3', ('new', 'I', 5, 3)),
    P('move_I3_G3', ('link', 'I', 3, 'g', 3)),
    P('tag_add_G3', ('m2m', 'add', 3, 1)),
]
G3_WRITERS = ('new_I5_G3', 'move_I3_G3', 'tag_add_G3')
# ---- family 'loaded-first': the collection is made fully loaded BEFORE its content is first observed, the item's
# to-one attribute is never read directly, a writer moves / unlinks / deletes an item (or adds one), the reader
# fetches the item rows again with a query text it has not used before and observes the collection again.
# Every way of loading x every way of observing x every re-fetch (thorough); the quick tier takes every
# loader x observer combination once, rotating through the re-fetches.
LOADERS = dict(len=('len', 'G', 1, 'items'), cload=('cload', 'G', 1, 'items'), prefetch=('prefetch', 'G', 'items'),
               bool=('bool', 'G', 1, 'items'))
OBSERVERS = dict(items=[('items', 'G', 1, 'items')], copy=[('copy', 'G', 1, 'items')], len=[('len', 'G', 1, 'items')],
                 count=[('count', 'G', 1, 'items')], empty=[('empty', 'G', 1, 'items')], bool=[('bool', 'G', 1, 'items')],
                 isin=[('in', 'G', 1, 'items', 1), ('in', 'G', 1, 'items', 2)], eq=[('eq', 'G', 1, 'items', (1, 2))])
REFETCH = dict(q_all=('q_all', 'I'), q_one=('q_one', 'I', 1), q_gt=('q_gt', 'I'), get_fu=('get_fu', 'I', 1), q_val=('q_val', 'I', 0))
LOADED_FIRST, LOADED_FIRST_QUICK = [], []
for li, (ln, lop) in enumerate(sorted(LOADERS.items())):
    for oi, (on, oops) in enumerate(sorted(OBSERVERS.items())):
        for ri, (rn, rop) in enumerate(sorted(REFETCH.items())):
            if ln == on: continue
            p_ = P('%s+%s|%s' % (ln, on, rn), lop, *(oops + [rop] + oops))
            LOADED_FIRST.append(p_)
            if (ri - li - oi) % len(REFETCH) in (0, 2): LOADED_FIRST_QUICK.append(p_['name'])
LOADED_FIRST += [
    P('len+tags|other_side', ('len', 'G', 1, 'tags'), ('items', 'G', 1, 'tags'), ('items', 'T', 2, 'groups'), ('items', 'T', 1, 'groups'), ('items', 'G', 1, 'tags')),
    P('cload+tags|prefetch', ('cload', 'G', 1, 'tags'), ('items', 'G', 1, 'tags'), ('prefetch', 'G', 'tags'), ('items', 'G', 1, 'tags')),
    P('prefetch+vitems|q_all', ('prefetch', 'G', 'vitems'), ('items', 'G', 1, 'vitems'), ('q_all', 'V'), ('items', 'G', 1, 'vitems')),   # control
]
LOADED_FIRST_QUICK += ['len+tags|other_side', 'cload+tags|prefetch', 'prefetch+vitems|q_all']
LOADED_FIRST_WRITERS = dict(items=['move_I1', 'unlink_I1', 'del_I1', 'move_I3_in', 'new_I4'], tags=['tag_add', 'tag_remove'], vitems=['move_V1', 'move_V2_in'])
LOADED_FIRST_WRITERS_QUICK = dict(items=['move_I1', 'unlink_I1', 'move_I3_in'], tags=['tag_add', 'tag_remove'], vitems=['move_V1'])

# ---- family 'write-between': the reader observes attribute A, modifies ANOTHER attribute B of the same object and
# calls commit() / flush() inside the db_session that stays open, a writer commits a new A, the reader fetches the
# row again with a fresh query and observes A again (also: a collection observed through its items' to-one side)
SETB = dict(lz=('set', 'I', 1, 'lz', 'w'), vol=('set', 'I', 1, 'vol', 5), g=('link', 'I', 1, 'g', 2), val=('set', 'I', 1, 'val', 5),
            detail=('link1', 2, 1))
REFETCH2 = dict(REFETCH, other_side=('items', 'G', 1, 'items'), prefetch=('prefetch', 'G', 'items'), load=('load', 'I', 1))
WRITE_BETWEEN, WRITE_BETWEEN_QUICK = [], []
for ai, (an, bs) in enumerate((('val', ('lz', 'vol', 'g', 'detail')), ('g', ('val', 'lz', 'vol')), ('vol', ('val', 'lz')))):
    for bi, bn in enumerate(bs):
        for si, sync in enumerate(('commit', 'flush')):
            for ri, (rn, rop) in enumerate(sorted(REFETCH2.items())):
                if an == 'g' and rn == 'other_side': rop = ('items', 'G', 2, 'items')
                p_ = P('%s|set_%s+%s+%s' % (an, bn, sync, rn), ('attr', 'I', 1, an), SETB[bn], (sync,), rop, ('attr', 'I', 1, an))
                WRITE_BETWEEN.append(p_)
                if (sync == 'commit' and an != 'vol' and (bn in ('lz', 'val') or ri % 3 == bi % 3)) or (sync == 'flush' and ri == bi) \
                   or (an == 'vol' and ri == bi): WRITE_BETWEEN_QUICK.append(p_['name'])
for sync in ('commit', 'flush'):
    for rn in ('q_all', 'q_gt', 'q_one'):
        WRITE_BETWEEN.append(P('items|set_val+%s+%s' % (sync, rn), ('items', 'G', 1, 'items'), ('set', 'I', 1, 'val', 5), (sync,), REFETCH[rn], ('items', 'G', 1, 'items')))
        WRITE_BETWEEN.append(P('len+items|set_lz+%s+%s' % (sync, rn), ('len', 'G', 1, 'items'), ('items', 'G', 1, 'items'), ('set', 'I', 1, 'lz', 'w'), (sync,), REFETCH[rn], ('items', 'G', 1, 'items')))
WRITE_BETWEEN_QUICK += ['items|set_val+commit+q_all', 'items|set_val+commit+q_one', 'len+items|set_lz+commit+q_gt', 'items|set_val+flush+q_all']
WRITE_BETWEEN += [
    P('name|set_tags+commit+q_all', ('attr', 'G', 1, 'name'), ('m2m', 'add', 1, 2), ('commit',), ('q_all', 'G'), ('attr', 'G', 1, 'name')),
    P('item|set_item2+commit+q_all', ('attr', 'D', 1, 'item'), ('link1', 2, 2), ('commit',), ('q_all', 'D'), ('attr', 'D', 1, 'item')),
]
WRITE_BETWEEN_QUICK += ['name|set_tags+commit+q_all', 'item|set_item2+commit+q_all']
def wb_writers(name, quick):
    a = name.split('|')[0]
    if a == 'val': return ['upd_val'] if quick else ['upd_val', 'del_I1', 'upd_vol']
    if a == 'g': return ['move_I1', 'unlink_I1'] if quick else ['move_I1', 'unlink_I1', 'del_I1']
    if a == 'vol': return ['upd_vol']
    if a == 'name': return ['upd_name']
    if a == 'item': return ['swap_detail']
    return ['move_I1', 'unlink_I1'] if quick else ['move_I1', 'unlink_I1', 'del_I1', 'new_I4']

# ---- family 'observed-loaded' (names 'E:...'): a collection of group <gid> is made fully loaded (five ways, iteration
# included), ONE question is put to it (iteration, copy, len, count, is_empty, bool, in, ==), a writer commits a new
# member / moves an existing row in (or out), the reader optionally fetches the item rows (or the other side) and
# puts the same question again. Group 3 is EMPTY at the start (items and tags): an answer 0 / True / [] is an answer
# like any other. Refetch 'none': nothing at all happens in the reader between the two questions.
def gen_observed_loaded(gid, attr, in_ids, eq_ids, refetches):
    c = ('G', gid, attr)
    loaders = dict(len=('len',) + c, cload=('cload',) + c, prefetch=('prefetch', 'G', attr), bool=('bool',) + c, items=('items',) + c)
    observers = dict(items=[('items',) + c], copy=[('copy',) + c], len=[('len',) + c], count=[('count',) + c], empty=[('empty',) + c],
                     bool=[('bool',) + c], isin=[('in',) + c + (i,) for i in in_ids], eq=[('eq',) + c + (tuple(eq_ids),)])
    out, quick = [], []
    for li, (ln, lop) in enumerate(sorted(loaders.items())):
        for oi, (on, oops) in enumerate(sorted(observers.items())):
            if ln == on: continue
            for ri, (rn, rop) in enumerate(refetches):
                p_ = P('E:G%d.%s:%s+%s|%s' % (gid, attr, ln, on, rn), lop, *(oops + ([rop] if rop else []) + oops))
                out.append(p_)
                if rn == 'none' or (len(refetches) > 1 and ri == 1 + (li + oi) % (len(refetches) - 1)): quick.append(p_['name'])
    return out, quick
EMPTY_ITEMS, EMPTY_ITEMS_QUICK = gen_observed_loaded(3, 'items', (3, 5), (), [('none', None), ('q_all', ('q_all', 'I')), ('q_gt', ('q_gt', 'I')),
                                                     ('q_one', ('q_one', 'I', 3)), ('nav', ('attr', 'I', 3, 'g')), ('get_fu', ('get_fu', 'I', 5))])
EMPTY_TAGS, EMPTY_TAGS_QUICK = gen_observed_loaded(3, 'tags', (1,), (), [('none', None), ('other_side', ('items', 'T', 1, 'groups')),
                                                   ('prefetch', ('prefetch', 'G', 'tags')), ('cload', ('cload', 'G', 3, 'tags'))])
FULL_ITEMS_NONE, _ = gen_observed_loaded(1, 'items', (1, 2, 3), (1, 2), [('none', None)])          # thorough tier only
FULL_TAGS_NONE, _ = gen_observed_loaded(1, 'tags', (1, 2), (1,), [('none', None)])                 # thorough tier only
OBSERVED_LOADED = EMPTY_ITEMS + EMPTY_TAGS + FULL_ITEMS_NONE + FULL_TAGS_NONE
OBSERVED_LOADED_QUICK = EMPTY_ITEMS_QUICK + EMPTY_TAGS_QUICK
def ol_writers(name):
    g3 = name.startswith('E:G3')
    if '.tags:' in name: return ['tag_add_G3'] if g3 else ['tag_add', 'tag_remove']
    return ['new_I5_G3', 'move_I3_G3'] if g3 else ['move_I1', 'unlink_I1', 'del_I1', 'move_I3_in', 'new_I4']

# ---- family 'one2one' (names 'O:...', second world): a one-to-one attribute whose OWN side holds a column
# (symmetric S.spouse; M.wife / F.husband with column= on both sides). The reader observes x.attr (None or an
# object), a writer commits a re-link (through either side; one writer stores one side only with raw SQL, the way a
# foreign program would), the reader then fetches ANOTHER row y of the partner entity by every route (y may have been
# loaded before the first observation: 'pre') and observes x.attr again.
def gen_one2one(ent, attr, pent, rattr, xs, ys):
    out = []
    for x in xs:
        routes = [('q_all', ('q_all', pent)), ('q_gt', ('q_gt', pent))]
        for y in ys:
            if pent == ent and y == x: continue
            routes += [('get%d' % y, ('attr', pent, y, 'name')), ('q_one%d' % y, ('q_one', pent, y)), ('get_fu%d' % y, ('get_fu', pent, y)),
                       ('nav%d' % y, ('attr', pent, y, rattr))]
        for rn, rop in routes:
            out.append(P('O:%s%d.%s|%s' % (ent, x, attr, rn), ('attr', ent, x, attr), rop, ('attr', ent, x, attr)))
        for y in ys:
            if pent == ent and y == x: continue
            for rn, rop in (('q_all', ('q_all', pent)), ('q_one%d' % y, ('q_one', pent, y)), ('load%d' % y, ('load', pent, y))):
                out.append(P('O:%s%d.%s|pre%d+%s' % (ent, x, attr, y, rn), ('attr', pent, y, 'name'), ('attr', ent, x, attr), rop, ('attr', ent, x, attr)))
    return out
ONE2ONE = gen_one2one('S', 'spouse', 'S', 'spouse', (1, 3), (2, 4)) + gen_one2one('M', 'wife', 'F', 'husband', (1, 2), (1, 2)) \
          + gen_one2one('F', 'husband', 'M', 'wife', (1, 2), (1, 2))
ONE2ONE_WRITERS = [
    P('marry_S2_S3', ('rel', 'S', 2, 'spouse', 'S', 3)),
    P('marry_S2_S1', ('rel', 'S', 2, 'spouse', 'S', 1)),            # S4 becomes single
    P('divorce_S1', ('rel', 'S', 1, 'spouse', None, None)),
    P('marry_M2_F2', ('rel', 'M', 2, 'wife', 'F', 2)),
    P('marry_F2_M2', ('rel', 'F', 2, 'husband', 'M', 2)),           # the same link made from the other side
    P('marry_M2_F1', ('rel', 'M', 2, 'wife', 'F', 1)),              # M1 loses his wife
    P('marry_F2_M1', ('rel', 'F', 2, 'husband', 'M', 1)),           # F1 loses her husband
    P('divorce_M1', ('rel', 'M', 1, 'wife', None, None)),
    P('raw_F2_husband_M2', ('raw', 'F', 'update "F" set husband = 2 where id = 2')),   # one side only
    P('raw_M2_wife_F2', ('raw', 'M', 'update "M" set wife = 2 where id = 2')),
]
def o_writers(name):
    return [w['name'] for w in ONE2ONE_WRITERS if ('_S' in w['name']) == name.startswith('O:S')]

BASE_READERS = list(READERS)
READERS = BASE_READERS + LOADED_FIRST + WRITE_BETWEEN + OBSERVED_LOADED + ONE2ONE
PROGRAMS = READERS + WRITERS + ONE2ONE_WRITERS
BY_NAME = {p['name']: p for p in PROGRAMS}
assert len(BY_NAME) == len(PROGRAMS)
assert set(LOADED_FIRST_QUICK + WRITE_BETWEEN_QUICK + OBSERVED_LOADED_QUICK) <= set(BY_NAME)
CONTROL_READERS = ('vol|load', 'vol|q_all', 'vitems|cload', 'vitems|q_all')
VOLATILE_WRITERS = ('upd_vol', 'move_V1', 'move_V2_in')
TRIPLE_READERS = ['val|load', 'g|q_one', 'items|cload', 'items|q_all', 'tags|other_side', 'vol|load']
TRIPLE_WRITERS = ['upd_val', 'move_I1', 'new_I4', 'tag_remove', 'upd_vol', 'del_I1']
XCHECK = [('val|load', 'upd_val'), ('items|cload', 'new_I4'), ('tags|other_side', 'tag_add')]

def pk(obj):
    return None if obj is None else obj.id

def attr_entity(attr):
    return 'I' if attr == 'items' else 'V' if attr == 'vitems' else 'T' if attr == 'tags' else 'G'

def interpret(t, prog, orm, E, note):
    objs = {}
    def get(ename, o):
        if (ename, o) not in objs: objs[(ename, o)] = E[ename][o]
        return objs[(ename, o)]
    for i, op in enumerate(prog['ops']):
        k = op[0]
        note('op', i)
        if k == 'attr':
            _, ename, o, attr = op
            obj = get(ename, o)
            val = getattr(obj, attr)
            if isinstance(val, orm.core.Entity): val = pk(val)
            note('obs', '%s[%s].%s' % (ename, o, attr), val)
        elif k == 'load':
            obj = get(op[1], op[2])
            if len(op) > 3: obj.load(getattr(E[op[1]], op[3]))
            else: obj.load()
        elif k == 'q_one':
            ename, o = op[1], op[2]
            res = orm.select('x for x in Ent if x.id == o', {'Ent': E[ename], 'o': o})[:]
            for obj in res: objs[(ename, obj.id)] = obj
        elif k == 'q_all':
            for obj in E[op[1]].select()[:]: objs[(op[1], obj.id)] = obj
        elif k == 'q_gt':
            for obj in orm.select('x for x in Ent if x.id > 0', {'Ent': E[op[1]]})[:]: objs[(op[1], obj.id)] = obj
        elif k == 'q_val':
            val = op[2]
            for obj in orm.select('x for x in Ent if x.val >= val', {'Ent': E[op[1]], 'val': val})[:]: objs[(op[1], obj.id)] = obj
        elif k == 'commit': orm.commit(); note('committed')
        elif k == 'flush': orm.flush()
        elif k == 'get_fu':
            obj = E[op[1]].get_for_update(id=op[2])
            if obj is not None: objs[(op[1], op[2])] = obj
        elif k == 'prefetch':
            ent = E[op[1]]
            for obj in ent.select().prefetch(getattr(ent, op[2]))[:]:
                objs[(op[1], obj.id)] = obj; note('loaded', '%s[%s].%s' % (op[1], obj.id, op[2]))
        elif k in ('items', 'len', 'count', 'empty', 'in', 'cload', 'copy', 'bool', 'eq'):
            ename, o, attr = op[1], op[2], op[3]
            coll = getattr(get(ename, o), attr)
            key = '%s[%s].%s' % (ename, o, attr)
            if k == 'items': note('obs', key, sorted(x.id for x in coll), 'full')
            elif k == 'len': note('obs', key, len(coll), 'len')
            elif k == 'count': note('obs', key, coll.count(), 'count')
            elif k == 'empty': note('obs', key, coll.is_empty(), 'empty')
            elif k == 'copy': note('obs', key, sorted(x.id for x in coll.copy()), 'full')
            elif k == 'bool': note('obs', key, bool(coll), 'bool')
            elif k == 'eq': note('obs', key, coll == set(get(attr_entity(attr), i) for i in op[4]), ('eq', tuple(op[4])))
            elif k == 'cload': coll.load(); note('loaded', key)
            else:
                item = E[attr_entity(attr)].get(id=op[4])
                if item is not None: note('obs', key, item in coll, ('in', op[4]))
        # ---- writer operations ----
        elif k == 'set':
            setattr(get(op[1], op[2]), op[3], op[4])
        elif k == 'delete':
            get(op[1], op[2]).delete()
        elif k == 'link':
            setattr(get(op[1], op[2]), op[3], None if op[4] is None else E['G'][op[4]])
        elif k == 'rel':
            setattr(get(op[1], op[2]), op[3], None if op[4] is None else E[op[4]][op[5]])
        elif k == 'raw':
            E[op[1]]._database_.execute(op[2])
        elif k == 'link1':
            E['D'][op[1]].item = None if op[2] is None else E['I'][op[2]]
        elif k == 'new':
            E['I'](id=op[2], val=0, vol=0, lz='l4', g=E['G'][op[3]])
        elif k == 'm2m':
            g = E['G'][op[2]]; tg = E['T'][op[3]]
            (g.tags.add if op[1] == 'add' else g.tags.remove)(tg)
        else: raise core.HarnessError('unknown op %r' % (op,))

def body_of(prog):
    def body(t):
        orm = t.orm
        try:
            with orm.db_session(**prog['flags']):
                interpret(t.index, prog, orm, t.E, t.note)
            return dict(status='ok')
        except core.HarnessError: raise
        except Exception as e:
            pony = isinstance(e, (orm.core.OrmError, orm.dbapiprovider.DBException))
            return dict(status='exc', cls=type(e).__name__, pony=pony, msg=str(e)[:200])
    return body

class View(object):
    def __init__(self, world, progs, x):
        self.world, self.progs, self.x, self.n = world, progs, x, len(progs)
        self.res = [r[1] if r[0] == 'ok' else dict(status='engine', cls=r[0], pony=False, msg=str(r[1:])) for r in x.results]
        self.ok = [r['status'] == 'ok' for r in self.res]
        self.notes = [[] for _ in progs]
        for step, t, data in x.notes: self.notes[t].append((step, data))
        self.change_steps = [j for j in range(len(x.trace)) if x.snaps[j] != x.snaps[j + 1]]
    def outcome(self):
        return (tuple((r['status'], r.get('cls')) for r in self.res),
                tuple(tuple((d[1], repr(d[2])) for _, d in ns if d[0] == 'obs') for ns in self.notes))
    def sample(self):
        x = self.x
        return dict(programs=[p['name'] for p in self.progs], schedule=''.join(str(t) for t in x.schedule()), preemptions=x.preemptions,
                    trace=x.describe(24), results=[(r['status'], r.get('cls')) for r in self.res],
                    observations=[[(d[1], d[2]) for _, d in ns if d[0] == 'obs'] for ns in self.notes])
    def volatile_only_change(self, j):
        """the commit at step j changed nothing but volatile columns / tables"""
        a, b = self.x.snaps[j], self.x.snaps[j + 1]
        for table in a:
            if a[table] == b[table] or table in VOLATILE_TABLES: continue
            cols = self.world.columns[table]
            ra, rb = {r[0]: r for r in a[table]}, {r[0]: r for r in b[table]}
            if set(ra) != set(rb): return False
            for key in ra:
                for c, va, vb in zip(cols, ra[key], rb[key]):
                    if va != vb and (table, c) not in VOLATILE_COLUMNS: return False
        return True

def op_shape(op):
    """shape of an operation for signatures: kind + attribute/collection name, no object ids"""
    k = op[0]
    if len(op) == 1: return k
    if k in ('attr', 'items', 'len', 'count', 'empty', 'in', 'cload', 'copy', 'bool', 'eq'): return '%s:%s' % (k, op[3])
    if k in ('set', 'link', 'rel'): return '%s:%s.%s' % (k, op[1], op[3])
    if k == 'prefetch': return 'prefetch:%s' % op[2]
    if k == 'load': return 'load' + (':' + op[3] if len(op) > 3 else '')
    return '%s:%s' % (k, op[1])

def route(v, t, step_a, idx_a, idx_b):
    """shapes of the operations the reader executed between two observations (note indexes)"""
    ops = v.progs[t]['ops']
    seq = [d[1] for _, d in v.notes[t][idx_a + 1:idx_b] if d[0] == 'op']
    return ','.join(op_shape(ops[i]) for i in seq[:-1]) or 'none'

def failing_op(v, t):
    seq = [d[1] for _, d in v.notes[t] if d[0] == 'op']
    return op_shape(v.progs[t]['ops'][seq[-1]]) if seq else 'start'

NOEXP = object()
ROW_QUERIES = ('q_all', 'q_one', 'q_gt', 'q_val', 'get_fu')

def is_volatile_key(key):
    return key.endswith('.vol') or key.endswith('.vitems')

def judge(v, counters):
    out = []
    def bump(k, n=1): counters[k] = counters.get(k, 0) + n
    if v.x.deadlock: out.append(('deadlock|reader+writers', 'no enabled thread while some thread is unfinished'))
    for t in range(v.n):
        name = v.progs[t]['name']
        r = v.res[t]
        if r['status'] == 'exc' and not r['pony']:
            out.append(('unexpected-exception|%s|at=%s' % (r['cls'], failing_op(v, t)),
                        'T%d (%s) died with %s: %s' % (t, name, r['cls'], r['msg'])))
        elif r['status'] == 'engine': out.append(('engine-result|%s' % r['cls'], repr(r)))
        if r['status'] == 'exc' and r['cls'] == 'UnrepeatableReadError':
            bump('UnrepeatableReadError')
            if name.startswith('O:'): bump('UnrepeatableReadError_one2one_reader')
            if name.startswith('E:G3'): bump('UnrepeatableReadError_reader_of_collection_observed_empty')
            if any(d[0] == 'committed' for _, d in v.notes[t]): bump('UnrepeatableReadError_after_in_session_commit')
            if any(d[0] == 'loaded' for _, d in v.notes[t]) or v.progs[t]['ops'][0][0] in ('len', 'bool'): bump('UnrepeatableReadError_collection_loaded_first')
            others = [j for j in v.change_steps if v.x.trace[j][0] != t]
            if not [j for j in others if not v.volatile_only_change(j)]:
                out.append(('control-raised|at=%s|%s' % (failing_op(v, t), 'volatile-only change' if others else 'no concurrent commit'),
                            'T%d failed with UnrepeatableReadError (%s) although other sessions committed only volatile data' % (t, r['msg'])))
        if r['status'] == 'exc' and r['cls'] == 'OptimisticCheckError': bump('OptimisticCheckError')
        # the oracle proper: equal observations per key
        full, first, at = {}, {}, {}
        loaded, derived = set(), {}       # collections known to be fully loaded in the cache; first derived observations of them
        for idx, (step, d) in enumerate(v.notes[t]):
            if d[0] == 'loaded': loaded.add(d[1])
            if d[0] != 'obs': continue
            key, val, how = d[1], d[2], (d[3] if len(d) > 3 else 'attr')
            if isinstance(how, list): how = (how[0], tuple(how[1]) if isinstance(how[1], list) else how[1])
            vol = is_volatile_key(key)
            was_loaded = key in loaded
            if how in ('full', 'len', 'bool'): loaded.add(key)
            if how == 'attr':
                if key in first:
                    bump('volatile_reobserved' if vol else 'attributes_reobserved')
                    if name.startswith('O:'): bump('one2one_attributes_reobserved')
                    if first[key] != val:
                        if vol: bump('volatile_changed_silently')
                        else: out.append(('value-changed-silently|%s|via=%s' % (key.split('.')[-1], route(v, t, step, at[key], idx)),
                                          'T%d (%s) observed %s = %r and later %r without an error' % (t, name, key, first[key], val)))
                else: first[key] = val; at[key] = idx
                continue
            base = full.get(key)
            if how == 'full' or (how == 'len' and base is None):
                if how == 'len':
                    full[key] = ('len', val); at[key] = idx; continue
                if base is not None:
                    bump('volatile_reobserved' if vol else 'collections_reobserved')
                    same = (base[1] == val) if base[0] == 'items' else (base[1] == len(val))
                    if not same:
                        if vol: bump('volatile_changed_silently')
                        else:
                            how2 = 'size' if base[0] != 'items' else '+'.join(w_ for w_, c_ in (('appeared', set(val) - set(base[1])), ('disappeared', set(base[1]) - set(val))) if c_)
                            out.append(('collection-changed-silently|%s|via=%s|%s' % (key.split('.')[-1], route(v, t, step, at[key], idx), how2),
                                        'T%d (%s) observed %s = %r and later %r without an error' % (t, name, key, base[1], val)))
                full[key] = ('items', val); at[key] = idx
                continue
            # derived questions (len / count / is_empty / bool / in / ==): predicted from the full observation, otherwise
            # compared with the answer to the same question put before to the collection when it was already fully loaded
            expect, ref = NOEXP, None
            if base is not None:
                n = len(base[1]) if base[0] == 'items' else base[1]
                if how == 'len' or how == 'count': expect = n
                elif how == 'empty': expect = (n == 0)
                elif how == 'bool': expect = (n != 0)
                elif base[0] == 'items' and how[0] == 'in': expect = how[1] in base[1]
                elif base[0] == 'items' and how[0] == 'eq': expect = sorted(how[1]) == sorted(base[1])
                ref = at[key]
            if expect is NOEXP and (key, how) in derived: expect, ref = derived[(key, how)]
            if was_loaded: derived.setdefault((key, how), (val, idx))
            if expect is NOEXP: continue         # computed by the database before any full load: a different read
            bump('volatile_reobserved' if vol else 'collections_reobserved')
            if expect in (0, True) and how in ('len', 'count', 'empty') and not vol: bump('empty_collection_size_reobserved')
            if val != expect:
                if vol: bump('volatile_changed_silently')
                else:
                    via = route(v, t, step, ref, idx)
                    if not (base is not None and base[0] == 'items'):
                        # the content was never iterated: which fresh query returned the item rows does not matter
                        via = 'never-iterated,' + ','.join(sorted(set('rowquery:' + x.split(':')[1] if x.split(':')[0] in ROW_QUERIES else x for x in via.split(','))))
                    out.append(('collection-changed-silently|%s|via=%s|%s' % (key.split('.')[-1], via, how if isinstance(how, str) else how[0]),
                                'T%d (%s): fully loaded %s answered %r before (%r); later %r gave %r'
                                % (t, name, key, expect, base[1] if base else 'same question', how, val)))
    # committed rows change only in commits of sessions that end successfully (writers are plain sessions)
    for j in v.change_steps:
        tt, lab = v.x.trace[j]
        later_commit_returned = any(d[0] == 'committed' and step >= j for step, d in v.notes[tt])    # an explicit commit() inside the session
        if lab[0] != 'commit' or not (v.ok[tt] or later_commit_returned):
            out.append(('rows-changed-by-failed-or-uncommitted-session|%s' % v.progs[tt]['name'], 'step %d %r' % (j, lab)))
    if len(v.change_steps): bump('executions_with_a_committed_change')
    return out

def work_items(ctx):
    rn = [p['name'] for p in BASE_READERS]; wn = [p['name'] for p in WRITERS if p['name'] not in G3_WRITERS]
    pairs = [(a, b) for a in rn for b in wn]
    items = []
    def coll_of(name): return 'tags' if 'tags' in name else 'vitems' if 'vitems' in name else 'items'
    if ctx.quick:
        items += [('pair', pr, 2, 'visible') for pr in pairs]
        # the writer fits between two observations with ONE preemption
        items += [('loaded-first', (a, b), 1, 'visible') for a in LOADED_FIRST_QUICK for b in LOADED_FIRST_WRITERS_QUICK[coll_of(a)]]
        items += [('write-between', (a, b), 1, 'visible') for a in WRITE_BETWEEN_QUICK for b in wb_writers(a, True)]
        items += [('observed-loaded', (a, b), 1, 'visible') for a in OBSERVED_LOADED_QUICK for b in ol_writers(a)]
        items += [('one2one', (p_['name'], b), 1, 'visible') for p_ in ONE2ONE for b in o_writers(p_['name'])]
        items += [('xcheck', pr, 1, 'all') for pr in XCHECK[:2]]
    else:
        items += [('pair', pr, None, 'visible') for pr in pairs]
        # the full products at preemption bound 2, the quick tier's selection under all interleavings
        lq, wq = set(LOADED_FIRST_QUICK), set(WRITE_BETWEEN_QUICK)
        items += [('loaded-first', (p_['name'], b), None if p_['name'] in lq else 2, 'visible')
                  for p_ in LOADED_FIRST for b in LOADED_FIRST_WRITERS[coll_of(p_['name'])]]
        items += [('write-between', (p_['name'], b), None if (p_['name'] in wq and b in wb_writers(p_['name'], True)) else 2, 'visible')
                  for p_ in WRITE_BETWEEN for b in wb_writers(p_['name'], False)]
        oq = set(OBSERVED_LOADED_QUICK)
        items += [('observed-loaded', (p_['name'], b), None if p_['name'] in oq else 2, 'visible') for p_ in OBSERVED_LOADED for b in ol_writers(p_['name'])]
        items += [('one2one', (p_['name'], b), None, 'visible') for p_ in ONE2ONE for b in o_writers(p_['name'])]
        items += [('triple', (a,) + ws, 2, 'visible') for a in TRIPLE_READERS for ws in itertools.combinations(TRIPLE_WRITERS, 2)]
        items += [('xcheck', pr, 2, 'all') for pr in XCHECK]
    return items

def worker(arg):
    item, seed = arg
    sub = core.Sub()
    progs = [BY_NAME[n] for n in item[1]]
    st = L.explore_item(item, seed, sub, 'C21', progs, judge,
                        world_factory=world_factory_for(progs), body_factory=body_of, view_factory=View)
    return dict(item=item, sub=sub.dump(), stats=st)

def run(ctx):
    items = work_items(ctx)
    results = ctx.pmap(worker, [(it, ctx.seed) for it in ctx.shuffled(items)])
    agg = L.merge(ctx, results)
    L.xcheck(ctx, agg, results)
    c = ctx.counters
    L.guards(ctx, [
        ('schedules in which UnrepeatableReadError occurred', c.get('UnrepeatableReadError', 0), 200),
        ('attribute re-observations compared', c.get('attributes_reobserved', 0), 1000),
        ('collection re-observations compared', c.get('collections_reobserved', 0), 1000),
        ('volatile control group re-observed', c.get('volatile_reobserved', 0), 200),
        ('volatile control group changed silently (no error)', c.get('volatile_changed_silently', 0), 10),
        ('executions with a committed concurrent change', c.get('executions_with_a_committed_change', 0), 1000),
        ('program pairs with more than one distinct outcome', agg['per_kind']['pair']['tuples_with_more_than_one_outcome'], 50),
        ('loaded-first reader x writer pairs with more than one distinct outcome', agg['per_kind']['loaded-first']['tuples_with_more_than_one_outcome'], 60),
        ('write-between reader x writer pairs with more than one distinct outcome', agg['per_kind']['write-between']['tuples_with_more_than_one_outcome'], 40),
        ('observed-loaded reader x writer pairs with more than one distinct outcome', agg['per_kind']['observed-loaded']['tuples_with_more_than_one_outcome'], 60),
        ('one-to-one reader x writer pairs with more than one distinct outcome', agg['per_kind']['one2one']['tuples_with_more_than_one_outcome'], 60),
        ('UnrepeatableReadError of a reader of a one-to-one attribute with its own column', c.get('UnrepeatableReadError_one2one_reader', 0), 100),
        ('UnrepeatableReadError of a reader that observed a fully loaded collection EMPTY', c.get('UnrepeatableReadError_reader_of_collection_observed_empty', 0), 50),
        ('one-to-one attributes (own column) re-observed', c.get('one2one_attributes_reobserved', 0), 500),
        ('size questions re-put to a fully loaded EMPTY collection', c.get('empty_collection_size_reobserved', 0), 200),
        ('UnrepeatableReadError after an in-session commit of the reader', c.get('UnrepeatableReadError_after_in_session_commit', 0), 50),
        ('UnrepeatableReadError of a reader that fully loaded the collection before observing it', c.get('UnrepeatableReadError_collection_loaded_first', 0), 50),
        ('all-points cross-check tuples', c.get('xcheck_tuples_all_points_outcomes_contained', 0), 2),])
    out = L.coverage(ctx, agg)
    ctx.cov.update(readers=len(READERS), writers=len(WRITERS), base_readers=len(BASE_READERS),
                   loaded_first_readers=len(LOADED_FIRST_QUICK if ctx.quick else LOADED_FIRST),
                   write_between_readers=len(WRITE_BETWEEN_QUICK if ctx.quick else WRITE_BETWEEN),
                   observed_loaded_readers=len(OBSERVED_LOADED_QUICK if ctx.quick else OBSERVED_LOADED),
                   one2one_readers=len(ONE2ONE), one2one_writers=len(ONE2ONE_WRITERS),
                   bounds=('reader x writer: preemption bound 2; loaded-first (%d of %d readers) and write-between (%d of %d readers) '
                           'x their relevant writers: preemption bound 1; observed-loaded (%d of %d readers) and one2one (all %d readers) x their '
                           'relevant writers: preemption bound 1' % (len(LOADED_FIRST_QUICK), len(LOADED_FIRST), len(WRITE_BETWEEN_QUICK), len(WRITE_BETWEEN),
                                                                     len(OBSERVED_LOADED_QUICK), len(OBSERVED_LOADED), len(ONE2ONE)))
                          if ctx.quick else
                          'reader x writer: all interleavings; loaded-first / write-between families x their relevant writers: every '
                          'generated reader at preemption bound 2, the quick selection under all interleavings (same for observed-loaded); '
                          'one2one readers x their writers: all interleavings; '
                          'reader + 2 writers (%d x C(%d,2)): preemption bound 2' % (len(TRIPLE_READERS), len(TRIPLE_WRITERS)))
    ctx.cov['exhaustive'] = True
    ctx.assume('SQLite only (PostgreSQL/MySQL server behaviour is out of reach); the reader observes through the public API only')
    return out

def replay(ctx, case):
    progs = case['programs']
    for p in progs: p['ops'] = [tuple(op) for op in p['ops']]
    world = world_factory_for(progs)()
    try:
        ex = tx.Explorer(world, [body_of(p) for p in progs], points=case.get('points', 'visible'))
        x = ex.run(tuple(case['choices']))
        v = View(world, progs, x)
        for line in x.describe(80): print('  ' + line)
        print('results', [(r_['status'], r_.get('cls'), r_.get('msg')) for r_ in v.res])
        print('observations', v.sample()['observations'])
        found = judge(v, {})
        for sig, msg in found: print('VIOLATED', sig, '-', msg)
        return not found
    finally:
        world.close()
