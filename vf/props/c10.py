"""C10 Lookups and queries inside a session see the session's own unflushed changes.

SX differential. For every explored state h and every read r of the read family:
    obs(h . r)                       the read inside the session (cache-first paths, auto-flush paths)
must equal
    obs(h . end . new-session . r)   the same read answered from the committed database by a fresh session.
'flush' is part of the history alphabet, so "read after flush in the same session" is obs(h.flush . r)
of the next level and is compared with the same reference.
"""
from vf import core
from vf.engines import sx

LEVEL = 'model_checking'

def touched(hist):
    labels, attrs, ents = set(), set(), set()
    for op in hist:
        for l in sx.operands(op): labels.add(l)
        if op[0] == 'create': ents.add(op[1])
        if op[0] in ('set', 'add', 'remove', 'clear', 'assign'): attrs.add(op[2])
        if op[0] == 'setm': attrs.update(k for k, v in op[2])
        if op[0] in ('bulkdel', 'qdel'): ents.add(op[1])
    return labels, attrs, ents

def relevant(env, read, t):
    """quick tier, depth 2: reads that name an object or attribute the history names"""
    labels, attrs, ents = t
    k = read[0]
    if k in ('r_get', 'r_idx', 'r_todict'): return read[1] in labels
    if k in ('r_count', 'r_all', 'r_bysql'): return read[1] in ents
    if k in ('r_exists', 'r_getby', 'r_selkw', 'r_selq', 'r_sum', 'r_max', 'r_proj'): return read[2] in attrs
    if k == 'r_attr': return read[1] in labels and read[2] in attrs
    return read[1] in labels or (len(read) > 3 and read[3] in labels)

def reference(env, fixture, hist, reads):
    """answers of all reads, each in its own fresh session on the state committed by hist.end"""
    x = sx.Exec(env, fixture, record_sql=False)
    try:
        x.replay(hist)
        if x.skipped: return None
        if x.apply(('end',))[0] != 'ok': return None
        out = []
        for r in reads:
            o = x.apply(r); x.skipped = False
            out.append(o)
            x.apply(('end',))
        return out
    finally: x.finish()

def inside(env, fixture, hist, read):
    x = sx.Exec(env, fixture)
    try:
        x.replay(hist)
        n = len(x.sql)
        facts = dict(x.__dict__.get('facts', {}))
        o = x.apply(read)
        inside.facts = facts
        return o, len(x.sql) - n
    finally: x.finish()

def fact_conflict(read, o, facts):
    """the in-session answer contradicts an unconditional fact about what the program did earlier"""
    if o[0] != 'ok': return None
    k = read[0]
    if k == 'r_attr':
        f = facts.get((read[1], read[2]))
        if f and f[0] == 'val' and o[1] != f[1]: return 'assigned-value-lost'
    elif k in ('r_citer', 'r_cselect'):
        f = facts.get((read[1], read[2]))
        if f:
            if f[0] == 'is' and o[1] != f[1]: return 'assigned-collection-differs'
            if f[0] == 'has' and f[1] not in o[1]: return 'added-item-missing'
            if f[0] == 'hasnot' and f[1] in o[1]: return 'removed-item-present'
    elif k == 'r_cin':
        f = facts.get((read[1], read[2]))
        if f:
            if f[0] == 'has' and f[1] == read[3] and o[1] is not True: return 'added-item-missing'
            if f[0] == 'hasnot' and f[1] == read[3] and o[1] is not False: return 'removed-item-present'
            if f[0] == 'is' and o[1] != (read[3] in f[1]): return 'assigned-collection-differs'
    return None

def readsig(env, read):
    k = read[0]
    if k in ('r_exists', 'r_getby', 'r_selkw', 'r_selq'):
        return '%s(%s=%s)' % (k, read[2], 'None' if read[3] is None else ('ref' if isinstance(read[3], tuple) else 'val'))
    if len(read) > 2 and isinstance(read[2], str): return '%s(%s)' % (k, read[2])
    return k

def worker(args):
    name, tier, seed, fixture = args
    from vf.models import catalog
    sub = core.Sub()
    env = sx.Env(catalog.by_name(name))
    rel = name.split('-')[0]
    reads = env.reads()
    ops = [op for op in env.ops() if op[0] != 'qdel'] + env.shaping_reads()      # bulk delete bypasses the cache by design (C15)
    # queries as history operations: a repeated query must not be answered from a stale result cache
    for root in env.root_entities:
        ops += [r for r in reads if r[0] in ('r_all', 'r_count') and r[1] == root]
        ops += [r for r in reads if r[0] in ('r_selkw', 'r_selq') and r[1] == root and r[3] == 0][:2]
    auto = env.model.opts.get('pk') == 'auto'
    if auto:
        # an object without a primary key cannot be looked up by key inside the session
        reads = [r for r in reads if r[0] not in ('r_get', 'r_idx')]
    ex = sx.Explorer(env, fixtures=(fixture,), ops=ops)
    presigs = {}
    seen_states = set()
    def check_state(fixture, hist, depth_full):
        # creating an object under a primary key that exists in the database but is not loaded is a
        # latent key conflict (reported at flush: C14); the session is then not a valid program state
        if sx.latent_conflict(fixture, hist): return
        t = touched(hist)
        rs = reads if depth_full else [r for r in reads if relevant(env, r, t)]
        if not rs: return
        ref = reference(env, fixture, hist, rs)
        if ref is None:
            sub.count('states_whose_commit_fails_skipped'); return
        sub.count('states_checked')
        for r, o3 in zip(rs, ref):
            o1, ncalls = inside(env, fixture, hist, r)
            sub.count('reads_compared')
            if o1[0] == 'skip' and o3[0] == 'skip': continue
            if ncalls == 0 and o1[0] == 'ok': sub.count('reads_answered_from_cache')
            lost = fact_conflict(r, o1, inside.facts)
            if lost:
                sub.count('fact_checks_failed')
                small = sx.shrink(list(hist) + [r], lambda h: bool(fact_conflict(h[-1], inside(env, fixture, h[:-1], h[-1])[0], inside.facts)))[:-1]
                sub.violation('%s|%s|%s|%s' % (rel, sx.kinds(small) or '-', readsig(env, r), lost),
                              dict(model=name, fixture=fixture, history=small, read=r, in_session=o1, fresh_session=None),
                              'after %r the read %r answers %r, contradicting what the program did (%s)' % (small, r, o1, lost))
                continue
            if o1 != o3:
                pre = (sx.kinds(hist), readsig(env, r), o1[0], o3[0])
                if pre in presigs:
                    sub.violation(presigs[pre], {}, ''); continue
                def fails(h, r=r):
                    rf = reference(env, fixture, h, [r])
                    if rf is None: return False
                    a, _ = inside(env, fixture, h, r)
                    return a != rf[0] and not (a[0] == 'skip' and rf[0][0] == 'skip')
                small = sx.shrink(list(hist) + [r], lambda h: fails(h[:-1]))[:-1]
                a, _ = inside(env, fixture, small, r); b = reference(env, fixture, small, [r])[0]
                sig = '%s|%s|%s|in-session=%s fresh=%s' % (rel, sx.kinds(small) or '-', readsig(env, r), cls(a), cls(b))
                if small and small[-1][0] == 'objflush' and r[0] == 'r_ccount' and not sx.has_self_link(small):
                    # one root cause whatever the model: obj.flush() writes the object's new link but leaves it in the
                    # pending added/removed set of the collection on the other side
                    sig = '*|link-change>obj.flush()|r_ccount|pending link counted again after obj.flush()'
                if a == ('exc', 'NotImplementedError'):
                    # one root cause whatever the history and the read: an object first met as an unloaded reference of the base class
                    # and touched before it is loaded cannot be refined to its subclass when its row arrives
                    sig = '%s|read-raises-NotImplementedError' % rel
                presigs[pre] = sig
                sub.violation(sig, dict(model=name, fixture=fixture, history=small, read=r, in_session=a, fresh_session=b),
                              'after %r the read %r answers %r inside the session but %r from the committed database' % (small, r, a, b))
    full_depth = 1 if tier == 'quick' else 2
    CORE = ('o2m', 'o2o', 'm2m', 'sym_m2m', 'self_o2m', 'o2m-req', 'casc3-opt')
    depth = 2 if (tier != 'quick' or name in CORE) else 1
    def on_state(env_, fixture, hist):
        check_state(fixture, hist, len(hist) <= full_depth)
    ex.run(depth, None, order=sx.seeded_order(seed), on_state=on_state)
    env.close()
    for s in ex.samples: sub.sample(s)
    return dict(sub=sub.dump(), states=ex.states, transitions=ex.transitions, executions=ex.executions)

def cls(o):
    if o[0] != 'ok': return o[0] + ':' + str(o[1])
    v = o[1]
    if isinstance(v, bool): return 'bool'
    if isinstance(v, int): return 'int'
    if v is None: return 'None'
    if isinstance(v, list): return 'list%d' % len(v)
    return type(v).__name__

def run(ctx):
    agg = sx.run_catalogue(ctx, worker)
    ctx.guard('reads compared', ctx.counters.get('reads_compared', 0), 1000)
    ctx.guard('reads answered from the session cache without a driver call', ctx.counters.get('reads_answered_from_cache', 0), 100)
    ctx.cov['per_model'] = agg['per_model']
    ctx.cov['bounds'] = ('quick: all distinct states of depth <= 1 for every model with the complete read family, plus depth 2 for the core models '
                         '(o2m, o2m-req, o2o, m2m, sym_m2m, self_o2m) with the reads that name an object/attribute/entity of the history; '
                         'thorough: depth 2 for every model with the complete read family') 
    if ctx.quick: ctx.cap('quick tier: depth 2 only for the core models and only reads naming objects/attributes/entities of the history')
    ctx.assume('reference = the same read in a fresh session after the history is committed; SQLite only')
    return dict(states=agg['states'], transitions=agg['transitions'],
                traces_validated_against_impl=agg['executions'] + ctx.counters.get('reads_compared', 0))

def replay(ctx, case):
    from vf.models import catalog
    env = sx.Env(catalog.by_name(case['model']))
    hist = [tuple(tuple(x) if isinstance(x, list) else x for x in o) for o in case['history']]
    r = tuple(tuple(x) if isinstance(x, list) else x for x in case['read'])
    a, n = inside(env, case['fixture'], hist, r)
    b = reference(env, case['fixture'], hist, [r])
    print('in session:', a, '(driver calls: %d)' % n); print('fresh session after commit:', b)
    env.close()
    return b is None or a == b[0]
