"""C33 Lifecycle hooks run once per saved change and their edits are saved.

SX overlay: a model whose entities carry all six hooks; the hook bodies are chosen per run from
{nothing, read, modify another attribute of self, modify another object, create an object of another
entity, delete another object} (before_* hooks) x {nothing, read} (after_* hooks). Histories of depth
<= 2 ending in flush / commit / obj.flush() are explored; the oracle works on the merged hook + driver
log of the whole execution:
  * every INSERT / UPDATE / DELETE of an object is preceded by exactly one matching before_* call for it
    (since that object's previous statement) and followed by exactly one matching after_* call;
  * no after_* hook runs without its statement;
  * attribute changes and objects made inside before_* hooks are in the committed rows.
"""
import re
from vf import core
from vf.engines import sx
from vf.seams import dbapi
from vf.models.catalog import Model

LEVEL = 'model_checking'
CFG = dict(before='nothing', after='nothing', counter=0)
BEFORE = ['nothing', 'read', 'modself', 'modother', 'create', 'delete']

def _log(kind, obj):
    log = dbapi.ENV.log
    if log is not None:
        log.append(('hook', kind, (type(obj)._root_.__name__, obj._pkval_)))

def _before(obj, kind):
    _log(kind, obj)
    E = obj._database_.entities
    b = CFG['before']
    if b == 'read' and kind != 'before_delete':           # (an object marked for deletion refuses to be read)
        obj.n if hasattr(type(obj), 'n') else obj.m
        for a in type(obj)._attrs_:
            if a.is_collection: len(getattr(obj, a.name))
    elif b == 'modself' and kind != 'before_delete':
        obj.k = 7
    elif b == 'modother' and kind != 'before_delete':
        other = E['A'].get(id=2) if type(obj).__name__ == 'B' else E['B'].get(id=2)
        if other is not None and other is not obj: other.k = 9
    elif b == 'create':
        CFG['counter'] += 1
        E['L'](id=100 + CFG['counter'], txt='%s:%s' % (kind, obj._pkval_))
    elif b == 'delete' and kind != 'before_delete':
        victim = E['B'].get(id=2)
        if victim is not None and victim is not obj and type(obj).__name__ != 'B': victim.delete()

def _after(obj, kind):
    _log(kind, obj)
    if CFG['after'] == 'read' and kind != 'after_delete':
        obj.k
        for a in type(obj)._attrs_:
            if a.is_collection: len(getattr(obj, a.name))
    elif CFG['after'] == 'modothers' and kind != 'after_delete':
        # the hook of an object saved earlier changes the objects of the other entity - some of them were written by the
        # same flush and still wait for their own after_* hook
        E = obj._database_.entities
        other = E['A'] if type(obj).__name__ == 'B' else E['B']
        for pk in (1, 2, 3):
            o = other.get(id=pk)
            if o is not None and o.k != 9: o.k = 9

def define(db):
    from pony.orm import PrimaryKey, Optional, Set
    hooks = {}
    for k in ('insert', 'update', 'delete'):
        hooks['before_' + k] = (lambda self, k=k: _before(self, 'before_' + k))
        hooks['after_' + k] = (lambda self, k=k: _after(self, 'after_' + k))
    type('A', (db.Entity,), dict(id=PrimaryKey(int), n=Optional(int), k=Optional(int), bs=Set('B'), **hooks))
    type('B', (db.Entity,), dict(id=PrimaryKey(int), m=Optional(int), k=Optional(int), a=Optional('A'), **hooks))
    type('L', (db.Entity,), dict(id=PrimaryKey(int), txt=Optional(str)))

def populate(E):
    a1 = E['A'](id=1, n=0); E['A'](id=2, n=1)
    E['B'](id=1, m=0, a=a1); E['B'](id=2, m=1, a=a1)

MODEL = Model('hooks', define, populate, tags=['hooks'], opts=dict(rel='o2m', pk='int'))


INS = re.compile(r'INSERT INTO "(\w+)" \(([^)]*)\)')
UPD = re.compile(r'UPDATE "(\w+)"\s+SET (.*?)\s+WHERE', re.S)
DEL = re.compile(r'DELETE FROM "(\w+)"')

def events(x):
    out = []
    for e in x.sql:
        if e[0] == 'hook':
            out.append((e[1], e[2])); continue
        k, s, a = e
        if k != 'execute' or not dbapi.is_write(s): continue
        m = INS.match(s)
        if m:
            cols = [c.strip().strip('"') for c in m.group(2).split(',')]
            if m.group(1) in ('A', 'B') and 'id' in cols: out.append(('insert', (m.group(1), a[cols.index('id')])))
            continue
        m = UPD.match(s)
        if m:
            if m.group(1) in ('A', 'B'): out.append(('update', (m.group(1), a[m.group(2).count('?')])))
            continue
        m = DEL.match(s)
        if m and m.group(1) in ('A', 'B'): out.append(('delete', (m.group(1), a[0])))
    return out

def judge(ev):
    """list of problems in one execution's event sequence"""
    bad = set()
    per = {}
    for kind, who in ev:
        if who[0] not in ('A', 'B'): continue
        per.setdefault(who, []).append(kind)
    for who, seq in per.items():
        pending_before = {}     # K -> count of before_K not yet consumed by a statement
        pending_stmt = {}       # K -> statements waiting for their after_K
        for kind in seq:
            if kind.startswith('before_'):
                K = kind[7:]
                pending_before[K] = pending_before.get(K, 0) + 1
                if pending_before[K] > 1: bad.add('before_%s twice before its statement' % K)
            elif kind.startswith('after_'):
                K = kind[6:]
                if pending_stmt.get(K, 0) < 1: bad.add('after_%s without a preceding %s statement' % (K, K.upper()))
                else: pending_stmt[K] -= 1
            else:
                K = kind
                if pending_before.get(K, 0) < 1: bad.add('%s without before_%s' % (K.upper(), K))
                else: pending_before[K] -= 1
                pending_stmt[K] = pending_stmt.get(K, 0) + 1
        # a before_* call whose statement never comes is not excluded by the property (a later hook may
        # delete the object or cancel its change): only statements are quantified over
        for K, n in pending_stmt.items():
            if n: bad.add('%s without after_%s' % (K.upper(), K))
    return sorted(bad)

def worker(args):
    before, after, tier, seed, fixture = args
    sub = core.Sub()
    env = sx.Env(MODEL)
    ops = [op for op in env.ops() if op[0] in ('create', 'set', 'add', 'remove', 'delete', 'clear', 'assign') and op[1] != 'L'
           and not (op[0] == 'create' and op[1] == 'L')]
    enders = [('flush',), ('commit',)] + [('objflush', l) for l in ('A:1', 'A:3', 'B:1', 'B:3')]
    ex = sx.Explorer(env, fixtures=(fixture,), ops=ops + enders)
    ex.track_dumps = True
    presigs = {}
    def run_cfg(hist):
        CFG.update(before=before, after=after, counter=0)
        return env.run(hist, fixture, track_dumps=True)
    def problems(x, hist):
        if x.skipped: return []
        ev = events(x)
        bad = judge(ev)
        # edits made by before_* hooks must be in the committed rows after a successful commit
        if hist[-1] == ('commit',) and x.obs[-1][0] == 'ok':
            rows = env.decode_dump(x.dumps[-1])
            nb = [e for e in ev if e[0] in ('before_insert', 'before_update')]
            if before == 'modself':
                for kind, who in nb:
                    lbl = '%s:%s' % who
                    if lbl in rows and rows[lbl].get('k') != 7: bad.append('edit of self made in %s not saved' % kind)
            if before == 'create':
                made = len([e for e in ev if e[0].startswith('before_')])
                have = len([l for l in rows if l.startswith('L:')])
                if have != made: bad.append('objects created in before_* hooks not all saved')
            if before == 'modother' and nb:
                for who in {e[1] for e in nb}:
                    tgt = 'A:2' if who[0] == 'B' else 'B:2'
                    if tgt in rows and tgt != '%s:%s' % who and rows[tgt].get('k') != 9: bad.append('edit of another object made in a before_* hook not saved')
        return sorted(set(bad))
    def visit(env_, fx, hist, x_):
        if hist[-1] not in enders: return
        if sx.latent_conflict(fixture, hist): return
        x = run_cfg(hist)
        sub.count('flush_histories')
        ev = events(x)
        sub.count('hook_calls', len([e for e in ev if '_' in e[0]])); sub.count('statements', len([e for e in ev if '_' not in e[0]]))
        if any(o[0] != 'ok' for o in x.obs):
            sub.count('flush_failed')
            # a failing operation / flush rolls back: hooks cannot be matched. But hooks that only read, edit a plain attribute
            # or create an unrelated object must not MAKE a flush fail that succeeds without hooks
            if all(o[0] == 'ok' for o in x.obs[:-1]) and before in ('read', 'modself', 'modother', 'create') and after in ('nothing', 'read'):
                CFG.update(before='nothing', after='nothing', counter=0)
                plain = env.run(hist, fixture, track_dumps=True)
                if all(o[0] == 'ok' for o in plain.obs):
                    sub.count('flush_fails_only_with_hooks')
                    sub.violation('before=%s after=%s|%s|fails-only-with-hooks:%s' % (before, after, hist[-1][0], x.obs[-1][1]),
                                  dict(before=before, after=after, fixture=fixture, history=hist),
                                  '%r ends with %s when the hooks are installed and succeeds without them' % (hist, x.obs[-1][1]))
            return
        bad = problems(x, hist)
        if not bad: return
        pre = (sx.kinds(hist), tuple(bad))
        if pre in presigs:
            sub.violation(presigs[pre], {}, ''); return
        small = sx.shrink(hist, lambda h: (lambda y: all(o[0] == 'ok' for o in y.obs) and bool(problems(y, h)))(run_cfg(h)))
        bad2 = problems(run_cfg(small), small) or bad
        sig = 'before=%s after=%s|%s|%s' % (before, after, sx.kinds(small), '; '.join(bad2))
        if list(bad2) == ['INSERT without before_insert'] and any(op[0] == 'objflush' for op in small):
            # one defect, one name: obj.flush() saves the created objects obj refers to (its principals) without their hook
            sig = 'obj.flush()|principal-object-saved|INSERT without before_insert'
        presigs[pre] = sig
        sub.violation(sig, dict(before=before, after=after, fixture=fixture, history=small, events=events(run_cfg(small))), '; '.join(bad2))
    CFG.update(before='nothing', after='nothing')
    ex.run(2, visit, order=sx.seeded_order(seed), last_only=lambda op: op in enders)
    env.close()
    for s in ex.samples: sub.sample(s)
    return dict(sub=sub.dump(), states=ex.states, transitions=ex.transitions, executions=ex.executions + sub.counters.get('flush_histories', 0))

def run(ctx):
    cfgs = [(b, 'nothing') for b in BEFORE] + [('nothing', 'read'), ('modself', 'read'), ('nothing', 'modothers'), ('read', 'modothers')]
    items = [(b, a, ctx.tier, ctx.seed, f) for (b, a) in cfgs for f in ('populated', 'empty')]
    results = ctx.pmap(worker, items)
    agg = dict(states=0, transitions=0, executions=0)
    for r in results:
        core.absorb(ctx, r['sub'])
        for k in agg: agg[k] += r[k]
    c = ctx.counters
    ctx.guard('flushing histories judged', c.get('flush_histories', 0), 1000)
    ctx.guard('hook calls observed', c.get('hook_calls', 0), 1000)
    ctx.guard('write statements observed', c.get('statements', 0), 1000)
    ctx.cov['bounds'] = '10 hook configurations x histories of one (thorough: two) arbitrary modifications + flush/commit/obj.flush() from both fixtures'
    ctx.assume('statements are attributed to objects by table and primary-key parameter of the real SQL text; SQLite only')
    return dict(states=agg['states'], transitions=agg['transitions'], traces_validated_against_impl=agg['executions'])

def replay(ctx, case):
    env = sx.Env(MODEL)
    hist = [tuple(tuple(x) if isinstance(x, list) else x for x in o) for o in case['history']]
    CFG.update(before=case['before'], after=case['after'], counter=0)
    x = env.run(hist, case['fixture'], track_dumps=True)
    ev = events(x); print(x.obs); print(ev); bad = judge(ev); print(bad)
    env.close()
    return not bad
