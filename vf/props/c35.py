"""C35 Locked rows and serializable sessions cannot be overwritten concurrently.

TX (thread-schedule explorer) on SQLite: a locking session (get_for_update, select(...).for_update(),
nowait, skip_locked, serializable, immediate) against optimistic and non-optimistic writers and against
other locking sessions on the same rows, under every schedule (all interleavings for pairs in the thorough
tier, iterative preemption bounding otherwise; locker + two writers with a preemption bound). On SQLite
the row lock is an immediate transaction plus a process-wide lock, so what matters is WHEN the transaction
is opened: schedules in which the writer starts before, between and after the locking session's first
statements are all covered. Monitors on every execution:

  lock window   from the transition in which a session locked row o (for a serializable / immediate /
                non-optimistic session: first read o) until its last commit/rollback, no other session's
                commit changes row o in the committed state (observer connection);
  repeatable    a locker reading the locked row again (attribute / load()) sees the same value;
  composition   per row, the final row is the composition in commit order of the committed updates (no
                committed write of either session is lost); rows change only in commits of sessions that
                end successfully;
  waiting       writers wait (disabled on the provider lock, counted) or fail with a Pony exception; no
                deadlock; no OptimisticCheckError/UnrepeatableReadError without a conflicting commit.

PostgreSQL (server behaviour out of reach): emission only. (a) with vf.engines.dm.capture_database:
FOR UPDATE [NOWAIT | SKIP LOCKED] is rendered exactly when requested, for every query shape of the list;
(b) with the real PGProvider on a statement-log connection: the locking SELECT is sent with
autocommit=False and nothing ends the transaction before the session's final commit; a serializable
session issues SET TRANSACTION ISOLATION LEVEL SERIALIZABLE before its first statement.
"""
import itertools, re
from vf import core
from vf.engines import tx
from vf.props import _tx_lib as L

LEVEL = 'model_checking'
P = L.P
def r(o, a): return ('r', o, a)
def w(o, a, src=None): return ('w', o, a, src)

LOCKERS = [
    P('fu_rmw_x', ('getfu', 1, ''), r(1, 'x'), w(1, 'x', 'x')),
    P('fu_ry_wx', ('getfu', 1, ''), r(1, 'y'), w(1, 'x')),
    P('fu_r_refetch_r', ('getfu', 1, ''), r(1, 'x'), ('refetch', 1), r(1, 'x'), r(1, 'y')),
    P('fu_flush_rmw', ('getfu', 1, ''), r(1, 'x'), w(1, 'x', 'x'), ('flush',), r(1, 'y'), w(1, 'y', 'y')),
    P('selfu_rmw_x', ('selfu', 1, ''), r(1, 'x'), w(1, 'x', 'x')),
    P('fu_nowait_rmw_x', ('getfu', 1, 'nowait'), r(1, 'x'), w(1, 'x', 'x')),
    P('fu_skip_rmw_x', ('getfu', 1, 'skip'), r(1, 'x'), w(1, 'x', 'x')),
    P('selfu_nowait_rmw_s', ('selfu', 1, 'nowait'), r(1, 's'), w(1, 's', 's')),
    P('selfu_skip_ry_wx', ('selfu', 1, 'skip'), r(1, 'y'), w(1, 'x')),
    P('fu_both_rmw', ('getfu', 1, ''), ('getfu', 2, ''), r(1, 'x'), w(1, 'x', 'x'), r(2, 'x'), w(2, 'x', 'x')),
    P('get_then_fu_rmw_x', ('get', 1), ('getfu', 1, ''), r(1, 'x'), w(1, 'x', 'x')),
    P('ry_then_fu_wx', r(1, 'y'), ('getfu', 1, ''), w(1, 'x')),
    P('fu_rmw_f', ('getfu', 1, ''), r(1, 'f'), w(1, 'f', 'f')),
    P('ser_rmw_x', r(1, 'x'), w(1, 'x', 'x'), serializable=True),
    P('ser_ry_wx', r(1, 'y'), w(1, 'x'), serializable=True),
    P('ser_r_refetch_r', r(1, 'x'), ('refetch', 1), r(1, 'x'), serializable=True),
    P('ser_q_rmw_y', ('selq', 'x'), r(1, 'y'), w(1, 'y', 'y'), serializable=True),
    P('imm_rmw_x', r(1, 'x'), w(1, 'x', 'x'), immediate=True),
    # the db_session goes on after commit(): the lock ended there, locking again must really lock again
    P('fu_commit_fu_rmw_x', ('getfu', 1, ''), r(1, 'x'), ('commit',), ('getfu', 1, ''), r(1, 'x'), w(1, 'x', 'x')),
    P('fu_w_commit_fu_rmw_y', ('getfu', 1, ''), r(1, 'x'), w(1, 'x', 'x'), ('commit',), ('getfu', 1, ''), r(1, 'y'), w(1, 'y', 'y')),
    P('selfu_commit_selfu_rmw_x', ('selfu', 1, ''), r(1, 'x'), ('commit',), ('selfu', 1, ''), r(1, 'x'), w(1, 'x', 'x')),
]
WRITERS = [
    P('rmw_x', r(1, 'x'), w(1, 'x', 'x')),
    P('rmw_y', r(1, 'y'), w(1, 'y', 'y')),
    P('rmw_s', r(1, 's'), w(1, 's', 's')),
    P('rmw_f', r(1, 'f'), w(1, 'f', 'f')),
    P('blind_x', w(1, 'x')),
    P('ry_wx', r(1, 'y'), w(1, 'x')),
    P('nonopt_rmw_x', r(1, 'x'), w(1, 'x', 'x'), optimistic=False),
    P('nonopt_blind_x', w(1, 'x'), optimistic=False),
    P('rmw_2x', r(2, 'x'), w(2, 'x', 'x')),
    P('del_1', ('del', 1)),
    P('rx_del_1', r(1, 'x'), ('del', 1)),
    P('rmw_x_commit_rmw_y', r(1, 'x'), w(1, 'x', 'x'), ('flush',), r(1, 'y'), w(1, 'y', 'y')),
]
PROGRAMS = LOCKERS + WRITERS
BY_NAME = {p['name']: p for p in PROGRAMS}
assert len(BY_NAME) == len(PROGRAMS)
TRIPLE_LOCKERS = ['fu_rmw_x', 'selfu_nowait_rmw_s', 'ser_rmw_x', 'ry_then_fu_wx']
TRIPLE_WRITERS = ['rmw_x', 'blind_x', 'nonopt_rmw_x', 'del_1']
XCHECK = [('fu_rmw_x', 'rmw_x'), ('ser_ry_wx', 'rmw_y'), ('fu_r_refetch_r', 'blind_x')]

def work_items(ctx):
    ln = [p['name'] for p in LOCKERS]; wn = [p['name'] for p in WRITERS]
    pairs = [(a, b) for a in ln for b in wn] + list(itertools.combinations_with_replacement(ln, 2))
    items = []
    if ctx.quick:
        items += [('pair', pr, 2, 'visible') for pr in pairs]
        items += [('triple', (a,) + ws, 1, 'visible') for a in TRIPLE_LOCKERS[:3] for ws in itertools.combinations_with_replacement(TRIPLE_WRITERS[:3], 2)]
        items += [('xcheck', pr, 1, 'all') for pr in XCHECK[:2]]
    else:
        items += [('pair', pr, None, 'visible') for pr in pairs]
        items += [('triple', (a,) + ws, 3, 'visible') for a in TRIPLE_LOCKERS for ws in itertools.combinations_with_replacement(TRIPLE_WRITERS, 2)]
        items += [('xcheck', pr, 2, 'all') for pr in XCHECK]
    return items

def mon_repeatable_under_lock(v, counters):
    out = []
    for t in range(v.n):
        flags = v.progs[t]['flags']
        whole = flags.get('serializable') or flags.get('immediate') or flags.get('optimistic') is False
        locked, first = set(), {}
        for step, d in v.notes[t]:
            if d[0] == 'lock': locked.add(d[1])
            elif d[0] == 'committed': locked.clear(); first.clear()       # explicit commit(): a new transaction starts
            elif d[0] == 'w': first.pop((d[1], d[2]), None)
            elif d[0] == 'r' and (whole or d[1] in locked):
                key = (d[1], d[2])
                if key in first:
                    counters['rereads_under_lock'] = counters.get('rereads_under_lock', 0) + 1
                    if first[key] != d[3]:
                        out.append(('locked-row-read-changed|%s|%s' % (L.sclass(v.progs[t]), L.KIND[d[2]]),
                                    'T%d read A[%s].%s = %r and later %r while it held the lock' % (t, d[1], d[2], first[key], d[3])))
                else: first[key] = d[3]
    return out

def judge(v, counters):
    out = []
    if v.x.deadlock: out.append(('deadlock|%s' % '+'.join(sorted(L.sclass(p) for p in v.progs)), 'no enabled thread while some thread is unfinished'))
    out += L.mon_lock_window(v, counters)
    out += mon_repeatable_under_lock(v, counters)
    out += L.mon_commit_attribution(v)
    out += L.mon_composition(v, counters)
    out += L.mon_spurious(v, counters)
    out += L.mon_unexpected(v)
    # writers wait or fail: count what happened to the other sessions while a lock window was open
    for t in range(v.n):
        if not v.ok[t] and v.res[t]['status'] == 'exc': counters['sessions_failed'] = counters.get('sessions_failed', 0) + 1
    return out

def worker(arg):
    item, seed = arg
    sub = core.Sub()
    st = L.explore_item(item, seed, sub, 'C35', [BY_NAME[n] for n in item[1]], judge)
    return dict(item=item, sub=sub.dump(), stats=st)

# ---- engine self-test: the deadlock detector and the monitors must be able to fire ---------------------
def selftest(ctx):
    """(1) two threads taking the two provider locks in opposite order must be reported as a deadlock;
    (2) a session that reads in autocommit mode, and writes unconditionally through raw SQL, loses an update:
    the composition monitor and the lock-window monitor must flag it (they are not vacuous)."""
    world = L.make_world('selftest')
    try:
        prov = world.db.provider
        def ab(t):
            with prov.pre_transaction_lock:
                with prov.transaction_lock: pass
            return dict(status='ok')
        def ba(t):
            with prov.transaction_lock:
                with prov.pre_transaction_lock: pass
            return dict(status='ok')
        ex = tx.Explorer(world, [ab, ba], observe=False)
        seen = []
        ex.explore(None, lambda x: seen.append(x.deadlock))
        ctx.guard('self-test: synthetic lock-order deadlock detected', sum(seen), 1)
        ctx.guard('self-test: deadlock-free schedules of the same bodies', len(seen) - sum(seen), 1)
        ctx.count('selftest_deadlock_executions', len(seen))
        # (2) a deliberately broken "locker": claims a lock it does not take
        def fake_locker(t):
            orm = t.orm
            with orm.db_session:
                a = t.E['A'][1]; t.note('lock', 1)
                val = a.x; t.note('r', 1, 'x', val)
                t.db.execute('update "A" set x = $new where id = 1', dict(new=L.F(t.index, 'x', val)))
                t.note('w', 1, 'x', L.F(t.index, 'x', val), 'x')
                t.note('leaving')
            return dict(status='ok')
        progs = [P('fake_locker'), P('rmw_x', r(1, 'x'), w(1, 'x', 'x'))]
        ex = tx.Explorer(world, [fake_locker, L.body_of(progs[1])])
        hits = dict(window=0, lost=0)
        def visit(x):
            v = L.View(world, progs, x)
            hits['window'] += bool(L.mon_lock_window(v, {}))
            hits['lost'] += bool([s for s, _ in L.mon_composition(v, {}) if s.startswith('lost-update')])
        ex.explore(None, visit)
        ctx.guard('self-test: lock-window monitor fires on a session that does not really lock', hits['window'], 1)
        ctx.guard('self-test: composition monitor fires on an unchecked read-modify-write', hits['lost'], 1)
        ctx.count('selftest_fake_locker_executions', ex.executions)
    finally:
        world.close()

# ---- PostgreSQL emission -----------------------------------------------------------------------------
REQUESTS = [   # (name, callable(A, orm) issuing the query, expected clause or None)
    ('get_for_update(pk)', lambda A, orm: A.get_for_update(id=1), ''),
    ('get_for_update(pk, nowait)', lambda A, orm: A.get_for_update(id=1, nowait=True), ' NOWAIT'),
    ('get_for_update(pk, skip_locked)', lambda A, orm: A.get_for_update(id=1, skip_locked=True), ' SKIP LOCKED'),
    ('get_for_update(attr)', lambda A, orm: A.get_for_update(x=5), ''),
    ('get_for_update(attr, nowait)', lambda A, orm: A.get_for_update(x=5, nowait=True), ' NOWAIT'),
    ('get_for_update(attr, skip_locked)', lambda A, orm: A.get_for_update(x=5, skip_locked=True), ' SKIP LOCKED'),
    ('get_for_update(lambda)', lambda A, orm: A.get_for_update(lambda a: a.x == 5), ''),
    ('get_for_update(lambda, nowait)', lambda A, orm: A.get_for_update(lambda a: a.x == 5, nowait=True), ' NOWAIT'),
    ('get_for_update(lambda, skip_locked)', lambda A, orm: A.get_for_update(lambda a: a.x == 5, skip_locked=True), ' SKIP LOCKED'),
    ('get(pk)', lambda A, orm: A.get(id=1), None),
    ('get(attr)', lambda A, orm: A.get(x=5), None),
    ('get(lambda)', lambda A, orm: A.get(lambda a: a.x == 5), None),
    ('A[pk]', lambda A, orm: A.get(id=2), None),
    ('select[:]', lambda A, orm: A.select(lambda a: a.x == 5)[:], None),
    ('select.for_update[:]', lambda A, orm: A.select(lambda a: a.x == 5).for_update()[:], ''),
    ('select.for_update(nowait)[:]', lambda A, orm: A.select(lambda a: a.x == 5).for_update(nowait=True)[:], ' NOWAIT'),
    ('select.for_update(skip_locked)[:]', lambda A, orm: A.select(lambda a: a.x == 5).for_update(skip_locked=True)[:], ' SKIP LOCKED'),
    ('select.for_update(True)[:]', lambda A, orm: A.select(lambda a: a.x == 5).for_update(True)[:], ' NOWAIT'),
    ('select.order_by.for_update[:]', lambda A, orm: A.select().order_by(A.id).for_update()[:], ''),
    ('select.for_update.order_by[:]', lambda A, orm: A.select().for_update(nowait=True).order_by(A.id)[:], ' NOWAIT'),
    ('select.order_by[:]', lambda A, orm: A.select().order_by(A.id)[:], None),
    ('select.for_update[:2]', lambda A, orm: A.select().for_update()[:2], ''),
    ('select.for_update(skip_locked).limit', lambda A, orm: A.select().for_update(skip_locked=True).limit(1, offset=1)[:], ' SKIP LOCKED'),
    ('select.limit', lambda A, orm: A.select().limit(2)[:], None),
    ('select.for_update.first', lambda A, orm: A.select(lambda a: a.y == 1).for_update().first(), ''),
    ('select.for_update(nowait).first', lambda A, orm: A.select(lambda a: a.y == 1).for_update(nowait=True).first(), ' NOWAIT'),
    ('select.first', lambda A, orm: A.select(lambda a: a.y == 1).first(), None),
    ('select.for_update.get', lambda A, orm: A.select(lambda a: a.id == 1).for_update().get(), ''),
    ('select.for_update(skip_locked).get', lambda A, orm: A.select(lambda a: a.id == 1).for_update(skip_locked=True).get(), ' SKIP LOCKED'),
    ('select.get', lambda A, orm: A.select(lambda a: a.id == 1).get(), None),
    ('generator.for_update', lambda A, orm: orm.select(a for a in A if a.s == 'q').for_update()[:], ''),
    ('generator.for_update(nowait)', lambda A, orm: orm.select(a for a in A if a.s == 'q').for_update(nowait=True)[:], ' NOWAIT'),
    ('generator.for_update(skip_locked)', lambda A, orm: orm.select(a for a in A if a.s == 'q').for_update(skip_locked=True)[:], ' SKIP LOCKED'),
    ('generator', lambda A, orm: orm.select(a for a in A if a.s == 'q')[:], None),
    ('filter.for_update', lambda A, orm: A.select().filter(lambda a: a.n > 0).for_update()[:], ''),
    ('for_update.filter', lambda A, orm: A.select().for_update(skip_locked=True).filter(lambda a: a.n > 0)[:], ' SKIP LOCKED'),
    ('for_update then plain same query', lambda A, orm: (A.select(lambda a: a.v == 3).for_update()[:], A.select(lambda a: a.v == 3)[:]), None),
    ('plain then for_update same query', lambda A, orm: (A.select(lambda a: a.v == 4)[:], A.select(lambda a: a.v == 4).for_update(nowait=True)[:]), ' NOWAIT'),
    ('nowait then skip_locked same query', lambda A, orm: (A.select(lambda a: a.v == 6).for_update(nowait=True)[:], A.select(lambda a: a.v == 6).for_update(skip_locked=True)[:]), ' SKIP LOCKED'),
    ('get_for_update then get same key', lambda A, orm: (A.get_for_update(y=7), A.get(y=7)), None),
    ('get then get_for_update(nowait) same key', lambda A, orm: (A.get(y=8), A.get_for_update(y=8, nowait=True)), ' NOWAIT'),
]
CLAUSE = re.compile(r'FOR UPDATE( NOWAIT| SKIP LOCKED)?\s*$')

def pg_emission(ctx):
    from vf.engines import dm
    db = dm.capture_database('postgres')
    from pony import orm
    L.define(db, orm)
    db.generate_mapping()
    A = db.entities['A']
    for rnd in (0, 1):                 # second round: statement caches are warm
        for name, fn, expected in REQUESTS:
            del db.log[:]
            try:
                with orm.db_session: fn(A, orm)
            except Exception as e:
                ctx.count('pg_requests_refused')
                ctx.violation('pg-emission|request-failed|%s' % name, dict(request=name, error=repr(e)), 'request failed on the capture database: %r' % e)
                continue
            selects = [s for s, a in db.log if s.lstrip().upper().startswith('SELECT')]
            ctx.count('pg_requests')
            if not selects:
                ctx.violation('pg-emission|no-select|%s' % name, dict(request=name), 'no SELECT emitted'); continue
            sql = selects[-1]
            m = CLAUSE.search(sql)
            got = None if m is None else (m.group(1) or '')
            if 'FOR UPDATE' in sql and m is None: got = 'misplaced'
            if got != expected:
                ctx.violation('pg-emission|for-update-clause|requested=%r|rendered=%r' % (expected, got),
                              dict(request=name, round=rnd, sql=sql, expected=expected, rendered=got),
                              '%s: expected clause %r, SQL ends with %r' % (name, expected, sql[-60:]))
            elif expected is not None: ctx.count('pg_locking_clauses_rendered')
            else: ctx.count('pg_plain_selects_without_clause')
    for bad in (lambda: A.get_for_update(id=1, nowait=True, skip_locked=True), lambda: A.select().for_update(nowait=True, skip_locked=True)):
        try:
            with orm.db_session: bad()
            ctx.violation('pg-emission|nowait+skip_locked-accepted', dict(), 'nowait and skip_locked together were accepted')
        except TypeError: ctx.count('pg_contradictory_requests_refused')
    orm.core.local.db_session = None

def pg_transactions(ctx):
    """real PGProvider.set_transaction_mode / Database._exec_sql on a statement-log connection"""
    db, pool = L.pg_database()
    for prog in LOCKERS:
        if any(op[0] == 'commit' for op in prog['ops']):      # the statement-log connection keeps no data: a re-fetch after commit() sees the old row
            ctx.count('pg_multi_transaction_programs_skipped'); continue
        res, log, notes = L.run_on_pg(db, pool, prog)
        name = prog['name']
        if res[0] != 'ok':
            ctx.violation('pg-transactions|session-failed|%s' % res[1].split(':')[0], dict(program=prog, error=res[1]), 'PostgreSQL model run failed: %s' % res[1]); continue
        ctx.count('pg_sessions')
        stmts = [(k, s, ac) for k, s, a, ac in log]
        case = dict(program=prog, log=[(k, (s or '')[:120], ac) for k, s, ac in stmts])
        ends = [i for i, (k, s, ac) in enumerate(stmts) if k in ('commit', 'rollback') and ac is False]
        if prog['flags'].get('serializable'):
            first = stmts[0] if stmts else None
            if not first or first[0] != 'execute' or first[1] != 'SET TRANSACTION ISOLATION LEVEL SERIALIZABLE' or first[2] is not False:
                ctx.violation('pg-transactions|serializable-not-set-before-first-statement', case, '%s: first statement is %r' % (name, first))
            else: ctx.count('pg_serializable_sessions_ok')
            if any(ac is not False for k, s, ac in stmts[:(ends[0] if ends else len(stmts))] if k == 'execute'):
                ctx.violation('pg-transactions|serializable-statement-in-autocommit', case, '%s: a statement ran with autocommit on' % name)
        lockers = [i for i, (k, s, ac) in enumerate(stmts) if k == 'execute' and 'FOR UPDATE' in (s or '')]
        wants = [op for op in prog['ops'] if op[0] in ('getfu', 'selfu')]
        if wants:
            if len(lockers) != len(wants):
                ctx.violation('pg-transactions|locking-select-missing', case, '%s: %d locking requests, %d FOR UPDATE statements' % (name, len(wants), len(lockers))); continue
            for i, op in zip(lockers, wants):
                k, s, ac = stmts[i]
                exp = {'': '', 'nowait': ' NOWAIT', 'skip': ' SKIP LOCKED'}[op[2]]
                m = CLAUSE.search(s)
                if m is None or (m.group(1) or '') != exp:
                    ctx.violation('pg-transactions|for-update-clause|requested=%r' % exp, case, '%s: %r' % (name, s[-50:]))
                if ac is not False:
                    ctx.violation('pg-transactions|locking-select-in-autocommit', case, '%s: FOR UPDATE sent with autocommit=%r: the row lock is released at once' % (name, ac))
                later = [j for j in ends if j > i]
                writes_after = [j for j, (k2, s2, ac2) in enumerate(stmts) if j > i and k2 == 'execute' and s2.lstrip().upper().startswith('UPDATE')]
                if writes_after and (not later or later[0] < writes_after[-1]):
                    ctx.violation('pg-transactions|lock-released-before-update', case, '%s: transaction ended between the locking SELECT and the UPDATE' % name)
                else: ctx.count('pg_locking_selects_in_transaction')

# ---- entry points -------------------------------------------------------------------------------------
def run(ctx):
    from vf.engines import dm          # fail fast if the dialect-model module is broken
    items = work_items(ctx)
    results = ctx.pmap(worker, [(it, ctx.seed) for it in ctx.shuffled(items)])
    agg = L.merge(ctx, results)
    L.xcheck(ctx, agg, results)
    selftest(ctx)
    pg_emission(ctx)
    pg_transactions(ctx)
    c = ctx.counters
    L.guards(ctx, [
        ('lock windows examined', c.get('lock_windows', 0), 1000),
        ('executions with a session disabled on the provider lock (writers wait)', c.get('executions_with_a_session_waiting_on_the_lock', 0), 1000),
        ('sessions that failed (writers fail)', c.get('sessions_failed', 0), 50),
        ('re-reads under lock compared', c.get('rereads_under_lock', 0), 100),
        ('program pairs with more than one distinct outcome', agg['per_kind']['pair']['tuples_with_more_than_one_outcome'], 50),
        ('PostgreSQL locking clauses rendered and checked', c.get('pg_locking_clauses_rendered', 0), 40),
        ('PostgreSQL plain selects checked to carry no clause', c.get('pg_plain_selects_without_clause', 0), 20),
        ('PostgreSQL locking selects inside a transaction', c.get('pg_locking_selects_in_transaction', 0), 10),
        ('PostgreSQL serializable sessions', c.get('pg_serializable_sessions_ok', 0), 3),
        ('all-points cross-check tuples', c.get('xcheck_tuples_all_points_outcomes_contained', 0), 2),])
    out = L.coverage(ctx, agg)
    ctx.cov.update(lockers=len(LOCKERS), writers=len(WRITERS), pg_requests=len(REQUESTS),
                   bounds='pairs (locker x writer, locker x locker): preemption bound 2; locker + 2 writers: bound 1' if ctx.quick else
                          'pairs: all interleavings; locker + 2 writers: preemption bound 3')
    ctx.cov['exhaustive'] = True
    ctx.assume('SQLite for behaviour; PostgreSQL: emission on capture database + statement-log connection (DM transaction model); '
               'row-lock blocking on a PostgreSQL server is out of reach')
    return out

def replay(ctx, case):
    if 'choices' not in case:
        print(case); return False
    progs = case['programs']
    for p in progs: p['ops'] = [tuple(op) for op in p['ops']]
    world = L.make_world()
    try:
        ex = tx.Explorer(world, [L.body_of(p) for p in progs], points=case.get('points', 'visible'))
        x = ex.run(tuple(case['choices']))
        v = L.View(world, progs, x)
        for line in x.describe(80): print('  ' + line)
        print('results', [(r_['status'], r_.get('cls'), r_.get('msg')) for r_ in v.res]); print('final', v.final)
        found = judge(v, {})
        for sig, msg in found: print('VIOLATED', sig, '-', msg)
        return not found
    finally:
        world.close()
