"""C19 Connections and the SQLite transaction lock are always released.

FX + TX check on the real SQLite provider (file database in /dev/shm, timeout=0).

(a) Fault enumeration. Session shapes {read-only, optimistic write, immediate, serializable, ddl
(drop_table / create_tables / db_session(ddl=True)), db.execute / db.insert / db.select raw SQL,
db.get_connection() user transaction, nested db_session (context managers and decorated functions),
generator db_session (run to the end / closed early / exception thrown in), explicit commit() /
rollback() / db.commit() / db.rollback() inside, body raising (rollback path), allowed exception
(commit path), decorator with retry, two sessions in a row, session followed by db.disconnect()},
each started with an empty pool (cold), with an idle pooled connection (warm) and in a thread that has
never connected (fresh; a subset of shapes in quick), x every driver-call
index x three error classes (+ "commit happened, acknowledgement lost"); thorough adds every fault
pair k1 < k2 (all class combinations). After the program:
  * provider.transaction_lock / pre_transaction_lock are not held;
  * pony.orm.core.local.db2cache is empty, local.db_session is None, the context counter is 0;
  * the thread's pooled connection is absent or idle (sqlite3 in_transaction False, never closed);
  * close() was called at most once on every connection and exactly once on every connection that
    is no longer in the pool (driver-call log);
  * a following write session in the SAME thread and one in a NEW thread both succeed and their rows
    are committed; the new thread must finish within a timeout (a blocked thread is a violation);
  * afterwards the same conditions hold again and no connection was leaked by the follow-ups.
(b) Schedules (TX engine): two and three threads, thread 0 suffers a fault at its k-th driver call,
the others run plain write sessions; every interleaving up to the preemption bound: no deadlock,
the sessions not hit by the fault end normally and their rows are committed.
"""
import threading
import sqlite3
from vf import core
from vf.engines import fx
from vf.seams import dbapi

LEVEL = 'fault_enumeration'
JOIN_TIMEOUT = 20.0

from vf.props.c17 import define, populate        # same three-entity model

# ---- session shapes ---------------------------------------------------------------------------------
class UserError(Exception): pass

def s_ro(w, px):
    with w.orm.db_session:
        w.E['Person'][1].name
        w.orm.select(p for p in w.E['Person'])[:]
def s_opt(w, px):
    with w.orm.db_session:
        w.E['Person'][1].age = 5
        w.E['Person'](name='n1', age=1)
def s_imm(w, px):
    with w.orm.db_session(immediate=True):
        w.E['Person'][1].age = 5
        w.E['Group'](title='n1')
def s_ser(w, px):
    with w.orm.db_session(serializable=True):
        w.E['Person'][2].age = 6
        w.E['Person'][1].groups.add(w.E['Group'][2])
def s_ddl_drop_create(w, px):
    w.db.drop_table(w.E['Pet'], with_all_data=True)
    w.db.create_tables()
def s_ddl_with(w, px):
    with w.orm.db_session(ddl=True):
        w.db.execute('create table if not exists extra (x integer)')
        w.db.execute('insert into extra values (1)')
def s_ddl_commit(w, px):
    # a ddl session that goes on after commit(): the second transaction start must not forget that FK checks were on
    with w.orm.db_session(ddl=True):
        w.db.execute('create table if not exists extra2 (x integer)')
        w.orm.commit()
        w.db.execute('insert into extra2 values (1)')
def s_raw(w, px):
    with w.orm.db_session:
        w.db.select('select id from "Person"')
        w.db.execute('update "Person" set "age" = 9 where "id" = 2')
        w.db.insert('Group', title='ins')
def s_userconn(w, px):
    with w.orm.db_session:
        con = w.db.get_connection()
        cur = con.cursor()
        cur.execute('insert into "Group" ("title") values (\'uc\')')
        w.E['Person'][1].age = 8
def s_nested(w, px):
    orm = w.orm
    @orm.db_session(immediate=True)
    def inner():
        w.E['Person'][2].age = 4
    with orm.db_session:
        w.E['Person'](name='o1')
        with orm.db_session:
            w.E['Person'][1].age = 3
        inner()
        w.E['Group'](title='o2')
def _gen(w):
    orm = w.orm
    @orm.db_session
    def gen():
        w.E['Person'](name='g1'); orm.commit()
        yield 1
        w.E['Person'][1].age = 5; orm.commit()
        yield 2
        w.E['Group'](title='g2')
    return gen()
def s_gen(w, px):
    for _ in _gen(w): pass
def s_gen_close(w, px):
    g = _gen(w); next(g); g.close()
def s_gen_throw(w, px):
    g = _gen(w); next(g)
    try: g.throw(UserError('x'))
    except UserError: pass
def s_control(w, px):
    orm = w.orm
    with orm.db_session:
        w.E['Person'](name='c1'); orm.commit()
        w.E['Person'][1].age = 2; orm.flush(); orm.rollback()
        w.E['Group'](title='c2'); w.db.commit()
        w.E['Person'][2].age = 3; orm.flush(); w.db.rollback()
        w.E['Group'](title='c3')
def s_body_raises(w, px):
    try:
        with w.orm.db_session:
            w.E['Person'][1].age = 5; w.orm.flush()
            raise UserError('x')
    except UserError: pass
def s_allowed(w, px):
    try:
        with w.orm.db_session(allowed_exceptions=[UserError]):
            w.E['Person'][1].age = 5
            raise UserError('x')
    except UserError: pass
def s_retry(w, px):
    @w.orm.db_session(retry=2)
    def f():
        w.E['Person'][1].age = 5
        w.E['Group'](title='r1')
    f()
def s_two(w, px):
    with w.orm.db_session: w.E['Person'][1].age = 5
    with w.orm.db_session(immediate=True): w.E['Person'][2].age = 6
def s_disconnect(w, px):
    with w.orm.db_session: w.E['Person'](name='d1')
    w.db.disconnect()
def s_strict(w, px):
    with w.orm.db_session(strict=True, optimistic=False):
        w.E['Person'][1].age = 5
        w.E['Person'][1].delete()

SHAPES = dict(ro=(s_ro, 'read'), opt=(s_opt, 'write'), imm=(s_imm, 'write'), ser=(s_ser, 'write'),
              ddl_drop_create=(s_ddl_drop_create, 'ddl'), ddl_with=(s_ddl_with, 'ddl'), ddl_commit=(s_ddl_commit, 'ddl'), raw=(s_raw, 'raw'),
              userconn=(s_userconn, 'userconn'), nested=(s_nested, 'nested'), gen=(s_gen, 'generator'),
              gen_close=(s_gen_close, 'generator'), gen_throw=(s_gen_throw, 'generator'), control=(s_control, 'control'),
              body_raises=(s_body_raises, 'write'), allowed=(s_allowed, 'write'), retry=(s_retry, 'retry'),
              two=(s_two, 'write'), disconnect=(s_disconnect, 'disconnect'), strict=(s_strict, 'write'))
READ_ONLY = ('ro',)

# ---- post-conditions ----------------------------------------------------------------------------------
def state_components(w, mon, prefix=''):
    out = []
    prov = w.db.provider
    local = w.orm.core.local
    if prov.transaction_lock.locked(): out.append(prefix + 'transaction-lock-held')
    if prov.pre_transaction_lock.locked(): out.append(prefix + 'pre-transaction-lock-held')
    if local.db2cache: out.append(prefix + 'db2cache-not-empty')
    if local.db_session is not None: out.append(prefix + 'local.db_session-set')
    if local.db_context_counter: out.append(prefix + 'db_context_counter-nonzero')
    con = prov.pool.con
    att = mon.close_attempts
    pooled = None
    if con is not None:
        pooled = con.vf_serial
        if att.get(pooled, 0): out.append(prefix + 'pooled-connection-was-closed')
        else:
            try:
                if con.in_transaction: out.append(prefix + 'pooled-connection-in-transaction')
                # the provider switches FK enforcement on at connect and off only inside a ddl session (base-class call: not a counted driver call)
                elif not sqlite3.Connection.execute(con, 'PRAGMA foreign_keys').fetchone()[0]: out.append(prefix + 'pooled-connection-foreign-keys-left-off')
            except Exception as e: out.append(prefix + 'pooled-connection-unusable')
    for serial, ref, thread in fx.REGISTRY:
        n = att.get(serial, 0)
        if n > 1: out.append(prefix + 'connection-closed-twice')
        elif n == 0 and serial != pooled and thread == mon.thread: out.append(prefix + 'dropped-connection-never-closed')
    return out

def followup_write(w, title, result):
    try:
        with w.orm.db_session:
            w.E['Group'](title=title)
        result.append('ok')
    except BaseException as e:
        result.append('%s' % type(e).__name__)

def followups(w, mon, lock_held, patience=1):
    """same-thread and new-thread write sessions after the faulted program"""
    out = []
    if lock_held: return out, False        # already a violation; a write would block this thread for good
    r = []
    followup_write(w, 'after-same', r)
    if r != ['ok']: out.append('followup-same-thread-failed:' + r[0])
    r2 = []
    def body():
        try: followup_write(w, 'after-new', r2)
        finally:
            try: w.db.disconnect()
            except Exception: r2.append('disconnect-failed')
    th = threading.Thread(target=body, daemon=True)
    th.start(); th.join(JOIN_TIMEOUT * patience)
    if th.is_alive(): out.append('followup-new-thread-blocked')
    elif r2 != ['ok']: out.append('followup-new-thread-failed:' + '+'.join(r2))
    rows = dict(w.dump(tables=['Group']))['Group'] or ()
    titles = set(r[1] for r in rows)
    if r == ['ok'] and 'after-same' not in titles: out.append('followup-same-thread-row-missing')
    if r2 == ['ok'] and 'after-new' not in titles: out.append('followup-new-thread-row-missing')
    return out, True

def leak_components(w, mon):
    out = []
    con = w.db.provider.pool.con
    pooled = con.vf_serial if con is not None else None
    for serial, ref, thread in fx.REGISTRY:
        n = mon.close_attempts.get(serial, 0)
        if n > 1: out.append('after-followups:connection-closed-twice')
        elif n == 0 and serial != pooled: out.append('after-followups:connection-leaked')
    return out

def examine(w, x, patience=1):
    mon = x.mon
    x.notes.append(('pooled', w.db.provider.pool.con is not None))
    comps = state_components(w, mon)
    more, ran = followups(w, mon, any(c.endswith('lock-held') for c in comps), patience)
    comps += more
    if ran:
        comps += [c for c in state_components(w, mon, 'after-followups:') if c not in ('after-followups:dropped-connection-never-closed',)]
        comps += leak_components(w, mon)
    return sorted(set(comps))

def setup_phase(calls):
    """indexes of the connection set-up statements SQLitePool._connect issues right after connect"""
    out, on = set(), False
    for i, c in enumerate(calls):
        if c[0] == 'connect': on = True
        elif on and c[0] == 'execute' and c[1] and c[1].upper().startswith('PRAGMA'): out.add(i)
        else: on = False
    return out

def sites(ref, x):
    out = []
    setup = setup_phase(x.calls)
    for key, kind, f in x.fired:
        k = key[1] if isinstance(key, tuple) else key
        call = x.calls[k] if k < len(x.calls) else (kind, None)
        out.append('connection-setup-statement' if k in setup else ('after-' if isinstance(key, tuple) else '') + fx.call_class(call))
    return '+'.join(out) or 'none'

def family_of(family, x):
    if x.fired:
        key = x.fired[0][0]
        k = key[1] if isinstance(key, tuple) else key
        if k in setup_phase(x.calls) or (k < len(x.calls) and x.calls[k][0] == 'connect'): return 'connect-phase'
    return family

# ---- fault part: workers --------------------------------------------------------------------------------
_W = {}
def world():
    import os
    w = _W.get(os.getpid())
    if w is None: w = _W[os.getpid()] = fx.World('c19', define, populate)
    return w

def run_shape(task):
    name, pool_state, tier = task
    warm = pool_state == 'warm'
    prog, family = SHAPES[name]
    sub = core.Sub()
    w = world()
    outcomes = set()
    st = dict(executions=0, fired=0)
    def one(plan):
        if pool_state != 'fresh': return one_here(plan)
        box = []                    # whole execution (program, post-conditions, follow-ups) in a thread that never connected
        def body():
            try: box.append(one_here(plan))
            finally:
                try: w.db.disconnect()
                except Exception: pass
        th = threading.Thread(target=body, daemon=True)
        th.start(); th.join(4 * JOIN_TIMEOUT)
        if not box: raise core.HarnessError('fresh-thread execution of %s did not finish' % name)
        return box[0]
    def one_here(plan):
        x = w.run(prog, plan, warm=warm)
        st['executions'] += 1
        comps = examine(w, x)
        w.hygiene()                 # whatever was left behind has been judged; nothing may leak into the next item of this process
        if comps:                   # a violation must reproduce before it is reported (a join timeout under load does not)
            y = w.run(prog, plan, warm=warm)
            again = examine(w, y, patience=3)
            w.hygiene()
            if again != comps: sub.count('components_not_reproduced', len(set(comps) ^ set(again)))
            comps = [c for c in comps if c in again]
        if plan:
            if x.fired: st['fired'] += 1; sub.count('plans_fired')
            else: sub.count('plans_not_fired')
            if len(plan) == 2:
                sub.count('double_fault_plans')
                if len(x.fired) == 2: sub.count('double_fault_plans_both_fired')
        pooled = dict(n for n in x.notes if isinstance(n, tuple) and n[0] == 'pooled')['pooled']
        closes = sum(x.mon.close_attempts.values())
        outcomes.add('%s|%s|%s|%s|pooled=%s|closes=%d' % (family, pool_state, sites(None, x), x.exc_name(), pooled, closes))
        if x.exc is not None: sub.count('programs_ending_with_exception')
        if plan and x.fired and not pooled: sub.count('plans_after_which_the_pool_dropped_the_connection')
        for comp in comps:
            sig = 'sqlite|%s|%s|at=%s' % (comp, family_of(family, x), sites(None, x))
            sub.violation(sig, dict(shape=name, pool=pool_state, plan=fx.plan_key(plan or {}), components=comps, exception=x.exc_name(),
                                    driver_calls=[fx.call_class(c) for c in x.calls]),
                          'shape %s (%s pool), plan %s -> %s; program ended with %s'
                          % (name, pool_state, fx.plan_key(plan or {}), comps, x.exc_name()))
        return x
    ref = one(None)
    if ref.exc is not None:
        sub.count('reference_run_failed')
        return dict(sub=sub.dump(), st=st, outcomes=[])
    sub.count('shapes')
    if not any(c[0] == 'commit' or (c[1] and dbapi.is_write(c[1])) for c in ref.calls) and name not in READ_ONLY:
        sub.count('shapes_without_write_or_commit')
    commit_idx = [i for i, c in enumerate(ref.calls) if c[0] == 'commit']
    firsts = []
    for plan in fx.single_plans(ref.n, fx.FAULT_KINDS, after_commits=commit_idx):
        x = one(plan)
        (k, f), = plan.items()
        if not isinstance(k, tuple): firsts.append((k, f, x.n))
    if tier == 'thorough':
        for k1, f1, n1 in firsts:
            for plan in fx.pair_plans(k1, f1, n1, fx.FAULT_KINDS):
                one(plan)
    sub.sample(dict(shape=name, pool=pool_state, driver_calls=[fx.call_class(c) for c in ref.calls], single_plans=len(firsts) + len(commit_idx)))
    return dict(sub=sub.dump(), st=st, outcomes=sorted(outcomes))

# ---- schedule part (TX) -------------------------------------------------------------------------------------
class FaultyPoints(object):
    """`points` callable for tx.Explorer: thread `target` gets `fault` raised instead of its k-th driver
    call; everything else is tx.default_visible. (Runs in the worker thread inside ENV.on_call.)"""
    def __init__(self, world, tx, target, k, fault):
        self.world, self.tx, self.target, self.k, self.fault = world, tx, target, k, fault
        self.sched, self.count, self.fired_total, self.max_count, self.site = None, 0, 0, 0, 'none'
        self.active = False
    def wrap(self, body):
        """only the driver calls made inside the body are numbered / faulted (not the engine's clean-up)"""
        def wrapped(t):
            self.active = True
            try: return body(t)
            finally: self.active = False
        return wrapped
    def __call__(self, kind, sql, con):
        s = self.world.sched
        if s is not self.sched: self.sched, self.count = s, 0
        if s is not None and self.active and s.me() == self.target:
            i = self.count
            self.count = i + 1
            self.max_count = max(self.max_count, self.count)
            if i == self.k:
                self.fired_total += 1
                self.site = fx.call_class((kind, sql))
                raise fx.sqlite_exc(self.fault)
        return self.tx.default_visible(kind, sql, con)

def body_a_opt(t):
    with t.orm.db_session:
        t.E['Person'][1].age = 5
        t.E['Person'](name='a1')
def body_a_imm(t):
    with t.orm.db_session(immediate=True):
        t.E['Person'][1].age = 5
def body_a_control(t):
    with t.orm.db_session:
        t.E['Person'](name='a1'); t.orm.commit()
        t.E['Person'][1].age = 5; t.orm.flush(); t.orm.rollback()
        t.E['Pet'](name='a2', owner=t.E['Person'][1])
def body_b(t):
    with t.orm.db_session:
        t.E['Group'](title='b')
def body_c(t):
    with t.orm.db_session(immediate=True):
        t.db.execute('update "Person" set "name" = \'c\' where "id" = 2')
TX_A = dict(opt=body_a_opt, imm=body_a_imm, control=body_a_control)

_TXW = {}
def tx_world():
    import os
    from vf.engines import tx
    w = _TXW.get(os.getpid())
    if w is None:
        w = _TXW[os.getpid()] = tx.World('c19', define, lambda E: populate(E, __import__('pony.orm').orm))
    return w

def tx_calls_of_a(aname):
    from vf.engines import tx
    w = tx_world()
    fp = FaultyPoints(w, tx, 0, None, None)
    tx.Explorer(w, [fp.wrap(TX_A[aname])], observe=False, points=fp).run()
    return fp.max_count

def run_schedules(task):
    aname, nthreads, k, fault, bound = task
    from vf.engines import tx
    sub = core.Sub()
    w = tx_world()
    fp = FaultyPoints(w, tx, 0, k, fault)
    bodies = [fp.wrap(TX_A[aname]), body_b] + ([body_c] if nthreads == 3 else [])
    ex = tx.Explorer(w, bodies, observe=False, points=fp)
    outcomes = set()
    def visit(x):
        res = x.results
        outcomes.add('%s|%d|%s|%s' % (aname, nthreads, res[0][0] if res[0] else None, x.deadlock))
        comps = []
        if x.deadlock: comps.append('deadlock')
        failed = False
        for i in range(1, len(bodies)):
            if res[i] is None or res[i][0] != 'ok':
                failed = True
                text = ' '.join(str(v) for v in (res[i] or ()))
                comps.append('unfaulted-session-failed:%s' % ('database-is-locked' if 'database is locked' in text else (res[i][1] if res[i] and len(res[i]) > 1 else res[i])))
        if not x.deadlock and not failed:
            snap = w.dump()
            if not any(r[1] == 'b' for r in snap['Group']): comps.append('unfaulted-session-row-missing')
            if nthreads == 3 and not any(r[0] == 2 and r[1] == 'c' for r in snap['Person']): comps.append('unfaulted-session-row-missing')
        if x.waits: sub.count('schedules_with_a_thread_waiting_for_the_lock')
        if res[0] and res[0][0] == 'exc': sub.count('schedules_in_which_the_fault_ended_session_A')
        for comp in comps:
            sub.violation('sqlite|schedule|%s|at=%s' % (comp, fp.site),
                          dict(a=aname, threads=nthreads, k=k, fault=fault, choices=list(x.choices), results=res, trace=x.describe(40)),
                          'threads=%d, A=%s with %s at its driver call %s, schedule %s: %s' % (nthreads, aname, fault, k, list(x.choices), comps))
    try: stats = ex.explore(bound, visit)
    except Exception as e:
        # a connection left with an open transaction (or a lock left held) makes the next execution's reset / threads
        # fail: on the unchanged tree this never happens, so it is reported, and the world is rebuilt
        import os
        sub.violation('sqlite|schedule|world-unusable-after-an-execution:%s|at=%s' % (type(e).__name__, fp.site),
                      dict(a=aname, threads=nthreads, k=k, fault=fault, error=repr(e)[:300]),
                      'threads=%d, A=%s with %s at its driver call %s: the next execution could not start: %r' % (nthreads, aname, fault, k, e))
        _TXW.pop(os.getpid(), None)
        stats = ex.stats()
    if stats['executions'] and len(sub.samples) < 1:
        sub.sample(dict(schedule_part=True, a=aname, threads=nthreads, fault_at_call_of_A=k, fault=fault, executions=stats['executions'],
                        preemption_bound=bound))
    return dict(sub=sub.dump(), stats=stats, fired=fp.fired_total, outcomes=sorted(outcomes))

# ---- part 3: pools that keep ONE connection for good (in-memory databases) --------------------------------------
# A ddl session switches FK enforcement off and release() switches it on again. A file pool closes the connection of a
# ddl session, an in-memory pool keeps it: whatever the session leaves on it is what every later session gets.
KEPT_DBS = (':memory:', ':sharedmemory:')
KEPT_STEPS = ('ddl', 'write', 'commit', 'rollback', 'flush')
KEPT_ENDS = ('normal', 'raise', 'rollback-then-normal')
def kept_cases(tier):
    import itertools
    out = []
    for filename in KEPT_DBS:
        for kind in ('ddl', 'plain'):
            for n in range(0, 4 if tier == 'quick' else 5):
                for steps in itertools.product(KEPT_STEPS, repeat=n):
                    if kind == 'plain' and 'ddl' in steps: continue
                    for end in KEPT_ENDS: out.append(dict(filename=filename, kind=kind, steps=list(steps), end=end))
    return out

def run_kept(case):
    from pony import orm
    db = orm.Database()
    class Owner(db.Entity):
        id = orm.PrimaryKey(int)
        pets = orm.Set('Pet')
    class Pet(db.Entity):
        id = orm.PrimaryKey(int)
        owner = orm.Required(Owner)
    db.bind('sqlite', case['filename']); db.generate_mapping(create_tables=True)
    with orm.db_session: Owner(id=1); Pet(id=1, owner=1)
    con = db.provider.pool.con
    pragma = lambda: sqlite3.Connection.execute(con, 'PRAGMA foreign_keys').fetchone()[0]
    before = pragma()
    n = [0]
    try:
        with orm.db_session(ddl=(case['kind'] == 'ddl')):
            for st in case['steps']:
                n[0] += 1
                if st == 'ddl': db.execute('create table if not exists extra%d (x integer)' % n[0])
                elif st == 'write': Owner(id=10 + n[0])
                elif st == 'commit': orm.commit()
                elif st == 'rollback': orm.rollback()
                elif st == 'flush': orm.flush()
            if case['end'] == 'raise': raise UserError('x')
            if case['end'] == 'rollback-then-normal': orm.rollback()
    except UserError: pass
    out = []
    if db.provider.pool.con is not con: out.append('kept-connection-replaced')
    elif con.in_transaction: out.append('kept-connection-in-transaction')
    elif pragma() != before: out.append('foreign-keys-%s-after-the-session' % ('off' if before else 'on'))
    if db.provider.transaction_lock.locked(): out.append('transaction-lock-held')
    if not out:
        # what a later session relies on: a row that references nothing is refused by the database
        try:
            with orm.db_session: db.execute('insert into "Pet" ("id", "owner") values (99, 12345)')
            out.append('later-session-committed-a-dangling-reference')
        except orm.core.IntegrityError: pass
        except Exception as e: out.append('later-session-failed-%s' % type(e).__name__)
    try: db.disconnect()
    except Exception: pass
    return out

def run_kept_chunk(cases):
    sub = core.Sub()
    for case in cases:
        sub.count('kept_connection_sessions')
        try: bad = run_kept(case)
        except Exception as e: bad = ['session-raised-%s' % type(e).__name__]
        if case['kind'] == 'ddl' and len(set(case['steps']) & set(('commit', 'rollback'))): sub.count('kept_ddl_sessions_with_a_second_transaction')
        for b in bad:
            sub.violation('kept-connection|%s|%s|%s' % (case['kind'], 'several-transactions' if set(case['steps']) & set(('commit', 'rollback')) else 'one-transaction', b),
                          dict(kept=case), 'in-memory pool: after a %s session with steps %r ending %s: %s' % (case['kind'], case['steps'], case['end'], b))
    return dict(sub=sub.dump())

# ---- run / replay ----------------------------------------------------------------------------------------------
def dispatch(item):
    if item[0] == 'kept': return ('kept', run_kept_chunk(item[1]))
    if item[0] == 'shape': return ('shape', run_shape(item[1]))
    return ('sched', run_schedules(item[1]))

def run(ctx):
    items = [('shape', (name, ps, ctx.tier)) for name in sorted(SHAPES) for ps in ('cold', 'warm')]
    fresh = sorted(SHAPES) if not ctx.quick else ['ddl_with', 'opt', 'ro', 'userconn']
    items += [('shape', (name, 'fresh', ctx.tier)) for name in fresh]
    nshape_items = len(items)
    tx_ok = True
    try:
        from vf.engines import tx
        ncalls = {a: tx_calls_of_a(a) for a in TX_A}
        for a in sorted(TX_A):
            configs = [(2, 2 if ctx.quick else None)]
            if a != 'control': configs.append((3, 1 if ctx.quick else 2))
            elif not ctx.quick: configs.append((3, 1))
            for nthreads, bound in configs:
                for k in range(ncalls[a]):
                    for fault in (('operational',) if ctx.quick else fx.FAULT_KINDS):
                        items.append(('sched', (a, nthreads, k, fault, bound)))
    except ImportError:
        tx_ok = False
        ctx.cap('TX engine not importable: the schedule part was skipped (sequential cross-thread checks only)')
    executions = fired = sched_exec = sched_fired = transitions = 0
    outcomes, sched_outcomes = set(), set()
    def on_hang(unfinished):
        # after an injected fault nothing may block for good: a task that never returns IS the leak
        kinds = sorted(set('%s:%s' % (k, (a[0] if isinstance(a, tuple) else a)) for k, a in unfinished))
        ctx.violation('check-task-blocked-for-good|%s' % ('shape' if any(k.startswith('shape') for k in kinds) else 'schedule'),
                      dict(unfinished=[repr(u)[:200] for u in unfinished[:20]]),
                      'executions under an injected fault never returned (a lock or connection is held for good): %s' % kinds[:8])
    kc = kept_cases(ctx.tier)
    items += [('kept', kc[i::16]) for i in range(16)]
    for kind, r in ctx.pmap(dispatch, ctx.shuffled(items), hang_timeout=300 if ctx.quick else 1200, on_hang=on_hang):
        core.absorb(ctx, r['sub'])
        if kind == 'kept': continue
        if kind == 'shape':
            executions += r['st']['executions']; fired += r['st']['fired']; outcomes.update(r['outcomes'])
        else:
            sched_exec += r['stats']['executions']; sched_fired += r['fired']; transitions += r['stats']['transitions']
            sched_outcomes.update(r['outcomes'])
            if r['stats']['capped']: ctx.cap('schedule exploration capped')
    c = ctx.counters
    ctx.guard('session shapes explored (cold + warm + fresh-thread pool)', c.get('shapes', 0), nshape_items)
    ctx.guard('fault plans in which the fault fired', fired, 1500)
    ctx.guard('sessions on pools that keep one connection', c.get('kept_connection_sessions', 0), 300)
    ctx.guard('ddl sessions with a second transaction on a kept connection', c.get('kept_ddl_sessions_with_a_second_transaction', 0), 50)
    ctx.guard('distinct post-fault outcomes', len(outcomes), 100)
    ctx.guard('plans after which the pool had dropped the connection', c.get('plans_after_which_the_pool_dropped_the_connection', 0), 100)
    ctx.guard('programs that ended with an exception', c.get('programs_ending_with_exception', 0), 1000)
    ctx.guard('every non-read-only shape has a write or commit call (negated count)', -c.get('shapes_without_write_or_commit', 0), 0)
    ctx.guard('reference runs that failed (negated count)', -c.get('reference_run_failed', 0), 0)
    if not ctx.quick: ctx.guard('double-fault plans where both faults fired', c.get('double_fault_plans_both_fired', 0), 5000)
    if tx_ok:
        ctx.guard('schedules executed', sched_exec, 500)
        ctx.guard('schedules in which the fault fired', sched_fired, 300)
        ctx.guard('schedules with a thread waiting for the lock', c.get('schedules_with_a_thread_waiting_for_the_lock', 0), 50)
        ctx.guard('distinct schedule outcomes', len(sched_outcomes), 4)
    ctx.cov['fault_part'] = dict(executions=executions, plans_fired=fired, distinct_outcomes=len(outcomes))
    ctx.cov['schedule_part'] = dict(executions=sched_exec, transitions=transitions, executions_in_which_the_fault_fired=sched_fired,
                                    distinct_outcomes=len(sched_outcomes),
                                    bounds='thread 0 in {optimistic, immediate, commit/rollback-inside} x fault at each of its driver calls; 2 threads: %s; '
                                           '3 threads: preemption bound %s' % ('all interleavings' if not ctx.quick else 'preemption bound 2',
                                                                              '1 (optimistic, immediate)' if ctx.quick else '2 (1 for the commit/rollback-inside body)'))
    ctx.cov['bounds'] = ('%d session shapes x {cold, warm, fresh-thread pool} x every driver-call index x 3 error classes + lost commit acknowledgement'
                         % len(SHAPES) + ('' if ctx.quick else ' + every fault pair k1<k2 x 9 class combinations'))
    ctx.assume('SQLite provider only (the transaction lock exists only there); faults replace the driver call; timeout=0 so that SQLite busy '
               'conditions raise instead of waiting')
    ctx.assume('a fault injected at close() leaves the connection really open: "closed exactly once" is judged on close() calls issued; '
               'the harness keeps only weak references, so a connection Pony has forgotten dies (and releases its SQLite locks) as it would in an application')
    ctx.assume('a violation is reported only if it reproduces on re-execution (join timeouts under machine load do not)')
    return dict(evaluations=executions + sched_exec, distinct_nontrivial=fired + sched_fired,
                rule='one evaluation = one execution of a session shape under one fault plan followed by the post-condition checks and the '
                     'two follow-up sessions, or one complete thread schedule; non-trivial = the planned fault fired; plans / schedules are '
                     'distinct by construction (shape, pool state, call indexes, fault classes | fault position, choice list)')

def replay(ctx, case):
    if 'choices' in case:
        from vf.engines import tx
        w = tx_world()
        fp = FaultyPoints(w, tx, 0, case['k'], case['fault'])
        bodies = [fp.wrap(TX_A[case['a']]), body_b] + ([body_c] if case['threads'] == 3 else [])
        x = tx.Explorer(w, bodies, observe=False, points=fp).run(case['choices'])
        print('\n'.join(x.describe(80))); print('results', x.results, 'deadlock', x.deadlock)
        return not x.deadlock and all(r and r[0] == 'ok' for r in x.results[1:])
    w = world()
    box = []
    def go():
        x = w.run(SHAPES[case['shape']][0], fx.plan_from_key(case['plan']), warm=case['pool'] == 'warm')
        box.append((x, examine(w, x)))
    if case['pool'] == 'fresh':
        th = threading.Thread(target=go); th.start(); th.join()
    else: go()
    x, comps = box[0]
    for i, c in enumerate(x.calls): print(' ', i, fx.call_class(c))
    print('fired', x.fired, 'exception', repr(x.exc)); print('components', comps)
    return not comps
