"""C27 Objects keep their class and polymorphic queries are exact.

Exhaustive enumeration over inheritance hierarchies {chain of 3, fork, diamond, diamond with a class below the join, chain with int
discriminator, fork with explicit str discriminator values}: one stored object per class (plus a holder
object referencing each through a base-class reference). In a fresh session every SEQUENCE of access
routes of length <= 2 (thorough 3) is executed -
   holder.ref_C (seed through a reference declared with class C, for every class C the object is an instance
   of), holder.ref + attribute access, Base[pk], Sub[pk], Sub.get(pk), select(x for x in C), C.select(),
   C.select_by_sql(), C.select_random(1) under three seeds of the random module, select(h.ref_C for h in Holder), select((h.id, h.ref_C) for h in Holder) (objects
   delivered as one column of a tuple), isinstance / not isinstance / isinstance-tuple filters over EVERY
   iterated class B and every tested class C (base, same, subclass, sibling)
- and after every step: each object obtained has exactly its creation class; each query over class C
returns exactly the stored objects that are instances of C; isinstance(x, C) / isinstance(x, (C, D)) /
not isinstance inside queries agree with Python isinstance on the creation classes; Sub[pk] of an
object that is not an instance raises ObjectNotFound.
"""
import itertools
from vf import core

LEVEL = 'model_checking'

HIERARCHIES = {
    'chain3':   dict(classes=[('Base', ()), ('Mid', ('Base',)), ('Leaf', ('Mid',))], disc=None),
    'fork':     dict(classes=[('Base', ()), ('L', ('Base',)), ('R', ('Base',))], disc=None),
    'diamond':  dict(classes=[('Base', ()), ('L', ('Base',)), ('R', ('Base',)), ('D', ('L', 'R'))], disc=None),
    'diamond-e': dict(classes=[('Base', ()), ('L', ('Base',)), ('R', ('Base',)), ('D', ('L', 'R')), ('E', ('D',))], disc=None),
    'chain-int': dict(classes=[('Base', ()), ('Mid', ('Base',)), ('Leaf', ('Mid',))], disc=('int', {'Base': 1, 'Mid': 2, 'Leaf': 3})),
    'fork-str': dict(classes=[('Base', ()), ('L', ('Base',)), ('R', ('Base',))], disc=('str', {'Base': 'b', 'L': 'left', 'R': 'Base'})),
}

def build(hname):
    from pony import orm
    h = HIERARCHIES[hname]
    db = orm.Database()
    E = {}
    for i, (cname, bases) in enumerate(h['classes']):
        attrs = {}
        if not bases:
            attrs['id'] = orm.PrimaryKey(int)
            attrs['name'] = orm.Optional(str)
            attrs['holders'] = orm.Set('Holder')
            if h['disc']:
                attrs['kind'] = orm.Discriminator(int if h['disc'][0] == 'int' else str)
        else:
            attrs['x_' + cname.lower()] = orm.Optional(int)
            attrs['holders_' + cname.lower()] = orm.Set('Holder', reverse='ref_' + cname.lower())
        if h['disc']: attrs['_discriminator_'] = h['disc'][1][cname]
        E[cname] = type(cname, tuple(E[b] for b in bases) or (db.Entity,), attrs)
    hattrs = dict(id=orm.PrimaryKey(int), ref=orm.Optional('Base', reverse='holders'))
    for cname, bases in h['classes'][1:]: hattrs['ref_' + cname.lower()] = orm.Optional(cname, reverse='holders_' + cname.lower())
    E['Holder'] = type('Holder', (db.Entity,), hattrs)
    db.bind('sqlite', ':memory:')
    db.generate_mapping(create_tables=True)
    names = [c for c, _ in h['classes']]
    with orm.db_session:
        for k, c in enumerate(names, 1):
            o = E[c](id=k, name=c)
            refs = dict(('ref_' + b.lower(), o) for b in names[1:] if b in mro_names(E, c))
            E['Holder'](id=k, ref=o, **refs)
    return db, E, names

def refattr(names, c): return 'ref' if c == names[0] else 'ref_' + c.lower()

def mro_names(E, cname):
    return set(c.__name__ for c in E[cname].__mro__ if c.__name__ in E)

def routes(E, names):
    R = []
    n = len(names)
    for k in range(1, n + 1):
        R.append(('holder', k)); R.append(('holder_attr', k)); R.append(('base_idx', k))
        for c in names[1:]:
            R.append(('cls_idx', c, k)); R.append(('cls_get', c, k))
            if c in mro_names(E, names[k - 1]): R.append(('holder_c', k, c))
    R.append(('q_sql', names[0]))       # raw SQL over the whole table: only the root entity owns every column
    for c in names:
        R += [('q_gen', c), ('q_select', c), ('q_ref', c), ('q_tuple', c)]
        R += [('q_random', c, k) for k in range(3)]
        for b in names: R += [('q_isinst', c, b), ('q_notinst', c, b)]
    for c, d in itertools.combinations(names, 2):
        for b in names: R.append(('q_isinst2', c, d, b))
    return R

def step(E, names, r, orm):
    """returns (kind, payload): ('objs', [(pk, obj)]) or ('set', expected_pks, got objects) or ('notfound', ...)"""
    from pony.orm.core import ObjectNotFound
    Base = E[names[0]]
    created = dict((k, c) for k, c in enumerate(names, 1))
    inst = lambda c: sorted(k for k, cc in created.items() if c in mro_names(E, cc))
    if r[0] == 'holder': return ('objs', [(r[1], E['Holder'][r[1]].ref)], None)
    if r[0] == 'holder_c': return ('objs', [(r[1], getattr(E['Holder'][r[1]], refattr(names, r[2])))], None)
    if r[0] == 'holder_attr':
        o = E['Holder'][r[1]].ref; o.name
        return ('objs', [(r[1], o)], None)
    if r[0] == 'base_idx': return ('objs', [(r[1], Base[r[1]])], None)
    if r[0] in ('cls_idx', 'cls_get'):
        c, k = r[1], r[2]
        should = c in mro_names(E, created[k])
        try:
            o = E[c][k] if r[0] == 'cls_idx' else E[c].get(id=k)
        except ObjectNotFound:
            return ('found' if should else 'ok', None, 'ObjectNotFound')
        if o is None: return ('found' if should else 'ok', None, 'None')
        if not should: return ('notinstance', [(k, o)], None)
        return ('objs', [(k, o)], None)
    c = r[1]
    if r[0] == 'q_gen': got = list(orm.select('x for x in C', {'C': E[c]}, {})); exp = inst(c)
    elif r[0] == 'q_select': got = list(E[c].select()); exp = inst(c)
    elif r[0] == 'q_sql':
        t = Base._table_ if isinstance(Base._table_, str) else Base._table_[-1]
        got = list(E[c].select_by_sql('select * from "%s"' % t)); exp = inst(c)
    elif r[0] == 'q_random':
        # select_random draws primary keys with the random module: the seed is part of the route (replayable);
        # whatever it returns must be instances of the class it was asked for
        import random
        random.seed(r[2])
        got = list(E[c].select_random(1))
        return ('subset', [(o.id, o) for o in got], inst(c))
    elif r[0] == 'q_ref':
        got = list(orm.select('h.%s for h in H if h.%s is not None' % ((refattr(names, c),) * 2), {'H': E['Holder']}, {})); exp = inst(c)
    elif r[0] == 'q_tuple':
        rows = list(orm.select('(h.id, h.%s) for h in H if h.%s is not None' % ((refattr(names, c),) * 2), {'H': E['Holder']}, {}))
        got = [o for _, o in rows]; exp = inst(c)
        if [k for k, _ in rows] != [o._pkval_ for o in got]: return ('notinstance', [(k, o) for k, o in rows], None)
    elif r[0] == 'q_isinst':
        got = list(orm.select('x for x in B if isinstance(x, C)', {'B': E[r[2]], 'C': E[c]}, {})); exp = sorted(set(inst(c)) & set(inst(r[2])))
    elif r[0] == 'q_notinst':
        got = list(orm.select('x for x in B if not isinstance(x, C)', {'B': E[r[2]], 'C': E[c]}, {})); exp = sorted(set(inst(r[2])) - set(inst(c)))
    elif r[0] == 'q_isinst2':
        got = list(orm.select('x for x in B if isinstance(x, (C, D))', {'B': E[r[3]], 'C': E[c], 'D': E[r[2]]}, {}))
        exp = sorted((set(inst(c)) | set(inst(r[2]))) & set(inst(r[3])))
    return ('set', [(o.id, o) for o in got], exp)

def worker(args):
    hname, depth, first = args
    from pony import orm
    sub = core.Sub()
    db, E, names = build(hname)
    R = routes(E, names)
    created = dict((k, c) for k, c in enumerate(names, 1))
    # depth 3 (thorough): the later positions are drawn from the routes that hand objects to the program or load them
    # (the isinstance / random families are pure observations: they are enumerated in first and second position)
    S = [r for r in R if r[0] not in ('q_isinst', 'q_notinst', 'q_isinst2', 'q_random')]
    seqs = [(R[first],) + rest for d in range(0, min(depth, 2)) for rest in itertools.product(R, repeat=d)]
    if depth >= 3: seqs += [(R[first],) + rest for rest in itertools.product(S, repeat=2)]
    for seq in seqs:
        sub.count('sequences')
        with orm.db_session:
            for i, r in enumerate(seq):
                try:
                    kind, objs, extra = step(E, names, r, orm)
                except Exception as e:
                    sub.count('route_raises:' + type(e).__name__)
                    sub.violation('%s|%s|raises-%s' % (hname, '>'.join(x[0] for x in seq[:i + 1]), type(e).__name__),
                                  dict(hierarchy=hname, sequence=seq[:i + 1]), 'route %r raised %r' % (r, e))
                    break
                sub.count('steps')
                bad = None
                if kind == 'found': bad = 'instance-not-found(%s)' % extra
                elif kind == 'notinstance': bad = 'returned-object-that-is-not-an-instance'
                elif kind == 'set':
                    got = sorted(k for k, o in objs)
                    if got != extra: bad = 'query-result-differs'
                elif kind == 'subset':
                    if not objs or not set(k for k, o in objs) <= set(extra): bad = 'returned-object-that-is-not-an-instance'
                if bad is None and objs:
                    for k, o in objs:
                        if type(o).__name__ != created[k]:
                            bad = 'class-changed:%s->%s' % (created[k], type(o).__name__); break
                if bad:
                    # shrink: drop earlier steps while it still fails
                    sig = '%s|%s|%s|%s' % (hname, '>'.join(x[0] for x in seq[:i]) or '-', r[0], bad if not bad.startswith('class-changed') else 'class-changed')
                    sub.violation(sig, dict(hierarchy=hname, sequence=seq[:i + 1], problem=bad), '%s after %r' % (bad, seq[:i + 1]))
                    break
    sub.sample(dict(hierarchy=hname, sequence=seqs[-1]))
    return dict(sub=sub.dump(), n=len(seqs), routes=len(R))

def run(ctx):
    depth = 2 if ctx.quick else 3
    items = []
    for hname in HIERARCHIES:
        db, E, names = build(hname)
        for first in range(len(routes(E, names))): items.append((hname, depth, first))
    results = ctx.pmap(worker, items, chunksize=4)
    for r in results: core.absorb(ctx, r['sub'])
    c = ctx.counters
    ctx.guard('sequences', c.get('sequences', 0), 1000)
    ctx.cov['bounds'] = '%d hierarchies x every sequence of <= 2 access routes (%s routes per hierarchy) in one fresh session%s' % (
        len(HIERARCHIES), sorted(set(r['routes'] for r in results)), '' if depth < 3 else '; every sequence of 3 routes whose second and third hand out or load objects')
    ctx.assume('SQLite only; one stored object per class')
    return dict(states=c.get('sequences', 0), transitions=c.get('steps', 0), traces_validated_against_impl=c.get('sequences', 0))

def replay(ctx, case):
    from pony import orm
    db, E, names = build(case['hierarchy'])
    with orm.db_session:
        for r in case['sequence']:
            r = tuple(r)
            try: print(r, step(E, names, r, orm))
            except Exception as e: print(r, 'raises', repr(e)); return False
    return False
