"""C05 Query, SQL and result caches are transparent.

PX (pristine processes) + a statement pool built to share cache keys (vf/props/_c05_pool.py).

A HISTORY is one db_session:  s1 [m1] s2 [m2 s3]  - statements from the pool, optionally separated by an
in-session modification (assign / create / delete / commit / rollback). Enumerated exhaustively:
    quick     all ordered pairs over the 20-statement core x {no modification, 5 modifications}, and every core
              statement before and after every other pool statement (no modification)
    thorough  all ordered pairs over the whole pool x 7, and all ordered triples over the core x 7 x 7
plus two long histories (whole pool forward / backward) that run inside one pristine process each.

ORACLE: every result observed in a history equals the result of THAT STATEMENT ALONE, after the same
preceding modifications, IN A PRISTINE PROCESS: a zygote that imported pony and mapped the schema but never
executed a query forks one child per (statement, preceding modifications); the child runs the modifications
and the statement in its own copy of the database and dies. Histories run in worker processes; between two
histories the pristine content of every dict/list/set and `*cache*` attribute of all pony modules and
classes, the Database, provider, schema, entities and attributes is restored (a cache added to pony later is
covered unless it hides in a closure). Every mismatch is shrunk by step removal, and every reported shape is
re-executed in a fresh forked child (history and reference) before it is reported; a mismatch that a worker
saw but a fresh process does not reproduce is reported under its own signature ("differs in a worker although
...": state outside the restored containers leaked between histories), never dropped.

Signature = the shrunk history as statement KINDS (+ how each earlier statement relates to the last one: the
same statement / same function, other arguments / shares a lambda or query text / other code), the class of
modification, and what differed (stale answer / different answer / exception classes). Never concrete values.

Results are canonicalised: entity -> (class, pk), unordered results sorted, exceptions -> class name.
"""
import os, sys, json, hashlib, itertools, threading, time
from vf import core

LEVEL = 'model_checking'

P = None            # the pool module, imported by setup()
SCRATCH = None
NZYG = 2             # forks are serialised by the kernel here: more zygotes only burn CPU (measured 1..16: same wall)

# ---- environment ----------------------------------------------------------------------------------------
def setup():
    global P, SCRATCH
    if P is not None: return
    from vf.seams import dbapi
    SCRATCH = dbapi.scratch_dir()
    from vf.props import _c05_pool
    _c05_pool.setup(SCRATCH)
    P = _c05_pool
    snapshot_pristine()

_PRISTINE = []      # (kind, holder, key, object, snapshot)
_CONTAINERS = []
def snapshot_pristine():
    """Same idea as vf/props/c30.py: remember the content of EVERY container and every `*cache*` scalar that
    is an attribute of a pony module, of a class defined in a pony module, of the Database, its provider,
    pool and schema, of an entity class or of an attribute object."""
    del _PRISTINE[:]; del _CONTAINERS[:]
    mods = [m for n, m in sorted(sys.modules.items()) if (n == 'pony' or n.startswith('pony.')) and m is not None]
    holders = list(mods)
    for m in mods:
        for k, v in sorted(vars(m).items()):
            if isinstance(v, type) and getattr(v, '__module__', None) == m.__name__: holders.append(v)
    db = P.db
    holders += [db, db.provider, db.provider.pool, db.schema]
    for e in (P.Group, P.Person, P.Tag):
        holders.append(e); holders += list(e._attrs_)
    seen, hseen = set(), set()
    for h in holders:
        if id(h) in hseen: continue
        hseen.add(id(h))
        try: d = vars(h)
        except TypeError: continue
        for k, v in list(d.items()):
            if k.startswith('__') and k.endswith('__'): continue
            if isinstance(v, (dict, list, set)):
                if id(v) in seen: continue
                seen.add(id(v))
                _PRISTINE.append(('c', h, k, v, v.copy()))
                _CONTAINERS.append(v)
            elif 'cache' in k.lower() and not callable(v) and not isinstance(v, type(sys)):
                _PRISTINE.append(('s', h, k, v, None))

def _changed(v, snap):
    if len(v) != len(snap): return True
    if isinstance(v, dict):
        for k, x in snap.items():
            if k not in v or v[k] is not x: return True
        return False
    if isinstance(v, list):
        for a, b in zip(v, snap):
            if a is not b: return True
        return False
    return v != snap

def restore_pristine():
    """Emulates a cold process between histories (pristine forks remain the reference)."""
    for kind, h, k, v, snap in _PRISTINE:
        if kind == 'c':
            if _changed(v, snap):
                if isinstance(v, list): v[:] = snap
                else: v.clear(); v.update(snap)
        else:
            cur = vars(h).get(k, v)
            if cur is not v:
                try: setattr(h, k, v)
                except (AttributeError, TypeError): type.__setattr__(h, k, v)
    P.db.merge_local_stats()    # public API; statistics, not a cache: kept small so that the hit probe below stays cheap

def containers_size():
    n = 0
    for v in _CONTAINERS: n += len(v)
    return n

# ---- canonical results ------------------------------------------------------------------------------------
def _key(v): return json.dumps(v, sort_keys=True)

def canon(v, ordered=True, top=True):
    from pony.orm.core import Entity, Query, QueryResult
    if v is None or isinstance(v, (bool, int, str)): return v
    if isinstance(v, Entity): return ['E', type(v).__name__, canon(v._pk_, True, False)]
    if isinstance(v, (Query, QueryResult)): v = list(v)
    if isinstance(v, (list, tuple)):
        out = [canon(i, True, False) for i in v]
        if top and not ordered and isinstance(v, list): out.sort(key=_key)
        return out
    if isinstance(v, (set, frozenset)): return sorted((canon(i, True, False) for i in v), key=_key)
    if isinstance(v, dict): return sorted(([canon(k, True, False), canon(i, True, False)] for k, i in v.items()), key=_key)
    return '%s:%r' % (type(v).__name__, v)

# ---- executing a history ----------------------------------------------------------------------------------
# a step is ('s', pool index) or ('m', modification name)
class Info(object):
    __slots__ = ('tainted', 'warm', 'invalidated', 'result_cache_hits', 'executions')
    def __init__(self): self.tainted = None; self.warm = self.invalidated = self.result_cache_hits = self.executions = 0

def run_history(steps, probe=False):
    """-> (list with one canonical JSON string per statement step, Info). One db_session, rolled back at the
    end; the pristine rows are put back if the history committed a modification."""
    restore_pristine()
    db = P.db
    res, info = [], Info()
    pending = dirty = False
    with P.db_session:
        for pos, (kind, v) in enumerate(steps):
            if kind == 'm':
                try: P.MODS[v]()
                except Exception as e:
                    if info.tainted is None: info.tainted = 'modification %s raised %s' % (v, type(e).__name__)
                if v in P.DATA_MODS: pending = True
                elif v == 'commit':
                    if pending: dirty = True
                    pending = False
                elif v == 'rollback': pending = False
                continue
            st = P.POOL[v]
            c0 = db._get_cache()
            if probe:
                size0 = containers_size()
                fixed0 = [(k, t) for k, t in db._translator_cache.items() if t.fixed_param_values]
                hits0 = _hits(db)
            try: r = canon(st.execute(), st.ordered)
            except Exception as e:
                r = ['EXC', type(e).__name__]
                if not c0.is_alive and info.tainted is None:
                    info.tainted = 'the session was rolled back by %s in %s' % (type(e).__name__, st.kind)
            res.append(json.dumps(r, sort_keys=True))
            info.executions += 1
            if probe:
                if pos and containers_size() == size0: info.warm += 1
                tc = db._translator_cache
                for k, t in fixed0:
                    if tc.get(k) is not t: info.invalidated += 1
                hits1 = _hits(db)
                if hits1[0] > hits0[0] and hits1[1] == hits0[1]: info.result_cache_hits += 1
        P.rollback()
    if dirty: P.restore_rows()
    return res, info

def _hits(db):
    """(answers taken from cache.query_results, statements sent to the database) so far, from pony's own
    per-thread statistics. list(query) asks len() and then iterates, so a query that went to the database
    also scores one hit; an execution counts as answered from the result cache only if it scored hits
    and sent nothing to the database."""
    st = getattr(db._dblocal, 'stats', None)
    if not st: return (0, 0)
    n = d = 0
    for k, s in st.items():
        if k is not None: n += s.cache_count; d += s.db_count     # the None entry is the total
    return (n, d)

def modseq_of(steps, upto=None):
    return tuple(v for k, v in steps[:upto] if k == 'm')

# ---- pristine processes -----------------------------------------------------------------------------------
class Zygote(object):
    """A process forked before any statement was executed. Per request it forks a pristine child that takes
    its own copy of the database, runs the given history and reports the results."""
    def __init__(self, close_in_child=()):
        self.req_r, self.req_w = os.pipe()
        self.res_r, self.res_w = os.pipe()
        self.pid = os.fork()
        if self.pid == 0:
            try:
                os.close(self.req_w); os.close(self.res_r)
                for fd in close_in_child:       # pipe ends of the zygotes created before this one
                    try: os.close(fd)
                    except OSError: pass
                inp = os.fdopen(self.req_r, 'r')
                while True:
                    line = inp.readline()
                    if not line or line.strip() == 'quit': break
                    steps = [tuple(s) for s in json.loads(line)]
                    pid = os.fork()
                    if pid == 0:
                        path = None
                        try:
                            path = P.use_private_copy(SCRATCH)
                            res, info = run_history(steps)
                            data = (json.dumps(dict(res=res, tainted=info.tainted)) + '\n').encode()
                        except BaseException as e:
                            data = (json.dumps({'error': repr(e)}) + '\n').encode()
                        try:
                            while data: data = data[os.write(self.res_w, data):]
                            if path:
                                for p in (path, path + '-journal'):
                                    try: os.unlink(p)
                                    except OSError: pass
                        finally: os._exit(0)
                    os.waitpid(pid, 0)
            finally: os._exit(0)
        os.close(self.req_r); os.close(self.res_w)
        self.out = os.fdopen(self.req_w, 'w')
        self.inp = os.fdopen(self.res_r, 'r')
        self.forks = 0
    def run(self, steps):
        self.out.write(json.dumps([list(s) for s in steps]) + '\n'); self.out.flush()
        self.forks += 1
        d = json.loads(self.inp.readline())
        if 'error' in d: raise core.HarnessError('pristine child failed: %s' % d['error'])
        return d['res'], d['tainted']
    def fds(self): return (self.req_w, self.res_r)
    def close(self):
        try: self.out.write('quit\n'); self.out.flush()
        except Exception: pass
        try: self.out.close(); self.inp.close()
        except Exception: pass
        try: os.waitpid(self.pid, 0)
        except Exception: pass

class Zygotes(object):
    def __init__(self, n):
        self.z = []
        for i in range(n): self.z.append(Zygote([fd for z in self.z for fd in z.fds()]))
    def map(self, histories):
        """results in order; the zygotes work concurrently (one thread each, blocked on its pipe)"""
        out = [None] * len(histories)
        err = []
        def pump(k):
            try:
                for i in range(k, len(histories), len(self.z)): out[i] = self.z[k].run(histories[i])
            except BaseException as e: err.append(e)
        ths = [threading.Thread(target=pump, args=(k,)) for k in range(len(self.z))]
        for t in ths: t.start()
        for t in ths: t.join()
        if err: raise err[0]
        return out
    def run(self, steps): return self.z[0].run(steps)
    @property
    def forks(self): return sum(z.forks for z in self.z)
    def close(self):
        for z in self.z: z.close()

COLD = {}           # (pool index, modification sequence) -> canonical JSON of the pristine-process answer
_emulated = {}
def cold_ref(idx, modseq):
    r = COLD.get((idx, modseq))
    if r is None:
        r = _emulated.get((idx, modseq))
        if r is None:       # only while shrinking below the precomputed references; confirmed by a fork later
            res, info = run_history([('m', m) for m in modseq] + [('s', idx)])
            r = _emulated[(idx, modseq)] = res[-1]
    return r

# ---- enumeration ------------------------------------------------------------------------------------------
MODS6 = (None,) + ('assign', 'create', 'delete', 'bulkdelete', 'commit', 'rollback')     # 7 with 'no modification'

def modseqs(maxlen):
    out = [()]
    for n in range(1, maxlen + 1): out += list(itertools.product(MODS6[1:], repeat=n))
    return out

def pair_mods(a, b, quick):
    """quick tier: a modification between the two statements only when both are core statements (a pristine
    reference costs one fork per (statement, modifications), forks are serialised by the kernel here)"""
    if not quick or (P.POOL[a].core and P.POOL[b].core): return MODS6
    return (None,)

def histories_of(job):
    """job ('pairs', a, [b...], quick) -> a [m] b ;  ('triples', a, b) -> a [m1] b [m2] c for c in core"""
    if job[0] == 'pairs':
        a = job[1]
        for b in job[2]:
            for m in pair_mods(a, b, job[3]):
                yield (('s', a),) + ((('m', m),) if m else ()) + (('s', b),)
    else:
        a, b = job[1], job[2]
        for m1 in MODS6:
            head = (('s', a),) + ((('m', m1),) if m1 else ()) + (('s', b),)
            for m2 in MODS6:
                mid = head + ((('m', m2),) if m2 else ())
                for c in P.CORE:
                    yield mid + (('s', c),)

def make_jobs(quick):
    n = len(P.POOL); core_ = set(P.CORE)
    jobs = []
    for a in range(n):
        bs = [b for b in range(n) if (not quick) or a in core_ or b in core_]
        if not bs: continue
        for part in ((bs[:len(bs) // 2], bs[len(bs) // 2:]) if len(bs) > 40 else (bs,)):
            if part: jobs.append(('pairs', a, part, quick))
    if not quick:
        for a in P.CORE:
            for b in P.CORE: jobs.append(('triples', a, b))
    return jobs

# ---- mismatch -> minimal shape ----------------------------------------------------------------------------
def names(steps):
    return [P.POOL[v].name if k == 's' else '<%s>' % v for k, v in steps]

def fails(steps):
    res, info = run_history(steps)
    if info.tainted: return False
    return res[-1] != cold_ref(steps[-1][1], modseq_of(steps))

def shrink(steps):
    """greedy removal of earlier steps while the LAST statement still disagrees with its cold reference"""
    steps = list(steps)
    changed = True
    while changed:
        changed = False
        for i in range(len(steps) - 1):
            cand = steps[:i] + steps[i + 1:]
            if fails(cand):
                steps, changed = cand, True
                break
    return tuple(steps)

def describe(warm, cold, before):
    w, c = json.loads(warm), json.loads(cold)
    we = isinstance(w, list) and len(w) == 2 and w[0] == 'EXC'
    ce = isinstance(c, list) and len(c) == 2 and c[0] == 'EXC'
    if we and ce: return 'raises %s where a pristine process raises %s' % (w[1], c[1])
    if we: return 'raises %s where a pristine process answers' % w[1]
    if ce: return 'answers where a pristine process raises %s' % c[1]
    if before is not None and warm == before: return 'stale answer: the one from before the modification'
    return 'different answer'

def signature(minimal, warm, cold):
    last = P.POOL[minimal[-1][1]]
    parts = []
    for k, v in minimal[:-1]:
        if k == 'm':
            parts.append('<data modification>' if v in P.DATA_MODS else '<%s>' % v)
        else:
            st = P.POOL[v]
            rel = ('the same statement' if st is last else 'same function, other arguments' if st.family == last.family
                   else 'shares a lambda or query text' if st.shares & last.shares else 'other code')
            parts.append('%s [%s]' % (st.kind, rel))
    ms = modseq_of(minimal)
    before = cold_ref(minimal[-1][1], ()) if ms else None
    return 'history|%s|then %s|%s' % (' ; '.join(parts) or '(nothing)', last.kind, describe(warm, cold, before))

_shrunk = {}
def report(sub, steps, pos, got, cold):
    """steps[pos] is the first statement whose result disagrees."""
    trunc = tuple(steps[:pos + 1])
    hit = _shrunk.get(trunc)
    if hit is None:
        if not fails(trunc):
            minimal = trunc     # not reproducible on its own: reported as such, the fork decides
            sig = 'history|not reproduced when the truncated history is run again|%s' % P.POOL[trunc[-1][1]].kind
            w = got
        else:
            minimal = shrink(trunc)
            res, info = run_history(minimal)
            w = res[-1]
            sig = signature(minimal, w, cold_ref(minimal[-1][1], modseq_of(minimal)))
        hit = _shrunk[trunc] = (sig, minimal, w)
    sig, minimal, w = hit
    c = cold_ref(minimal[-1][1], modseq_of(minimal))
    sub.violation(sig, dict(history=names(steps[:pos + 1]), minimal=names(minimal), minimal_steps=[list(s) for s in minimal],
                            steps=[list(s) for s in steps[:pos + 1]], got=json.loads(w), pristine=json.loads(c)),
                  'history %s: the last statement gives %s, alone (after the same modifications) in a pristine process it gives %s'
                  % (' ; '.join(names(minimal)), w[:200], c[:200]))

# ---- workers ----------------------------------------------------------------------------------------------
_worker_ready = [None]
def worker(job):
    if _worker_ready[0] != os.getpid():
        P.use_private_copy(SCRATCH); _worker_ready[0] = os.getpid()
    sub = core.Sub()
    results = set()
    nh = 0
    for steps in histories_of(job):
        res, info = run_history(steps, probe=True)
        nh += 1
        sub.count('statement_executions', info.executions)
        sub.count('executions_answered_without_any_new_cache_entry', info.warm)
        sub.count('translators_invalidated_by_fixed_param_values', info.invalidated)
        sub.count('executions_answered_from_query_results', info.result_cache_hits)
        if info.tainted:
            sub.count('histories_not_judged_after:' + info.tainted)
            continue
        k = 0
        bad = []
        for pos, (kind, v) in enumerate(steps):
            if kind != 's': continue
            r = res[k]; k += 1
            results.add(hashlib.md5(r.encode()).hexdigest()[:12])
            ms = modseq_of(steps, pos)
            c = COLD.get((v, ms))
            if c is None: raise core.HarnessError('no cold reference for %s after %r' % (P.POOL[v].name, ms))
            sub.count('results_compared')
            if ms and c != COLD[(v, ())]: sub.count('results_compared_where_the_modifications_change_the_answer')
            if r != c: bad.append((pos, r, c))
        if bad:
            sub.count('histories_with_a_mismatch')
            for b in bad: report(sub, steps, *b)     # every disagreeing position is shrunk and attributed on its own
        elif nh % 997 == 1:
            sub.sample(dict(history=names(steps), results=[json.loads(r) for r in res]), limit=1)
    d = sub.dump()
    d['histories'] = nh
    d['results'] = sorted(results)
    return d

# ---- run --------------------------------------------------------------------------------------------------
def compute_cold(zyg, ctx, quick):
    n = len(P.POOL); core_ = set(P.CORE)
    want = []
    for i in range(n):
        if quick and i not in core_: want.append((i, ()))
        else: want += [(i, ms) for ms in modseqs(2 if (i in core_ and not quick) else 1)]
    want = ctx.shuffled(want)
    hist = [[('m', m) for m in ms] + [('s', i)] for i, ms in want]
    for (i, ms), (res, tainted) in zip(want, zyg.map(hist)):
        if tainted: raise core.HarnessError('cold reference of %s after %r: %s' % (P.POOL[i].name, ms, tainted))
        COLD[(i, ms)] = res[-1]
    ctx.count('cold_references_from_pristine_forks', len(want))

def run(ctx):
    setup()
    zyg = Zygotes(min(NZYG, ctx.nworkers))               # pristine: nothing has been executed in this process yet
    try:
        pool = P.POOL
        n = len(pool)
        phase = {}; t0 = time.time()
        def lap(name):
            nonlocal t0
            phase[name] = round(time.time() - t0, 1); t0 = time.time()
        compute_cold(zyg, ctx, ctx.quick); lap('pristine_references')
        distinct_cold = len(set(COLD.values()))
        # the main process takes its own copy too (shrinking / attribution runs here)
        P.use_private_copy(SCRATCH)
        # ---- in-process emulation of a pristine process must agree with the real thing for every single statement
        for i in range(n):
            res, info = run_history([('s', i)])
            ctx.count('single_statements_emulated_in_process')
            if res[0] != COLD[(i, ())]: report(ctx, (('s', i),), 0, res[0], COLD[(i, ())])
        lap('single_statements_in_process')
        # ---- two long histories, each inside ONE pristine process
        order = list(range(n))           # the same two histories for every seed (a permuted history would be another history)
        for seq in (order, order[::-1]):
            steps = [('s', i) for i in seq]
            res, tainted = zyg.run(steps)
            ctx.count('long_histories')
            if tainted:
                ctx.count('histories_not_judged_after:' + tainted); continue
            for pos, i in enumerate(seq):
                ctx.count('long_history_steps')
                if res[pos] != COLD[(i, ())]:
                    ctx.count('long_history_mismatches')
                    pair = None
                    for j in seq[:pos]:         # cheap attribution first: an ordered pair that shows it
                        if fails((('s', j), ('s', i))): pair = (('s', j), ('s', i)); break
                    if pair: report(ctx, pair, 1, res[pos], COLD[(i, ())])
                    else: report(ctx, steps, pos, res[pos], COLD[(i, ())])
        lap('long_histories')
        # ---- the enumerated histories
        jobs = make_jobs(ctx.quick)
        prefixes = set()
        expected = 0
        for job in jobs:
            for h in histories_of(job):
                expected += 1
                for pos, (k, v) in enumerate(h):
                    if k == 's': prefixes.add(h[:pos + 1])
        executed = 0
        results = set()
        for d in ctx.pmap(worker, ctx.shuffled(jobs)):
            executed += d['histories']
            results.update(d['results'])
            core.absorb(ctx, d)
        if executed != expected: raise core.HarnessError('%d histories enumerated, %d executed' % (expected, executed))
        lap('enumerated_histories')
        # ---- confirm every shape in fresh forked children (history and reference)
        for sig in sorted(ctx.found):
            case = ctx.found[sig]['case']
            minimal = [tuple(s) for s in case['minimal_steps']]
            res, tainted = zyg.run(minimal)
            ref, _ = zyg.run([('m', m) for m in modseq_of(minimal)] + [minimal[-1]])
            ctx.count('confirmations_in_fresh_forks')
            ok = not tainted and res[-1] != ref[-1]
            case['confirmed_in_fresh_forks'] = dict(history=json.loads(res[-1]), alone=json.loads(ref[-1]), reproduced=ok)
            if not ok:
                # seen by a worker but not by a fresh process: state outside the restored containers leaked from an
                # earlier history of that worker. Still reported (never silently dropped), under its own signature.
                ctx.count('shapes_not_reproduced_in_fresh_forks')
                nsig = ('history|differs in a worker although the pristine content of all pony containers was restored, '
                        'not reproduced by the same history in a fresh process|then %s' % P.POOL[minimal[-1][1]].kind)
                e = ctx.found.pop(sig)
                if nsig in ctx.found: ctx.found[nsig]['n'] += e['n']
                else: ctx.found[nsig] = e
        lap('confirmations')
        ctx.cov['phase_seconds'] = phase
    finally:
        zyg.close()
    ctx.count('zygote_forks', zyg.forks)
    tm = os.times()
    ctx.cov['cpu_seconds'] = dict(main=round(tm.user + tm.system, 1), workers_and_pristine_children=round(tm.children_user + tm.children_system, 1))
    c = ctx.counters
    ctx.cov['pool_statements'] = n
    ctx.cov['core_statements'] = len(P.CORE)
    ctx.cov['pool_families_sharing_one_code_object_or_string'] = len(set(s.family for s in pool))
    ctx.cov['statement_kinds'] = sorted(set(s.kind for s in pool))
    ctx.cov['modifications'] = list(MODS6[1:])
    ctx.cov['distinct_results'] = len(results)
    ctx.cov['distinct_pristine_answers'] = distinct_cold
    ctx.cov['bounds'] = ('ordered pairs over the core x 7 modifications (none, assign, create, delete, bulk delete, commit, rollback); every core statement before/after every other pool statement' if ctx.quick else
                         'all ordered pairs over the pool x 7 modifications; all ordered triples over the core x 7 x 7 modifications')
    minh = 5000 if ctx.quick else 200000
    known = core.load_known()
    found_new = any(core.match_known(known, ctx.prop, sig) is None for sig in ctx.found)
    def mech(minimum):
        """guards on cache mechanisms protect a 'held' verdict from being vacuous; a run that reports a new
        violation is not vacuous, and a broken mechanism (the usual cause of both) must not hide it behind exit 2"""
        return 0 if found_new else minimum
    ctx.guard('histories executed', executed, minh)
    ctx.guard('executions answered without any new entry in any pony container (warm caches)',
              c.get('executions_answered_without_any_new_cache_entry', 0), mech(100 if ctx.quick else 2000))
    ctx.guard('translators thrown away because a fixed parameter value changed',
              c.get('translators_invalidated_by_fixed_param_values', 0), mech(15 if ctx.quick else 100))
    ctx.guard('executions answered from the per-session query_results cache', c.get('executions_answered_from_query_results', 0), mech(10 if ctx.quick else 100))
    ctx.guard('results compared after modifications that change the pristine answer',
              c.get('results_compared_where_the_modifications_change_the_answer', 0), 400 if ctx.quick else 20000)
    ctx.guard('distinct results', len(results), 80 if ctx.quick else 150)
    ctx.guard('distinct pristine answers', distinct_cold, 80 if ctx.quick else 150)
    ctx.guard('pool size', n, 80)
    ctx.assume('SQLite only (the only engine that can execute SQL here); adapt_sql for the other paramstyles is covered by C30')
    ctx.assume('a pristine process = a child forked from a zygote that imported pony and mapped the schema and never executed a statement')
    ctx.assume('histories run in worker processes that restore the pristine content of every dict/list/set and *cache* attribute '
               'of pony modules, classes, Database, provider, schema, entities and attributes between histories; every reported '
               'shape is re-executed in fresh forked processes, and two whole-pool histories run inside one pristine process each')
    ctx.assume('results are compared after canonicalisation: entities by (class, primary key), unordered results as sorted lists, exceptions by class')
    return dict(states=len(prefixes), transitions=c.get('statement_executions', 0) + c.get('long_history_steps', 0),
                traces_validated_against_impl=executed + c.get('long_histories', 0) + c.get('cold_references_from_pristine_forks', 0))

def replay(ctx, case):
    setup()
    zyg = Zygotes(1)
    try:
        ok = True
        for key in ('history', 'minimal'):
            # statements are recorded by name (pool indexes are not stable when the pool is edited)
            steps = [('m', x[1:-1]) if x.startswith('<') else ('s', P.BYNAME[x]) for x in case[key]]
            res, tainted = zyg.run(steps)
            ref, _ = zyg.run([('m', m) for m in modseq_of(steps)] + [steps[-1]])
            print('history  :', ' ; '.join(names(steps)))
            print('   last statement in the history :', res[-1][:300])
            print('   alone in a pristine process   :', ref[-1][:300])
            if res[-1] != ref[-1]: ok = False
        return ok
    finally:
        zyg.close()
