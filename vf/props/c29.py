"""C29 JSON and array operations in queries match Python semantics.

Bounded-exhaustive. One row per document, every operation is ONE query over the whole table (id range), answers
are compared row by row with the same operation on the decoded Python value; a query that raises is bisected
by id range down to the single documents that make it raise (refusals are per document).

Documents (nesting <= 2 over keys a, "b c", 'q"t', "1" and scalars null, true, false, 0, 1.5, "", "x"):
  thorough (2,847): the 7 scalars; []; [e] for every e of E1; [s1, s2]; [s, c] and [c, s] for c in C; {};
            {k: e}; {k1: s1, k2: s2} for k1 < k2; {'a': e, k: s} for non-scalar e of E1 and k != 'a'
            where E1 = scalars + lists of <= 2 scalars + {} + {k: s} (93 values), C = [], {}, [s], {'a': s} (16)
  quick (229): the 7 scalars; []; {}; [e], {k: e} for e in scalars + C; [s, 'x'], [s, null]; {'a': s, k: 'x'};
            {'a': [s1, s2]}; {'a': {k: s}}
Arrays: every Int / Str / Float array of length <= 3 over a 3-value domain (40 per type) plus NULL.

Operations: projection of a path of length <= 2 over the 4 keys and the indexes 0, 1, -1 (last element also as an
external parameter); path <op> constant for ==, !=, <, <=, >, >= and the six non-null scalars (constant also as a
parameter); is None / is not None / == None / != None; truthiness (`if path`, `if not path`); len(path) and
len(document); `key in path`, `key not in path` (constant and parameter keys). Arrays: index -4..3 (constant and
parameter), every slice with bounds in {omitted, -4..4}, `v in`, `v not in`, `[v1, v2] in` (subset), len, truthiness,
equality with a list. Queries are generator expressions (constant index / slice operations on arrays also as query text, where
a literal -1 is a unary minus instead of a constant). Everything runs on SQLite WITH JSON1 and with provider.json1_available = False (py_json_* path).

Two operations in ONE query (pair_ops / array_pair_ops): every unordered pair of paths (a path also with itself)
from the catalogue of all paths of length 1 and of length 2 starting with 'a' or 0 over the items a, "b c", 0, 1
(quick, 12 paths) / a, "b c", "1", 0, 1, -1 (thorough, 18 paths) x every choice of which path positions are
external parameters (quick: at most one per path, thorough: every subset) x parameter naming {every occurrence
its own name, equal values share ONE name} x query form: the tuple (x.id, path1, path2), and (at most one parameter
per path) the conjunctions `p1 and p2`, `p1 is not None and p2 is None` (thorough also `p1 == 'x' and p2 != 'x'`,
`not p1 and p2 is not None`). Arrays: (x.arr[i], x.arr[j]) for i, j in {-1, 0, 2}, each literal or parameter,
distinct or shared name. Each item of the tuple is judged like the single projection, a conjunction by the
three-valued conjunction of the single expectations. In both tiers these two-operation queries run over the 229
quick documents (the thorough tier widens their operation space, not their document space).

Oracle: the operation on the decoded value, typed three-valued: a missing key / index / a null is None, a
comparison with None is unknown (row not selected; for != both answers are accepted), bool(None) is False. Where
Python itself raises (ordering str against number, len of a number, `in` on a number, index into a string) or
where Python and JSON typing disagree (False == 0, ordering of booleans, substring test on a string value) any
answer is accepted and counted. PostgreSQL / MySQL: the SQL of every operation is only rendered (undecided).

Signature = operation + constant type class + json1 on/off + failure kind, with the sets of path classes and
value classes (what the path holds in the failing documents) it occurs on; never concrete values.
"""
import os, sys, json, time, itertools
from vf import core

LEVEL = 'exploration'

SCALARS = [None, True, False, 0, 1.5, '', 'x']
KEYS = ['a', 'b c', 'q"t', '1']
INDEXES = [0, 1, -1]
CONSTS = [True, False, 0, 1.5, '', 'x']

def _dedupe(docs):
    seen, out = set(), []
    for d in docs:
        k = json.dumps(d, sort_keys=True)
        if k not in seen: seen.add(k); out.append(d)
    return out

def documents(quick):
    S = SCALARS
    C = [[], {}] + [[s] for s in S] + [{'a': s} for s in S]
    out = list(S)
    if quick:
        Q1 = S + C
        out += [[], {}]
        out += [[e] for e in Q1]
        out += [[s, t] for s in S for t in ('x', None)]
        out += [{k: e} for k in KEYS for e in Q1]
        out += [{'a': s, k: 'x'} for s in S for k in KEYS[1:]]
        out += [{'a': [s, t]} for s in S for t in S]
        out += [{'a': {k: s}} for k in KEYS for s in S]
        return _dedupe(out)
    E1 = S + [[]] + [[s] for s in S] + [[s, t] for s in S for t in S] + [{}] + [{k: s} for k in KEYS for s in S]
    NS = [e for e in E1 if isinstance(e, (list, dict))]
    out += [[]] + [[e] for e in E1] + [[s, t] for s in S for t in S]
    out += [[s, c] for s in S for c in C] + [[c, s] for s in S for c in C]
    out += [{}] + [{k: e} for k in KEYS for e in E1]
    out += [{k1: s, k2: t} for k1, k2 in itertools.combinations(KEYS, 2) for s in S for t in S]
    out += [{'a': e, k: s} for e in NS for k in KEYS[1:] for s in S]
    return _dedupe(out)

DOMAINS = dict(ia=[-1, 0, 2], sa=['', 'a', 'b c'], fa=[-2.5, 0.0, 1.5])
OTHER = dict(ia=7, sa='zz', fa=9.25)
def arrays(dom):
    out = [None]
    for n in range(4): out += [list(t) for t in itertools.product(dom, repeat=n)]
    return out

# ------------------------------------------------------------------------------------------------
# python semantics
OK, MISSING, NOANS = 'ok', 'missing', 'noans'
def trav(doc, path, noquote=False):
    v = doc
    if doc is None and path: return NOANS, None          # the attribute itself is NULL: Python raises
    for e in path:
        if noquote and isinstance(e, str) and '"' in e: return MISSING, None
        if isinstance(e, str):
            if not isinstance(v, dict) or e not in v: return MISSING, None
            v = v[e]
        else:
            if isinstance(v, list):
                if -len(v) <= e < len(v): v = v[e]
                else: return MISSING, None
            elif isinstance(v, str): return NOANS, None       # Python indexes the string; JSON has no such path
            else: return MISSING, None
    return OK, v

def vclass(status, v):
    if status == MISSING: return 'missing'
    if status == NOANS: return 'string indexed'
    if v is None: return 'null'
    if isinstance(v, bool): return 'bool'
    if isinstance(v, int): return 'int'
    if isinstance(v, float): return 'float'
    if isinstance(v, str): return 'str' if v else 'empty str'
    if isinstance(v, list): return 'list' if v else 'empty list'
    return 'dict' if v else 'empty dict'

def tclass(c):
    if c is None: return 'None'
    if isinstance(c, bool): return 'bool'
    if isinstance(c, int): return 'int'
    if isinstance(c, float): return 'float'
    if isinstance(c, str): return 'str'
    return 'list'

def eclass(e):
    if isinstance(e, int): return 'negative index' if e < 0 else 'index'
    if e.isidentifier(): return 'key'
    if e.isdigit(): return 'digit key'
    if '"' in e: return 'key with a double quote'
    return 'key with a space'
def pclass(op):
    path = op.get('path', ())
    if not path: return '(document)'
    parts = [eclass(e) + (' (parameter)' if n else '') for e, n in zip(path, param_names(op))]
    return ' / '.join(parts)
def param_names(op):
    """per path position: name of the external parameter that holds the item, or None for a literal"""
    path = op.get('path', ())
    if op.get('pnames'): return op['pnames']
    return ['pk' if (op.get('pparam') and i == len(path) - 1) else None for i in range(len(path))]

def pair_pclass(op):
    return ' ; '.join(pclass(x) for x in op['subs']) + (' [one parameter name in both]' if op.get('share') == 'shared' else '')

def jeq(a, b):
    """typed JSON equality (bool is not a number; int and float compare by value)"""
    if isinstance(a, bool) or isinstance(b, bool): return isinstance(a, bool) and isinstance(b, bool) and a == b
    if isinstance(a, (int, float)) and isinstance(b, (int, float)): return abs(a - b) < 1e-12
    if isinstance(a, list) and isinstance(b, list): return len(a) == len(b) and all(jeq(x, y) for x, y in zip(a, b))
    if isinstance(a, dict) and isinstance(b, dict): return set(a) == set(b) and all(jeq(a[k], b[k]) for k in a)
    return type(a) is type(b) and a == b

EITHER = 'either'
_CMP = {'==': lambda a, b: a == b, '!=': lambda a, b: a != b, '<': lambda a, b: a < b, '<=': lambda a, b: a <= b,
        '>': lambda a, b: a > b, '>=': lambda a, b: a >= b}
def is_num(v): return isinstance(v, (int, float)) and not isinstance(v, bool)

def expect_bool(op, doc, noquote=False):
    """True (row must be selected) | False (must not) | EITHER (not fixed) | NOANS (Python raises)"""
    k = op['kind']
    st, v = trav(doc, op.get('path', ()), noquote)
    if st == NOANS: return NOANS
    absent = st == MISSING or v is None
    if k == 'cmp':
        o, c = op['op'], op['const']
        if absent: return EITHER if o == '!=' else False
        if isinstance(v, (list, dict)):
            if o == '==': return False
            if o == '!=': return True
            return NOANS
        vb, cb = isinstance(v, bool), isinstance(c, bool)
        if isinstance(v, str) != isinstance(c, str):
            if o == '==': return False
            if o == '!=': return True
            return NOANS
        if isinstance(v, str): return _CMP[o](v, c)
        if vb != cb:                       # bool against number: Python compares by value, JSON types differ
            if o in ('==', '!='):
                return EITHER if v == c else (o == '!=')
            return EITHER
        if vb and o not in ('==', '!='): return EITHER
        return _CMP[o](v, c)
    if k == 'isnone': return absent != op['neg']
    if k == 'truth':
        t = False if absent else bool(v)
        return t != op['neg']
    if k == 'contains':
        if absent or isinstance(v, (bool, int, float)): return NOANS
        if isinstance(v, str): return EITHER
        return (op['key'] in v) != op['neg']
    raise core.HarnessError(k)

def expect_value(op, doc, noquote=False):
    """('v', value) | ('any',)"""
    k = op['kind']
    st, v = trav(doc, op.get('path', ()), noquote)
    if st == NOANS: return ('any',)
    if k == 'proj': return ('v', None if st == MISSING else v)
    if k == 'len':
        if st == MISSING or not isinstance(v, (list, dict, str)): return ('any',)
        return ('v', len(v))
    raise core.HarnessError(k)

# ---- alternative semantics that identify a root cause (the answer must match them exactly) -----------------
import re
def _num_prefix(s, real):
    m = re.match(r'\s*[-+]?\d+(\.\d*)?([eE][-+]?\d+)?' if real else r'\s*[-+]?\d+', s)
    if not m: return 0.0 if real else 0
    return float(m.group(0)) if real else int(m.group(0))
def _sql_cast(v, c):
    """SQLite CAST of what json_extract returns for v to the SQL type of the constant c"""
    if isinstance(v, (list, dict)): v = json.dumps(v, separators=(',', ':'))
    if isinstance(c, str):
        if isinstance(v, bool): return str(int(v))
        if isinstance(v, float): return repr(v)
        return str(v)
    real = isinstance(c, float)
    if isinstance(v, str): return _num_prefix(v, real)
    return float(v) if real else int(v)

def explain(op, doc, got, arr):
    """name of the known alternative semantics under which `got` is the right answer, or None"""
    k = op['kind']
    if arr:
        if doc is None: return None
        n = len(doc)
        if k == 'aindex' and op['i'] < -n and n and same_value(doc[n + op['i']], got): return 'array: a negative bound below -len wraps around a second time'
        if k == 'aslice':
            a, b = op['a'], op['b']
            if (a is not None and a < -n) or (b is not None and b < -n):
                a2 = None if a is None else (a if a >= 0 else n + a)
                b2 = None if b is None else (b if b >= 0 else n + b)
                if same_value(doc[a2:b2], got): return 'array: a negative bound below -len wraps around a second time'
        return None
    path = op.get('path', ())
    valmode = is_value_op(op)
    if any(isinstance(e, str) and '"' in e for e in path):
        if valmode:
            e = expect_value(op, doc, True)
            if e[0] == 'any' or same_value(e[1], got): return 'json: a key containing a double quote is never found'
        else:
            e = expect_bool(op, doc, True)
            if e in (NOANS, EITHER) or e == got: return 'json: a key containing a double quote is never found'
    st, v = trav(doc, path)
    if st != OK or v is None: return None
    if k == 'len' and isinstance(v, (dict, str)) and got == 0: return 'json: len() of an object or a string value is 0'
    if k == 'cmp' and op['op'] in ('==', '!='):
        c = op['const']
        try: alt = _CMP[op['op']](_sql_cast(v, c), int(c) if isinstance(c, bool) else c)
        except Exception: return None
        if alt == got: return 'json: the value is CAST to the SQL type of the constant before == / != (no type check)'
    return None

# ---- arrays
def a_expect_value(op, arr):
    k = op['kind']
    if arr is None: return ('v', None)
    if k == 'aindex':
        i = op['i']
        if -len(arr) <= i < len(arr): return ('v', arr[i])
        return ('vs', [None])          # Python raises IndexError; None is the documented answer
    if k == 'aslice': return ('v', arr[op['a']:op['b']])
    if k == 'alen': return ('v', len(arr))
    raise core.HarnessError(k)
def a_expect_bool(op, arr):
    k = op['kind']
    if arr is None:                                                # NULL array: unknown
        if k == 'asubset' and not op['vs']: return EITHER          # the empty list is a subset of anything: folded to a constant
        return EITHER if op.get('neg') else False
    if k == 'ain': return (op['v'] in arr) != op['neg']
    if k == 'asubset': return set(op['vs']).issubset(set(arr)) != op['neg']
    if k == 'atruth': return bool(arr) != op['neg']
    if k == 'aeq': return (arr == op['vs']) != op['neg']
    raise core.HarnessError(k)

# ------------------------------------------------------------------------------------------------
# operations
def path_text(op):
    path = op.get('path', ())
    t = 'x.data'
    for e, n in zip(path, param_names(op)): t += '[%s]' % n if n else '[%r]' % (e,)
    return t
def op_text(op):
    """(python expression over x, external parameters)"""
    k = op['kind']
    g = {}
    if k == 'pair':
        texts = []
        for sub in op['subs']:
            t, gs = op_text(sub)
            for n, v in gs.items():
                if n in g and (g[n] != v or type(g[n]) is not type(v)): raise core.HarnessError('parameter %s is shared by two different values' % n)
                g[n] = v
            texts.append(t)
        if op['form'] == 'tuple': return ', '.join(texts), g
        return ' and '.join('(%s)' % t for t in texts), g
    if k in ('proj', 'len', 'cmp', 'isnone', 'truth', 'contains'):
        T = path_text(op)
        for e, n in zip(op.get('path', ()), param_names(op)):
            if n: g[n] = e
        if k == 'proj': return T, g
        if k == 'len': return 'len(%s)' % T, g
        if k == 'cmp':
            if op.get('cparam'): g['c'] = op['const']; return '%s %s c' % (T, op['op']), g
            return '%s %s %r' % (T, op['op'], op['const']), g
        if k == 'isnone': return '%s %s None' % (T, op['form']), g
        if k == 'truth': return ('not ' + T) if op['neg'] else T, g
        if k == 'contains':
            if op.get('kparam'): g['kk'] = op['key']; key = 'kk'
            else: key = repr(op['key'])
            return '%s %s %s' % (key, 'not in' if op['neg'] else 'in', T), g
    A = 'x.' + op['attr']
    if k == 'aindex':
        if op.get('param'): g[op.get('pname', 'i')] = op['i']; return '%s[%s]' % (A, op.get('pname', 'i')), g
        return '%s[%d]' % (A, op['i']), g
    if k == 'aslice':
        if op.get('param'):
            g['a'], g['b'] = op['a'], op['b']; return A + '[a:b]', g
        return '%s[%s:%s]' % (A, '' if op['a'] is None else op['a'], '' if op['b'] is None else op['b']), g
    if k == 'alen': return 'len(%s)' % A, g
    if k == 'atruth': return ('not ' + A) if op['neg'] else A, g
    if k == 'ain':
        if op.get('param'): g['v'] = op['v']; v = 'v'
        else: v = repr(op['v'])
        return '%s %s %s' % (v, 'not in' if op['neg'] else 'in', A), g
    if k in ('asubset', 'aeq'):
        if op.get('param'): g['vs'] = op['vs']; v = 'vs'
        else: v = repr(op['vs'])
        if k == 'aeq': return '%s %s %s' % (A, '!=' if op['neg'] else '==', v), g
        return '%s %s %s' % (v, 'not in' if op['neg'] else 'in', A), g
    raise core.HarnessError(k)

VALUE_KINDS = ('proj', 'len', 'aindex', 'aslice', 'alen')
def is_value_op(op): return op['form'] == 'tuple' if op['kind'] == 'pair' else op['kind'] in VALUE_KINDS
def is_array_op(op): return is_array_op(op['subs'][0]) if op['kind'] == 'pair' else op['kind'].startswith('a')

def op_name(op):
    k = op['kind']
    if k == 'pair':
        if op['form'] == 'tuple': return 'two %s in one query: (%s)' % ('array items' if is_array_op(op) else 'paths', ', '.join(op_name(x) for x in op['subs']))
        return 'two paths in one query: %s' % ' and '.join(op_name(x) for x in op['subs'])
    if k == 'cmp': return 'path %s constant' % op['op'] + (' (parameter)' if op.get('cparam') else '')
    if k == 'isnone': return 'path %s None' % op['form']
    if k == 'truth': return 'if not path' if op['neg'] else 'if path'
    if k == 'proj': return 'path projected'
    if k == 'len': return 'len(path)'
    if k == 'contains': return 'key %s path' % ('not in' if op['neg'] else 'in') + (' (parameter key)' if op.get('kparam') else '')
    p = ' (parameter)' if op.get('param') else (' (text query)' if op.get('fe') == 'str' else '')
    if k == 'aindex': return 'array[i]' + p
    if k == 'aslice': return 'array[a:b]' + p
    if k == 'alen': return 'len(array)'
    if k == 'atruth': return 'if not array' if op['neg'] else 'if array'
    if k == 'ain': return 'item %s array' % ('not in' if op['neg'] else 'in') + p
    if k == 'asubset': return 'list %s array' % ('not in' if op['neg'] else 'in') + p
    if k == 'aeq': return 'array %s list' % ('!=' if op['neg'] else '==') + p
    raise core.HarnessError(k)

def json_ops(quick):
    E = KEYS + INDEXES
    P1 = [[e] for e in E]
    P2 = [[a, b] for a in E for b in E]
    if quick: P2 = [p for p in P2 if p[0] in ('a', 0)]
    out = []
    for p in P1 + P2:
        out.append(dict(kind='proj', path=p))
        out.append(dict(kind='len', path=p))
        for form, neg in (('is', False), ('is not', True), ('==', False), ('!=', True)): out.append(dict(kind='isnone', path=p, form=form, neg=neg))
        out.append(dict(kind='truth', path=p, neg=False)); out.append(dict(kind='truth', path=p, neg=True))
    for p in P1 + [[KEYS[0], e] for e in E]:
        out.append(dict(kind='proj', path=p, pparam=True))
    out.append(dict(kind='len', path=[]))
    CP = P1 + [['a', e] for e in E]
    if quick: CP = [['a'], [0], ['a', 'a'], ['a', 0], ['b c'], ['q"t'], ['1'], [-1]]
    for p in CP:
        for o in ('==', '!=', '<', '<=', '>', '>='):
            for c in CONSTS: out.append(dict(kind='cmp', path=p, op=o, const=c))
    for o in ('==', '!=', '<'):
        for c in CONSTS:
            out.append(dict(kind='cmp', path=['a'], op=o, const=c, cparam=True))
            out.append(dict(kind='cmp', path=['a'], op=o, const=c, pparam=True))
    for p in [[]] + P1:
        for key in KEYS + ['x']:
            for neg in (False, True):
                out.append(dict(kind='contains', path=p, key=key, neg=neg))
                out.append(dict(kind='contains', path=p, key=key, neg=neg, kparam=True))
    return out

# ---- two paths / two array items in ONE query -----------------------------------------------------------------
PAIR_ITEMS = dict(quick=['a', 'b c', 0, 1], thorough=['a', 'b c', '1', 0, 1, -1])
AND_KINDS = [(dict(kind='truth', neg=False), dict(kind='truth', neg=False)),
             (dict(kind='isnone', form='is not', neg=True), dict(kind='isnone', form='is', neg=False)),
             (dict(kind='cmp', op='==', const='x'), dict(kind='cmp', op='!=', const='x')),
             (dict(kind='truth', neg=True), dict(kind='isnone', form='is not', neg=True))]

def pair_paths(quick):
    E = PAIR_ITEMS['quick' if quick else 'thorough']
    return [[e] for e in E] + [[a, b] for a in ('a', 0) for b in E]

def _masks(n, quick):
    """which positions of a path of length n are external parameters: quick at most one, thorough any subset"""
    out = [m for m in itertools.product((False, True), repeat=n)]
    return [m for m in out if sum(m) <= 1] if quick else out

def _namings(p, mp, q, mq):
    """parameter names for the parametrised positions of the two paths: 'distinct' gives every occurrence its own
    name, 'shared' gives equal values one common name (only yielded when that differs from 'distinct')"""
    occ = [(0, i, p[i]) for i in range(len(p)) if mp[i]] + [(1, i, q[i]) for i in range(len(q)) if mq[i]]
    def build(names):
        a, b = [None] * len(p), [None] * len(q)
        for (w, i, v), n in zip(occ, names): (a if w == 0 else b)[i] = n
        return a, b
    yield 'distinct', build(['p%d' % j for j in range(len(occ))])
    byval, names = {}, []
    for w, i, v in occ:
        key = (type(v).__name__, v)
        if key not in byval: byval[key] = 'p%d' % len(byval)
        names.append(byval[key])
    if len(byval) < len(occ): yield 'shared', build(names)

def pair_ops(quick):
    """every unordered pair of catalogue paths (a path also with itself) x every parameter mask of both x
    {distinct, shared} parameter names x {tuple of the two projections, conjunctions of two conditions}"""
    P = pair_paths(quick)
    kinds = AND_KINDS[:2] if quick else AND_KINDS
    out = []
    for i, p in enumerate(P):
        for q in P[i:]:
            for mp in _masks(len(p), quick):
                for mq in _masks(len(q), quick):
                    if p == q and mq < mp: continue                        # the same unordered pair
                    for share, (na, nb) in _namings(p, mp, q, mq):
                        if p == q and na == nb: continue                   # one and the same expression twice
                        full = not quick and (sum(mp) > 1 or sum(mq) > 1)
                        out.append(dict(kind='pair', form='tuple', share=share,
                                        subs=[dict(kind='proj', path=p, pnames=na), dict(kind='proj', path=q, pnames=nb)]))
                        if full: continue                                  # conjunctions: at most one parameter per path
                        for k1, k2 in kinds:
                            out.append(dict(kind='pair', form='and', share=share,
                                            subs=[dict(k1, path=p, pnames=na), dict(k2, path=q, pnames=nb)]))
    return out

def array_pair_ops():
    """(x.arr[i], x.arr[j]) for i, j in {-1, 0, 2}, each index literal or parameter, parameters distinct or shared"""
    out = []
    I = (-1, 0, 2)
    for attr in ('ia', 'sa', 'fa'):
        for i in I:
            for j in I:
                for pi in (False, True):
                    for pj in (False, True):
                        for share in ('distinct', 'shared'):
                            if share == 'shared' and not (pi and pj and i == j): continue
                            if i == j and pi == pj and (share == 'shared' or not pi): continue      # the same expression twice
                            out.append(dict(kind='pair', form='tuple', share=share, attr=attr,
                                            subs=[dict(kind='aindex', attr=attr, i=i, param=pi, pname='i0'),
                                                  dict(kind='aindex', attr=attr, i=j, param=pj, pname='i0' if share == 'shared' else 'i1')]))
    return out

def array_ops():
    out = []
    for attr in ('ia', 'sa', 'fa'):
        dom = DOMAINS[attr] + [OTHER[attr]]
        for i in range(-4, 4):
            out.append(dict(kind='aindex', attr=attr, i=i)); out.append(dict(kind='aindex', attr=attr, i=i, param=True))
            out.append(dict(kind='aindex', attr=attr, i=i, fe='str'))
        B = [None] + list(range(-4, 5))
        for a in B:
            for b in B:
                out.append(dict(kind='aslice', attr=attr, a=a, b=b))
                if a in (None, -1, 1) and b in (None, -4, -1, 2): out.append(dict(kind='aslice', attr=attr, a=a, b=b, fe='str'))
        for a in (-1, 0, 2):
            for b in (-1, 0, 2): out.append(dict(kind='aslice', attr=attr, a=a, b=b, param=True))
        out.append(dict(kind='alen', attr=attr))
        for neg in (False, True):
            out.append(dict(kind='atruth', attr=attr, neg=neg))
            for v in dom:
                out.append(dict(kind='ain', attr=attr, v=v, neg=neg)); out.append(dict(kind='ain', attr=attr, v=v, neg=neg, param=True))
            for vs in [[]] + [[v] for v in dom] + [[v, w] for v in dom for w in dom]:
                out.append(dict(kind='asubset', attr=attr, vs=vs, neg=neg)); out.append(dict(kind='asubset', attr=attr, vs=vs, neg=neg, param=True))
            for vs in ([], DOMAINS[attr][:1], DOMAINS[attr][:2]):
                out.append(dict(kind='aeq', attr=attr, vs=vs, neg=neg)); out.append(dict(kind='aeq', attr=attr, vs=vs, neg=neg, param=True))
    return out

# ------------------------------------------------------------------------------------------------
# databases
def define(db, with_arrays=True):
    from pony.orm import PrimaryKey, Optional, Json, IntArray, StrArray, FloatArray
    class Doc(db.Entity):
        id = PrimaryKey(int)
        data = Optional(Json, nullable=True)
    if not with_arrays: return
    class Arr(db.Entity):
        id = PrimaryKey(int)
        ia = Optional(IntArray, nullable=True)
        sa = Optional(StrArray, nullable=True)
        fa = Optional(FloatArray, nullable=True)

_ST = {}
def state(quick, json1):
    key = (os.getpid(), quick, json1)
    st = _ST.get(key)
    if st is None:
        from pony import orm
        db = orm.Database()
        define(db)
        db.bind('sqlite', ':memory:')
        if not db.provider.json1_available: raise core.HarnessError('SQLite without JSON1')
        if not json1: db.provider.json1_available = False      # per provider instance: the builders read it for every statement
        db.generate_mapping(create_tables=True)
        docs = documents(quick)
        arrs = [arrays(DOMAINS[a]) for a in ('ia', 'sa', 'fa')]
        with orm.db_session:
            for i, d in enumerate(docs): db.Doc(id=i + 1, data=d)
            for i in range(len(arrs[0])): db.Arr(id=i + 1, ia=arrs[0][i], sa=arrs[1][i], fa=arrs[2][i])
        with orm.db_session:
            back = dict(orm.select((x.id, x.data) for x in db.Doc)[:])
            for i, d in enumerate(docs):
                b = back[i + 1]
                if not ((b is None and d is None) or (b is not None and d is not None and jeq(b, d))): raise core.HarnessError('document %r reads back as %r' % (d, b))
            aback = {r[0]: r[1:] for r in orm.select((x.id, x.ia, x.sa, x.fa) for x in db.Arr)[:]}
            for i in range(len(arrs[0])):
                if list(map(_l, aback[i + 1])) != [arrs[0][i], arrs[1][i], arrs[2][i]]: raise core.HarnessError('array row %d reads back as %r' % (i + 1, aback[i + 1]))
        st = _ST[key] = dict(db=db, docs=docs, arrs=arrs, n=0)
    return st
def _l(v): return None if v is None else list(v)

def query(st, op, lo, hi):
    """answers for the rows lo <= id < hi: dict id -> value (value operations) or set of ids (boolean)"""
    from pony import orm
    expr, g = op_text(op)
    ent = 'Arr' if is_array_op(op) else 'Doc'
    g = dict(g, lo=lo, hi=hi)
    g[ent] = getattr(st['db'], ent)
    if is_value_op(op): text = '(x.id, %s) for x in %s if x.id >= lo and x.id < hi' % (expr, ent)
    else: text = 'x.id for x in %s if x.id >= lo and x.id < hi and (%s)' % (ent, expr)
    with orm.db_session:
        if op.get('fe') == 'str': q = orm.select(text, g, {})
        else:
            # generator front end: the code object is compiled once per text so that Pony's caches are keyed as in a program
            code = _CODE.get(text)
            if code is None: code = _CODE[text] = compile('(' + text + ')', '<c29>', 'eval')
            q = orm.select(eval(code, g), g, {})
        r = q[:]
    if op['kind'] == 'pair' and op['form'] == 'tuple': return {row[0]: tuple(row[1:]) for row in r}
    return dict(r) if is_value_op(op) else set(r)
_CODE = {}

def answers(st, op, lo, hi, out, refused):
    st['n'] += 1
    try: r = query(st, op, lo, hi)
    except core.HarnessError: raise
    except Exception as e:
        if hi - lo <= 1:
            n = type(e).__name__
            refused[lo] = 'TypeError/OperationalError' if n in ('TypeError', 'OperationalError') else n
            return
        step = max(1, (hi - lo + 7) // 8)
        for a in range(lo, hi, step): answers(st, op, a, min(hi, a + step), out, refused)
        return
    if isinstance(r, dict): out.update(r)
    else:
        for i in range(lo, hi): out[i] = i in r

def same_value(e, g):
    if e is None or g is None: return e is None and g is None
    if isinstance(g, tuple): g = list(g)
    return jeq(e, g)

def and3(es):
    """conjunction of expectations"""
    if NOANS in es: return NOANS
    if any(e is False for e in es): return False
    if all(e is True for e in es): return True
    return EITHER

def verdict(op, doc, present, got, arr):
    """None (agrees) | 'skip:<counter>' | failure kind"""
    if op['kind'] == 'pair' and op['form'] == 'tuple':
        if not present: return 'row missing from the projection'
        if not isinstance(got, tuple) or len(got) != len(op['subs']): return 'wrong number of items'
        ks = [verdict(x, doc, True, g, arr) for x, g in zip(op['subs'], got)]
        bad = [(i, k) for i, k in enumerate(ks) if k is not None and not k.startswith('skip:')]
        if bad: return 'item %d: %s' % (bad[0][0] + 1, bad[0][1])
        if all(k is not None for k in ks): return ks[0]
        return None
    if is_value_op(op):
        if not present: return 'row missing from the projection'
        exp = a_expect_value(op, doc) if arr else expect_value(op, doc)
        if exp[0] == 'any': return 'skip:python_has_no_answer'
        if exp[0] == 'vs': return None if any(same_value(e, got) for e in exp[1]) else 'wrong value'
        if same_value(exp[1], got): return None
        if got is None: return 'None for a present value'
        if exp[1] is None: return 'value for a missing path / null'
        return 'wrong value'
    if op['kind'] == 'pair': exp = and3([expect_bool(x, doc) for x in op['subs']])
    else: exp = a_expect_bool(op, doc) if arr else expect_bool(op, doc)
    if exp == NOANS: return 'skip:python_has_no_answer'
    if exp == EITHER: return 'skip:not_fixed_by_the_statement:' + ('selected' if got else 'not selected')
    if exp is True and not got: return 'not selected but the Python expression is true'
    if exp is False and got: return 'selected but the Python expression is not true'
    return None

def judge(sub, st, op, json1):
    """run one operation over every row and compare"""
    arr = is_array_op(op)
    nrows = len(st['arrs'][0]) if arr else len(st['docs'])
    out, refused = {}, {}
    answers(st, op, 1, nrows + 1, out, refused)
    name = op_name(op)
    pair = op['kind'] == 'pair'
    okrows = 0
    for i in range(1, nrows + 1):
        sub.count('evaluations')
        if arr:
            doc = st['arrs'][('ia', 'sa', 'fa').index(op['attr'])][i - 1]
            vc = 'NULL' if doc is None else ('empty array' if not doc else 'array')
        else:
            doc = st['docs'][i - 1]
            if pair: vc = ' ; '.join(vclass(*trav(doc, x['path'])) for x in op['subs'])
            else: vc = vclass(*trav(doc, op.get('path', ())))
        if i in refused:
            sub.count('refused'); sub.count('refused_by_exception:' + refused[i]); sub.count('refused_at:%s json1=%s' % (op['kind'], 'on' if json1 else 'off'))
            continue
        sub.count('answered')
        got = out.get(i)
        kind = verdict(op, doc, i in out, got, arr)
        if kind is not None and kind.startswith('skip:'):
            sub.count(kind[5:]); continue
        if kind is None:
            sub.count('agreed'); okrows += 1
            if vc not in ('missing', 'NULL', 'missing ; missing'):
                sub.count('nontrivial')
                if pair: sub.count('nontrivial_pairs')
            continue
        sub.count('disagreed')
        expr, g = op_text(op)
        why = None if pair else explain(op, doc, got, arr)
        if why is not None:
            sig = dict(explained=why, op=name + ('' if op['kind'] != 'cmp' else ' <%s>' % tclass(op['const'])), json1='on' if json1 else 'off', value=vc)
            sub.violation(json.dumps(sig, sort_keys=True), dict(op=op, json1=json1, row=i, doc=doc, quick=st['quick']),
                          '%s %r on %s (json1=%s): %s; got %r' % (expr, g, json.dumps(doc), json1, kind, got))
            continue
        sig = dict(op=name, const=tclass(op['const']) if op['kind'] == 'cmp' else '-', json1='on' if json1 else 'off', kind=kind,
                   path=('%s array' % {'ia': 'Int', 'sa': 'Str', 'fa': 'Float'}[op['attr']]) if arr else pair_pclass(op) if pair else pclass(op), value=vc)
        sub.violation(json.dumps(sig, sort_keys=True), dict(op=op, json1=json1, row=i, doc=doc, quick=st['quick']),
                      '%s %r on %s (json1=%s): %s; got %r' % (expr, g, json.dumps(doc), json1, kind, got))
    return okrows

def work(task):
    quick, json1, idxs = task
    ops = all_ops(quick)
    sub = core.Sub()
    used = {}
    for i in idxs:
        op = ops[i]
        # two-operation queries run over the quick document set in both tiers (their space is wide in operations, not documents)
        st = state(quick or op['kind'] == 'pair', json1)
        st['quick'] = quick
        used[id(st)] = st
        sub.count('operations')
        if op['kind'] == 'pair': sub.count('pair_operations')
        judge(sub, st, op, json1)
        if (i % 211 == 0 or (op['kind'] == 'pair' and i % 97 == 0)) and len(sub.samples) < 2:
            expr, g = op_text(op)
            sub.sample(dict(operation=expr, parameters=g, json1=json1, rows=len(st['docs'])))
    for st in used.values():
        sub.count('queries', st['n']); st['n'] = 0
    return sub.dump()

_OPS = {}
def all_ops(quick):
    if quick not in _OPS: _OPS[quick] = json_ops(quick) + array_ops() + pair_ops(quick) + array_pair_ops()
    return _OPS[quick]

# ---- other dialects: rendering only -----------------------------------------------------------------
INTERNAL = ('AssertionError', 'AttributeError', 'KeyError', 'IndexError', 'UnboundLocalError', 'NameError', 'RecursionError', 'ZeroDivisionError')
def render(task):
    quick, dialect = task
    from vf.engines import dm
    from pony import orm
    sub = core.Sub()
    db = dm.capture_database(dialect)
    define(db, with_arrays=dialect != 'mysql')       # MySQL: "Array type is not supported" at mapping time (documented refusal)
    db.generate_mapping()
    for op in all_ops(quick):
        if dialect == 'mysql' and is_array_op(op):
            sub.count('render_refused:mysql:arrays are not supported'); continue
        expr, g = op_text(op)
        ent = 'Arr' if is_array_op(op) else 'Doc'
        g = dict(g); g[ent] = getattr(db, ent)
        text = ('(x.id, %s) for x in %s' % (expr, ent)) if is_value_op(op) else ('x.id for x in %s if %s' % (ent, expr))
        sub.count('rendered_only:' + dialect)
        try:
            with orm.db_session: sql = orm.select(text, g, {}).get_sql()
        except Exception as e:
            n = type(e).__name__
            sub.count('render_refused:%s:%s' % (dialect, n))
            if n in INTERNAL:
                sig = dict(explained='%s: internal %s while the SQL is rendered' % (dialect, n), op=op_name(op), json1=dialect, value='-')
                sub.violation(json.dumps(sig, sort_keys=True), dict(op=op, dialect=dialect), '%s on %s: %s %s' % (text, dialect, n, e))
            continue
        sub.count('undecided:sql rendered for ' + dialect)
    return sub.dump()

# ------------------------------------------------------------------------------------------------
def merge_signatures(ctx):
    groups, egroups = {}, {}
    for sig, e in ctx.found.items():
        d = json.loads(sig)
        if 'explained' in d:
            g = egroups.setdefault(d['explained'], dict(ops=set(), j1=set(), values=set(), n=0, first=None))
            g['ops'].add(d['op']); g['j1'].add(d['json1']); g['values'].add(d['value']); g['n'] += e['n']
            if g['first'] is None or sig < g['first'][0]: g['first'] = (sig, e)
            continue
        g = groups.setdefault((d['op'], d['const'], d['json1'], d['kind']), dict(paths=set(), values=set(), n=0, first=None))
        g['paths'].add(d['path']); g['values'].add(d['value']); g['n'] += e['n']
        if g['first'] is None or sig < g['first'][0]: g['first'] = (sig, e)
    found = {}
    for why, g in egroups.items():
        s = '%s {operations: %s} {json1: %s} {values: %s}' % (why, ' | '.join(sorted(g['ops'])), ', '.join(sorted(g['j1'])), ', '.join(sorted(g['values'])))
        e = g['first'][1]
        found[s] = dict(case=e['case'], message=e['message'], n=g['n'])
    for (op, const, j1, kind), g in groups.items():
        s = '%s%s [json1 %s]: %s {paths: %s} {values: %s}' % (op, '' if const == '-' else ' <%s>' % const, j1, kind,
                                                               ' | '.join(sorted(g['paths'])), ', '.join(sorted(g['values'])))
        e = g['first'][1]
        found[s] = dict(case=e['case'], message=e['message'], n=g['n'])
    ctx.found = found

def run(ctx):
    quick = ctx.quick
    ops = all_ops(quick)
    docs = documents(quick)
    tasks = []
    size = 12 if quick else 24
    idx = list(range(len(ops)))
    for json1 in (True, False):
        order = ctx.shuffled(idx)
        for i in range(0, len(order), size): tasks.append((quick, json1, sorted(order[i:i + size])))
    for d in ctx.pmap(work, ctx.shuffled(tasks)): core.absorb(ctx, d)
    for d in ctx.pmap(render, [(quick, 'postgres'), (quick, 'mysql')]): core.absorb(ctx, d)
    merge_signatures(ctx)
    c = ctx.counters
    ev = c.get('evaluations', 0)
    ctx.cov['documents'] = len(docs)
    ctx.cov['array_rows'] = len(arrays(DOMAINS['ia']))
    ctx.cov['operations'] = len(ops)
    ctx.cov['json_operations'] = len(json_ops(quick))
    ctx.cov['array_operations'] = len(array_ops())
    ctx.cov['pair_operations'] = len(pair_ops(quick))
    ctx.cov['pair_operations_sharing_a_parameter_name'] = sum(1 for o in pair_ops(quick) if o['share'] == 'shared')
    ctx.cov['array_pair_operations'] = len(array_pair_ops())
    ctx.guard('documents', len(docs), 200 if quick else 2500)
    ctx.guard('evaluations', ev, 100000)
    ctx.guard('percent of evaluations answered', int(100.0 * c.get('answered', 0) / max(1, ev)), 50)
    ctx.guard('agreements on a present value', c.get('nontrivial', 0), 20000)
    ctx.guard('agreements of two-path queries on a present value', c.get('nontrivial_pairs', 0), 50000)
    ctx.guard('operations run with the Python fallback', c.get('operations', 0), 2 * len(ops))
    ctx.assume('SQLite 3.40 with JSON1; the fallback path is selected by provider.json1_available = False on the provider instance of a second Database')
    ctx.assume('documents and arrays are stored through Pony and read back equal before any operation is judged (C07 covers storage)')
    ctx.assume('typed three-valued oracle: missing / null is None, comparisons with None are unknown, != with None and bool-vs-number equality, bool ordering and `in` on a string value accept both answers; where Python raises any answer is accepted')
    ctx.assume('PostgreSQL and MySQL JSON / array SQL is only rendered through the capture database: undecided')
    return dict(evaluations=ev, distinct_nontrivial=c.get('nontrivial', 0),
                rule='one evaluation = one operation on one stored document / array row under one json1 setting (operations x rows x 2); '
                     'distinct_nontrivial counts the evaluations Pony answered, Python has an answer for, that agree and whose path holds a value')

def replay(ctx, case):
    if 'dialect' in case:
        d = render((True, case['dialect']))
        return not d['found']
    op, json1 = case['op'], case['json1']
    from pony import orm
    db = orm.Database()
    define(db)
    db.bind('sqlite', ':memory:')
    if not json1: db.provider.json1_available = False
    db.generate_mapping(create_tables=True)
    doc = case['doc']
    with orm.db_session:
        if is_array_op(op): db.Arr(id=1, **{op['attr']: doc})
        else: db.Doc(id=1, data=doc)
    st = dict(db=db, n=0)
    expr, g = op_text(op)
    print('operation:', expr, g, 'json1 =', json1, 'document =', json.dumps(doc))
    try: r = query(st, op, 1, 2)
    except Exception as e:
        print('refused  :', type(e).__name__, e); return True
    print('sql      :', db.last_sql.replace('\n', ' '))
    arr = is_array_op(op)
    k = verdict(op, doc, 1 in r, r.get(1) if isinstance(r, dict) else (1 in r), arr)
    print('answer   :', r.get(1) if isinstance(r, dict) else (1 in r), ' verdict:', k or 'agrees')
    return k is None or k.startswith('skip:')
