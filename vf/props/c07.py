"""C07 Stored attribute values read back unchanged for every type.

Bounded-exhaustive product: attribute declarations (every basic type x the option that changes the
converter: int size/unsigned, Decimal precision/scale, str max_len/autostrip/nullable/LongStr,
time/datetime/timedelta precision 0..6, Required/Optional) x a boundary value grid per type
(vf/props/_c07_grids.py) x two write paths (INSERT of a new object, UPDATE of a loaded one).

SQLite part (real engine, differential oracle - Pony against Pony):
  session 1   create (or load + assign) and flush(); `seen` = the attribute value the program reads
              after the flush;
  fresh sessions read the row back through five independent paths that all must agree with `seen`:
    pk          E[1].a                                   (row -> sql2py -> dbval2val)
    proj        select(x.a for x in E if x.id == 1)      (translator row layout converter)
    query       select(x.id for x in E if x.a == seen)   (query parameter: val2dbval + py2sql, no attr)
    get         E.get(a=seen)                            (entity finder: the attribute's own converter)
    optimistic  read E[1].a, change another attribute, commit: the optimistic check re-sends the
                loaded dbval as a parameter and must still find the row
  lazy=True variant of every type (Required and Optional; entity with the same declaration twice, `a` lazy
  and `c` eager): the object is loaded WITHOUT the lazy column in a fresh session and the attribute is
  fetched on first access (Attribute.load -> db_set) through three paths - lazy-pk E[1].a, lazy-query
  select(x for x in E if x.id == 1)[:][0].a, lazy-load o.load(E.a); o.a - each must equal `seen` (a
  disagreement that the eager twin `c` shows identically is the eager read's, judged above).
  A value Pony refuses (constructor raises, flush raises, query form not translatable) is counted,
  never judged: the property quantifies over accepted values only. NaN has no equality: not judged.

Codec part (pure Python code of the PostgreSQL / MySQL providers on stub drivers, vf.engines.dm):
  timedelta2str o str2timedelta (also through MySQL's documented TIME text format), MySQL's
  str2datetime on the documented DATETIME(fsp) text, MySQLTimeConverter timedelta->time mapping,
  datetime2timestamp o timestamp2datetime (SQLite text form, all fraction lengths), precision
  truncation of time/datetime/timedelta for precision 0..6, and validate -> val2dbval -> py2sql ->
  [driver hands the same Python object back] -> sql2py -> dbval2val for every converter of both
  providers over the same grids.

Signature = dialect : type family : value class : set of (observer = kind of disagreement).
"""
import os, warnings, decimal
from datetime import date, time, datetime, timedelta
from decimal import Decimal
from uuid import UUID
from vf import core
from vf.props import _c07_grids as G

LEVEL = 'exploration'
CHUNK = 150

# ---- building the model under test ---------------------------------------------------------------
def _types():
    from pony import orm
    return dict(bool=bool, int=int, float=float, Decimal=Decimal, str=str, LongStr=orm.LongStr, bytes=bytes,
                date=date, time=time, datetime=datetime, timedelta=timedelta, UUID=UUID, Json=orm.Json,
                IntArray=orm.IntArray, StrArray=orm.StrArray, FloatArray=orm.FloatArray)

def define(db, specs):
    from pony import orm
    T = _types()
    for spec in specs:
        cls = getattr(orm, spec['kind'])
        if spec.get('lazy'):
            type(spec['name'], (db.Entity,), dict(
                id=orm.PrimaryKey(int),
                a=cls(T[spec['tkey']], *spec['args'], lazy=True, **spec['kw']),
                c=cls(T[spec['tkey']], *spec['args'], lazy=False, **spec['kw']),
                b=orm.Optional(int)))
            continue
        type(spec['name'], (db.Entity,), dict(
            id=orm.PrimaryKey(int),
            a=cls(T[spec['tkey']], *spec['args'], **spec['kw']),
            b=orm.Optional(int)))

_PROC = {}
_SPECS = {}
def spec_by_name(name):
    if not _SPECS:
        _SPECS.update((s['name'], s) for s in G.specs())
        _SPECS.update((s['name'], s) for s in G.lazy_specs())
    return _SPECS[name]

def sqlite_db(name):
    """One small in-memory database per (process, declaration): a forked child must not reuse the
    parent's connection, and building only what a work item needs keeps start-up negligible."""
    key = ('sqlite', name, os.getpid())
    if key not in _PROC:
        from pony import orm
        warnings.simplefilter('ignore')
        db = orm.Database()
        define(db, [spec_by_name(name)])
        db.bind('sqlite', ':memory:')
        db.generate_mapping(create_tables=True)
        _PROC[key] = db
    return _PROC[key]

def supported(dialect, spec):
    return not (dialect == 'mysql' and spec['family'].endswith('Array'))    # Pony: no arrays on MySQL

def capture_db(dialect, name):
    key = (dialect, name, os.getpid())
    if key not in _PROC:
        from vf.engines import dm
        warnings.simplefilter('ignore')
        db = dm.capture_database(dialect)
        if dialect == 'mysql':
            db.provider.max_time_precision = 6      # MySQL >= 5.6.4 (set by inspect_connection on a live server)
        define(db, [spec_by_name(name)])
        db.generate_mapping()
        _PROC[key] = db
    return _PROC[key]

# ---- comparing two observations --------------------------------------------------------------------
EXPECTED = dict(bool=bool, int=int, float=float, Decimal=Decimal, str=str, bytes=bytes, date=date, time=time,
                datetime=datetime, timedelta=timedelta, UUID=UUID, IntArray=list, StrArray=list, FloatArray=list)

def plain(v):
    """Strip Pony's change-tracking wrappers; the observable value is what is compared."""
    if hasattr(v, 'get_untracked'): return v.get_untracked()
    if isinstance(v, list) and type(v) is not list: return [plain(i) for i in v]
    return v

def float_eq(a, b, tol=1e-14):
    if a == b: return True
    if a != a or b != b: return False
    m = max(abs(a), abs(b))
    if m in (G.inf,): return False
    return abs(a - b) / m <= tol

def json_eq(a, b):
    if isinstance(a, bool) or isinstance(b, bool): return isinstance(a, bool) and isinstance(b, bool) and a == b
    if isinstance(a, (int, float)) and isinstance(b, (int, float)): return a == b
    if isinstance(a, dict): return isinstance(b, dict) and set(a) == set(b) and all(json_eq(a[k], b[k]) for k in a)
    if isinstance(a, (list, tuple)):
        return isinstance(b, (list, tuple)) and len(a) == len(b) and all(json_eq(x, y) for x, y in zip(a, b))
    return type(a) is type(b) and a == b

def _quantized(d, scale, rounding):
    with decimal.localcontext() as c:
        c.prec = 200
        return d.quantize(Decimal(10) ** -scale, rounding=rounding)

def diff(spec, seen, got):
    """None when `got` equals `seen`, else a short stable name for the kind of disagreement."""
    f = spec['family']
    if seen is None or got is None:
        if seen is None and got is None: return None
        return 'None instead of a value' if got is None else 'a value instead of None'
    if f == 'Json':
        if json_eq(seen, got): return None
        if isinstance(seen, int) and isinstance(got, float): return 'int read as a different float'
        return 'different value'
    et = EXPECTED[f]
    if not isinstance(got, et) or (f == 'date' and isinstance(got, datetime)):
        note = ''
        if isinstance(got, str):
            note = ' (other text)'
            if f == 'time' and isinstance(seen, time) and got == seen.isoformat(): note = ' (its ISO text)'
            if f == 'date' and isinstance(seen, date) and got == '%d-%02d-%02d' % (seen.year, seen.month, seen.day):
                note = ' (ISO text, year not zero-padded)'
        return 'type %s instead of %s%s' % (type(got).__name__, et.__name__, note)
    if f == 'float':
        return None if float_eq(seen, got) else 'different value'
    if f == 'FloatArray':
        ok = len(seen) == len(got) and all(isinstance(y, (int, float)) and float_eq(x, y) for x, y in zip(seen, got))
        return None if ok else 'different value'
    if f == 'Decimal':
        if not isinstance(seen, Decimal): return 'different value'
        if seen == got: return None
        s = G.decimal_ps(spec)[1]
        if seen.is_finite() and got.is_finite():
            q = _quantized(seen, s, decimal.ROUND_HALF_EVEN)
            if got == q: return 'equals the seen value rounded half-even to the declared scale'
            try:
                if got == _quantized(Decimal(repr(float(q))), s, decimal.ROUND_HALF_EVEN) or float(got) == float(q):
                    return 'equals the seen value squeezed through a 64-bit float'
            except Exception: pass
        return 'different value'
    if f == 'timedelta' and seen != got:
        a, b = to_us(seen), to_us(got)
        if abs(a - b) <= max(abs(a), abs(b)) * 2.0 ** -51: return 'equals the seen value within the resolution of a 64-bit float day count'
    return None if seen == got else 'different value'

def to_us(v):
    if isinstance(v, datetime): return (v - datetime(1, 1, 1)) // timedelta(microseconds=1)
    if isinstance(v, time): return ((v.hour * 60 + v.minute) * 60 + v.second) * 10 ** 6 + v.microsecond
    if isinstance(v, timedelta): return v // timedelta(microseconds=1)
    raise TypeError(v)

def precision_kind(p, written, seen):
    """Reference for precision handling (documented: `precision` = digits kept after the decimal
    point of the seconds): the stored value has at most p fractional digits, is less than one unit of
    the last kept digit away from the written one, and is unchanged when nothing had to go.
    Rounding and truncation are both accepted."""
    if type(written) is not type(seen): return 'type changed'
    step = 10 ** (6 - p)
    w, s = to_us(written), to_us(seen)
    if s % step: return 'more fractional digits than the declared precision'
    if w % step == 0 and s != w: return 'representable value changed'
    if abs(s - w) >= step: return 'moved by a unit or more of the last kept digit'
    return None

# ---- one SQLite case ---------------------------------------------------------------------------------
REFUSED = 'refused'

def _session1(E, spec, v, entry, base):
    """-> ('rejected'|'refused-at-flush', exc name) | ('seen', value)"""
    from pony.orm import db_session, flush, rollback
    db = E._database_
    with db_session:
        db.execute('delete from %s' % db.provider.quote_name(E._table_))
    if entry == 'update':
        with db_session:
            E(id=1, a=base)
    with db_session:
        try:
            if entry == 'create': o = E(id=1, a=v)
            else:
                o = E[1]
                o.a = v
        except Exception as e:
            rollback()
            return 'rejected', type(e).__name__
        try:
            flush()
            return 'seen', plain(o.a)
        except Exception as e:
            rollback()
            return 'refused-at-flush', type(e).__name__

def _observe(E, spec, seen):
    """-> dict observer -> ('value', v) | ('found', bool) | ('exc', name)"""
    from pony.orm import db_session, select, rollback
    out = {}
    def run(name, f):
        try:
            with db_session:
                try: out[name] = f()
                except Exception: rollback(); raise
        except Exception as e:
            out[name] = ('exc', type(e).__name__)
    run('pk', lambda: ('value', plain(E[1].a)))
    def proj():
        rows = select(x.a for x in E if x.id == 1)[:]
        if len(rows) != 1: return ('exc', 'rows=%d' % len(rows))
        return ('value', plain(rows[0]))
    run('proj', proj)
    run('query', lambda: ('found', 1 in select(x.id for x in E if x.a == seen)[:]))
    def get():
        o = E.get(a=seen)
        return ('found', o is not None and o.id == 1)
    run('get', get)
    def optimistic():
        o = E[1]
        o.a
        o.b = 7
        return ('found', True)
    run('optimistic', optimistic)
    return out

BASE = dict(bool=True, int=2, float=2.5, Decimal=Decimal('2.5'), str='bs', bytes=b'base', date=date(2001, 2, 3),
            time=time(1, 2, 3), datetime=datetime(2001, 2, 3, 4, 5, 6), timedelta=timedelta(1, 2), UUID=UUID(int=77),
            Json={'base': 1}, IntArray=[7], StrArray=['base'], FloatArray=[7.5])

def sqlite_case(spec, v):
    """-> (status, seen, failures{label: kind}, counters, detail)"""
    db = sqlite_db(spec['name'])
    E = db.entities[spec['name']]
    f = spec['family']
    counters, per_entry, detail, seen_any, status = {}, {}, {}, None, None
    def cnt(k): counters[k] = counters.get(k, 0) + 1
    for entry in ('create', 'update'):
        st, seen = _session1(E, spec, v, entry, BASE[f])
        if st != 'seen':
            cnt('%s:%s' % (st, seen)); status = status or st
            continue
        status, seen_any = 'seen', seen
        vc = G.vclass(spec, seen)
        if vc in ('nan', 'contains nan'):
            cnt('not_judged:nan'); continue
        fails = {}
        if f in ('time', 'datetime', 'timedelta') and isinstance(v, EXPECTED[f]):
            k = precision_kind(G.precision_of(spec), v, seen)
            cnt('precision_checks')
            if k: fails['written'] = k
        obs = _observe(E, spec, seen)
        for name in ('pk', 'proj'):
            kind, val = obs[name]
            cnt('read_compared')
            if kind == 'exc':
                if name == 'proj' and val in ('TypeError', 'TranslationError', 'NotImplementedError'):
                    cnt('refused:proj:' + val); continue
                fails[name] = 'raises ' + val
            else:
                d = diff(spec, seen, val)
                if d: fails[name] = d; detail[entry + ':' + name] = repr(val)[:120]
        for name in ('query', 'get', 'optimistic'):
            kind, val = obs[name]
            if kind == 'exc':
                if name == 'optimistic':
                    cnt('optimistic_checked'); fails[name] = 'raises ' + val
                else: cnt('refused:%s:%s' % (name, val))
            else:
                cnt('optimistic_checked' if name == 'optimistic' else 'param_lookups_judged')
                if not val: fails[name] = 'row not found'
        per_entry[entry] = fails
    if not per_entry: return status, seen_any, {}, counters, detail
    c, u = per_entry.get('create', {}), per_entry.get('update', {})
    if c == u or not u: merged = dict(c)
    elif not c: merged = dict(('update:' + k, x) for k, x in u.items())
    else:
        merged = dict(('create:' + k, x) for k, x in c.items())
        merged.update(('update:' + k, x) for k, x in u.items())
    return status, seen_any, merged, counters, detail

# ---- lazy attributes: first-access fetch ---------------------------------------------------------------
def _lazy_session1(E, v, entry, base):
    from pony.orm import db_session, flush, rollback
    db = E._database_
    with db_session:
        db.execute('delete from %s' % db.provider.quote_name(E._table_))
    if entry == 'update':
        with db_session:
            E(id=1, a=base, c=base)
    with db_session:
        try:
            if entry == 'create': o = E(id=1, a=v, c=v)
            else:
                o = E[1]            # loaded without the lazy column
                o.a = v
                o.c = v
        except Exception as e:
            rollback()
            return 'rejected', type(e).__name__
        try:
            flush()
            return 'seen', plain(o.a)
        except Exception as e:
            rollback()
            return 'refused-at-flush', type(e).__name__

def same_plain(a, b):
    """two observations of the same session are the same Python value (type and content)"""
    if type(a) is not type(b): return False
    if isinstance(a, dict): return set(a) == set(b) and all(same_plain(a[k], b[k]) for k in a)
    if isinstance(a, (list, tuple)): return len(a) == len(b) and all(same_plain(x, y) for x, y in zip(a, b))
    return a == b

LAZY_OBSERVERS = ('lazy-pk', 'lazy-query', 'lazy-load')
def _lazy_observe(E):
    """-> dict observer -> ('value', lazy value, eager twin value, fetched by its own SELECT) | ('exc', name, stage)"""
    from pony.orm import db_session, select, rollback
    db = E._database_
    out = {}
    def run(name, get_obj, explicit):
        stage = 'object load'
        try:
            with db_session:
                try:
                    o = get_obj()
                    eager = plain(o.c)
                    sql0 = db.last_sql
                    stage = 'lazy fetch'
                    if explicit: o.load(E.a)
                    val = plain(o.a)
                    out[name] = ('value', val, eager, db.last_sql != sql0)
                except Exception: rollback(); raise
        except Exception as e:
            out[name] = ('exc', type(e).__name__, stage)
    run('lazy-pk', lambda: E[1], False)
    run('lazy-query', lambda: select(x for x in E if x.id == 1)[:][0], False)
    run('lazy-load', lambda: E[1], True)
    return out

def lazy_case(spec, v):
    """-> (status, seen, failures{observer: kind}, counters, detail)"""
    db = sqlite_db(spec['name'])
    E = db.entities[spec['name']]
    f = spec['family']
    counters, per_entry, detail, seen_any, status = {}, {}, {}, None, None
    def cnt(k): counters[k] = counters.get(k, 0) + 1
    for entry in ('create', 'update'):
        st, seen = _lazy_session1(E, v, entry, BASE[f])
        if st != 'seen':
            cnt('lazy_%s:%s' % (st, seen)); status = status or st
            continue
        status, seen_any = 'seen', seen
        if G.vclass(spec, seen) in ('nan', 'contains nan'):
            cnt('not_judged:nan'); continue
        fails = {}
        for name, ob in sorted(_lazy_observe(E).items()):
            if ob[0] == 'exc':
                if ob[2] == 'object load': cnt('lazy_not_judged:eager twin unreadable (%s)' % ob[1])
                else:
                    cnt('lazy_reads_compared'); fails[name] = 'raises ' + ob[1]
                continue
            _, val, eager, fetched = ob
            cnt('lazy_reads_compared')
            if fetched: cnt('lazy_fetch_confirmed')
            else: fails[name] = 'no separate fetch: the lazy column came with the object'
            d = diff(spec, seen, val)
            if d is None: continue
            if same_plain(eager, val):
                cnt('lazy_same_as_eager_disagreement'); continue    # the eager read's own (known) disagreement
            fails[name] = d; detail[entry + ':' + name] = repr(val)[:120]
        per_entry[entry] = fails
    if not per_entry: return status, seen_any, {}, counters, detail
    c, u = per_entry.get('create', {}), per_entry.get('update', {})
    if c == u or not u: merged = dict(c)
    elif not c: merged = dict(('update:' + k, x) for k, x in u.items())
    else:
        merged = dict(('create:' + k, x) for k, x in c.items())
        merged.update(('update:' + k, x) for k, x in u.items())
    return status, seen_any, merged, counters, detail

def lazy_chunk(item):
    name, encs = item
    sub = core.Sub()
    spec = spec_by_name(name)
    for e in encs:
        v = G.dec(e)
        status, seen, fails, counters, detail = lazy_case(spec, v)
        for k, n in counters.items(): sub.count(k, n)
        sub.count('lazy_cases')
        if status != 'seen': continue
        sub.count('lazy_cases_accepted')
        sub.count('lazy_accepted:' + spec['family'] + (' (LongStr)' if spec['tag'] == 'long' else ''))
        if fails:
            fam = spec['family'] + (' (LongStr)' if spec['tag'] == 'long' else '')
            sig = 'sqlite:lazy attribute:%s:%s:%s' % (fam, G.vclass(spec, seen), '; '.join('%s=%s' % kv for kv in sorted(fails.items())))
            sub.violation(sig, dict(part='lazy', spec=name, decl=spec['decl'], value=e),
                          'sqlite %s: wrote %s, program saw %s after flush; first access in a fresh session: %s %s'
                          % (spec['decl'], e[:80], repr(seen)[:80], '; '.join('%s: %s' % kv for kv in sorted(fails.items())), detail or ''))
    return sub.dump()

ROUNDED = 'equals the seen value rounded half-even to the declared scale'

def fold_consequences(spec, fails):
    """Minimal shape: when both reads return exactly the seen Decimal rounded to the declared scale, a
    failing look-up *by the unrounded seen value* is the same disagreement observed once more (whether
    SQLite's numeric comparison happens to match depends on float rounding of the parameter text); it is
    folded into the read disagreement instead of multiplying signatures."""
    if spec['family'] == 'Decimal' and fails.get('pk') == ROUNDED and fails.get('proj') == ROUNDED:
        return dict((k, v) for k, v in fails.items() if not (k in ('query', 'get') and v == 'row not found'))
    return fails

def signature(dialect, spec, seen, fails):
    vc = G.vclass(spec, seen)
    if spec['family'] == 'Decimal' and isinstance(seen, Decimal):
        facts = G.decimal_facts(spec, seen)     # name the fact that matches the kind of disagreement
        if G.FRAC in facts and ROUNDED in fails.values(): vc = G.FRAC
    fam = spec['family'] + (' (LongStr)' if spec['tag'] == 'long' else '')
    if vc in ('None', 'empty'): fam = '%s %s' % (spec['kind'], fam)
    return '%s:%s:%s:%s' % (dialect, fam, vc, '; '.join('%s=%s' % kv for kv in sorted(fails.items())))

def sqlite_chunk(item):
    name, encs = item
    sub = core.Sub()
    spec = spec_by_name(name)
    for e in encs:
        v = G.dec(e)
        status, seen, fails, counters, detail = sqlite_case(spec, v)
        for k, n in counters.items(): sub.count(k, n)
        sub.count('sqlite_cases')
        if status != 'seen': continue
        sub.count('sqlite_cases_accepted')
        sub.count('accepted:' + spec['family'])
        if len(sub.samples) < 1 and spec['family'] in ('Decimal', 'datetime', 'Json'):
            sub.sample(dict(part='sqlite', decl=spec['decl'], written=e, seen_after_flush=repr(seen)[:80]))
        if fails:
            folded = fold_consequences(spec, fails)
            if folded != fails: sub.count('consequences_folded')
            sub.violation(signature('sqlite', spec, seen, folded),
                          dict(part='sqlite', spec=name, decl=spec['decl'], value=e),
                          'sqlite %s: wrote %s, program saw %s after flush; %s %s'
                          % (spec['decl'], e[:80], repr(seen)[:80],
                             '; '.join('%s: %s' % kv for kv in sorted(fails.items())), detail or ''))
    return sub.dump()

# ---- codec part --------------------------------------------------------------------------------------
def mysql_time_text(td, fsp):
    """MySQL reference manual, 'The TIME Type': values are displayed as 'hh:mm:ss' or 'hhh:mm:ss' with an
    fsp-digit fraction; range -838:59:59 .. 838:59:59 (model-based)."""
    us = td // timedelta(microseconds=1)
    sign = '-' if us < 0 else ''
    us = abs(us)
    s, frac = divmod(us, 10 ** 6)
    text = '%s%02d:%02d:%02d' % (sign, s // 3600, s // 60 % 60, s % 60)
    if fsp: text += '.' + ('%06d' % frac)[:fsp]
    return text

def mysql_datetime_text(dt, fsp):
    """MySQL DATETIME(fsp) text protocol form 'YYYY-MM-DD hh:mm:ss[.fraction]' (model-based)."""
    text = '%04d-%02d-%02d %02d:%02d:%02d' % (dt.year, dt.month, dt.day, dt.hour, dt.minute, dt.second)
    if fsp: text += '.' + ('%06d' % dt.microsecond)[:fsp]
    return text

def codec_functions(item):
    quick = item[1]
    sub = core.Sub()
    from vf import stubs
    stubs.install_all()
    from pony.converting import timedelta2str, str2timedelta
    from pony.utils import datetime2timestamp, timestamp2datetime
    from pony.orm.dbproviders import mysql as my
    def attempt(f, *a):
        try: return f(*a)
        except Exception as e: return 'raises %s' % type(e).__name__
    def tdclass(td):
        return '%s%s' % ('negative' if td < timedelta(0) else 'non-negative', ', with microseconds' if td.microseconds else '')
    # 1. interval text codec, MySQL TIME range
    hours = (0, 1, 9, 10, 23, 24, 25, 99, 100, 838) if quick else tuple(range(0, 30)) + (99, 100, 101, 500, 837, 838)
    us_list = G.US if quick else G.US + G.US_MORE
    for sign in (1, -1):
        for h in hours:
            for m in (0, 1, 59):
                for s in (0, 1, 59):
                    for us in us_list:
                        td = sign * timedelta(hours=h, minutes=m, seconds=s, microseconds=us)
                        sub.count('codec_evaluations'); sub.count('codec:timedelta_text')
                        back = attempt(lambda: str2timedelta(timedelta2str(td)))
                        if back != td:
                            sub.violation('codec:str2timedelta(timedelta2str(td)):%s:different value' % tdclass(td),
                                          dict(part='codec', codec='td_text', value=G.enc(td)),
                                          'str2timedelta(timedelta2str(%r)) -> %r' % (td, back))
                        for fsp in (0, 3, 6) if quick else range(7):
                            step = 10 ** (6 - fsp)
                            if us % step: continue
                            sub.count('codec_evaluations'); sub.count('codec:mysql_time_text')
                            text = mysql_time_text(td, fsp)
                            back = attempt(str2timedelta, text)
                            if back != td:
                                sub.violation('mysql:str2timedelta(TIME text):%s:different value' % tdclass(td),
                                              dict(part='codec', codec='mysql_time', value=G.enc(td), fsp=fsp),
                                              'str2timedelta(%r) -> %r, MySQL stored %r' % (text, back, td))
    # 2. MySQL DATETIME text, 4. SQLite timestamp text
    for dt in G._datetimes(quick):
        sub.count('codec_evaluations'); sub.count('codec:timestamp')
        back = attempt(lambda: timestamp2datetime(datetime2timestamp(dt)))
        if back != dt:
            sub.violation('codec:timestamp2datetime(datetime2timestamp(dt)):%s:different value' % G.vclass(dict(family='datetime'), dt),
                          dict(part='codec', codec='timestamp', value=G.enc(dt)), '%r -> %r' % (dt, back))
        for fsp in range(7):
            if dt.microsecond % 10 ** (6 - fsp): continue
            text = mysql_datetime_text(dt, fsp)
            sub.count('codec_evaluations', 2); sub.count('codec:datetime_text', 2)
            back = attempt(my.str2datetime, text)
            if back != dt:
                sub.violation('mysql:str2datetime(DATETIME text):%s:different value' % G.vclass(dict(family='datetime'), dt),
                              dict(part='codec', codec='mysql_datetime', value=G.enc(dt), fsp=fsp), '%r -> %r' % (text, back))
            back = attempt(timestamp2datetime, text)     # SQLite may hold the same shortened text forms
            if back != dt:
                sub.violation('codec:timestamp2datetime(text with %d fraction digits):different value' % fsp,
                              dict(part='codec', codec='timestamp_text', value=G.enc(dt), fsp=fsp), '%r -> %r' % (text, back))
    # 3. MySQLdb hands TIME columns back as timedelta
    conv = my.MySQLTimeConverter(None, time)
    for t in G._times(quick):
        sub.count('codec_evaluations'); sub.count('codec:mysql_time_mapping')
        td = timedelta(hours=t.hour, minutes=t.minute, seconds=t.second, microseconds=t.microsecond)
        back = attempt(conv.sql2py, td)
        if back != t or attempt(conv.sql2py, t) != t:
            sub.violation('mysql:MySQLTimeConverter.sql2py(timedelta):different value',
                          dict(part='codec', codec='mysql_time_mapping', value=G.enc(t)), '%r -> %r' % (td, back))
    return sub.dump()

def codec_case(dialect, spec, v):
    """validate -> val2dbval -> py2sql -> (driver returns the same Python object) -> sql2py -> dbval2val.
    -> (status, seen, fails)"""
    db = capture_db(dialect, spec['name'])
    attr = db.entities[spec['name']].a
    conv = attr.converters[0]
    f = spec['family']
    try: seen = attr.validate(v, None, attr.entity)
    except Exception as e: return 'rejected', None, {}
    if seen is None: return 'none', None, {}
    fails = {}
    if f in ('time', 'datetime', 'timedelta') and isinstance(v, EXPECTED[f]):
        k = precision_kind(conv.precision, v, seen)
        if k: fails['written'] = k
    try:
        wire = conv.py2sql(conv.val2dbval(seen))
        back = plain(conv.dbval2val(conv.sql2py(wire)))
        d = diff(spec, plain(seen), back)
        if d: fails['roundtrip'] = d
    except Exception as e:
        fails['roundtrip'] = 'raises ' + type(e).__name__
    try:
        again = attr.validate(seen, None, attr.entity)
        d = diff(spec, plain(seen), plain(again))
        if d: fails['revalidate'] = d
    except Exception as e:
        fails['revalidate'] = 'raises ' + type(e).__name__
    return 'seen', plain(seen), fails

def codec_chunk(item):
    dialect, name, encs = item
    sub = core.Sub()
    spec = spec_by_name(name)
    for e in encs:
        v = G.dec(e)
        status, seen, fails = codec_case(dialect, spec, v)
        sub.count('codec_evaluations'); sub.count('codec:converter_roundtrip:' + dialect)
        if status != 'seen': continue
        vc = G.vclass(spec, seen)
        if vc in ('nan', 'contains nan'): continue
        sub.count('codec_converter_judged')
        if fails:
            sub.violation(signature(dialect, spec, seen, fails),
                          dict(part='converter', dialect=dialect, spec=name, decl=spec['decl'], value=e),
                          '%s %s: %s -> validate %s; %s' % (dialect, spec['decl'], e[:80], repr(seen)[:80],
                                                            '; '.join('%s: %s' % kv for kv in sorted(fails.items()))))
    return sub.dump()

# ---- driver ----------------------------------------------------------------------------------------------
def _dispatch(item):
    kind = item[0]
    if kind == 'sqlite': return sqlite_chunk(item[1:])
    if kind == 'lazy': return lazy_chunk(item[1:])
    if kind == 'functions': return codec_functions(item)
    return codec_chunk(item[1:])

def work_items(quick):
    items, distinct = [], 0
    for spec in G.specs():
        encs = [G.enc(v) for v in G.grid(spec, quick)]
        for i in range(0, len(encs), CHUNK):
            for dialect in ('postgres', 'mysql'):
                if supported(dialect, spec): items.append(('converter', dialect, spec['name'], encs[i:i + CHUNK]))
        if quick and spec['tag'] in G.THOROUGH_ONLY_TAGS: continue
        distinct += len(encs)
        for i in range(0, len(encs), CHUNK):
            items.append(('sqlite', spec['name'], encs[i:i + CHUNK]))
    for spec in G.lazy_specs():
        encs = [G.enc(v) for v in G.lazy_grid(spec, quick)]
        distinct += len(encs)
        for i in range(0, len(encs), CHUNK):
            items.append(('lazy', spec['name'], encs[i:i + CHUNK]))
    items.append(('functions', quick))
    return items, distinct

def run(ctx):
    items, distinct = work_items(ctx.quick)
    # quick tier: ~13 s of CPU in total; a small pool is robust against a loaded machine
    for dumped in ctx.pmap(_dispatch, ctx.shuffled(items), workers=min(ctx.nworkers, 4) if ctx.quick else None):
        core.absorb(ctx, dumped)
    c = ctx.counters
    ctx.guard('sqlite cases accepted and read back', c.get('sqlite_cases_accepted', 0), 2000)
    ctx.guard('read comparisons', c.get('read_compared', 0), 8000)
    ctx.guard('query-parameter lookups judged', c.get('param_lookups_judged', 0), 4000)
    ctx.guard('optimistic checks exercised', c.get('optimistic_checked', 0), 2000)
    ctx.guard('codec evaluations', c.get('codec_evaluations', 0), 10000)
    for fam in sorted(set(s['family'] for s in G.specs())):
        ctx.guard('accepted values of type ' + fam, c.get('accepted:' + fam, 0), 4)
    ctx.guard('lazy first-access reads compared', c.get('lazy_reads_compared', 0), 3000)
    ctx.guard('lazy reads confirmed to be a separate fetch of the column', c.get('lazy_fetch_confirmed', 0), 3000)
    for fam in sorted(set(s['family'] + (' (LongStr)' if s['tag'] == 'long' else '') for s in G.lazy_specs())):
        ctx.guard('accepted values of lazy type ' + fam, c.get('lazy_accepted:' + fam, 0), 2)
    ctx.assume('SQLite 3 is the real engine; server-side storage of PostgreSQL/MySQL (rounding of NUMERIC, '
               'TIME/DATETIME fsp, collations) is out of reach and not claimed')
    ctx.assume('converter round trips for PostgreSQL/MySQL assume the driver returns the Python object it was '
               'given for natively adapted types (psycopg2/pymysql stubs); MySQL TIME/DATETIME text forms follow '
               'the reference manual (model-based)')
    ctx.assume('float equality uses the converter\'s documented relative tolerance 1e-14; NaN is not judged')
    evaluations = (c.get('read_compared', 0) + c.get('param_lookups_judged', 0) + c.get('optimistic_checked', 0)
                   + c.get('precision_checks', 0) + c.get('codec_evaluations', 0) + c.get('lazy_reads_compared', 0))
    return dict(evaluations=evaluations, distinct_nontrivial=distinct + c.get('codec_converter_judged', 0),
                rule='(declaration, grid value) pairs written through INSERT and UPDATE on SQLite, each read back '
                     'through pk / projection / query parameter / Entity.get / optimistic check; lazy=True variants read on '
                     'first access after pk load / entity query / obj.load(attr); plus (dialect, '
                     'declaration, value) converter round trips and text-codec grid points for PostgreSQL/MySQL. '
                     'An evaluation is one comparison of an observation with the value seen after flush.')

def replay(ctx, case):
    part = case.get('part')
    if part == 'sqlite':
        spec = spec_by_name(case['spec'])
        status, seen, fails, counters, detail = sqlite_case(spec, G.dec(case['value']))
        print('sqlite', spec['decl'], case['value'], '->', status, repr(seen)[:100], fails, detail)
        return not fails
    if part == 'lazy':
        spec = spec_by_name(case['spec'])
        status, seen, fails, counters, detail = lazy_case(spec, G.dec(case['value']))
        print('sqlite', spec['decl'], case['value'], '->', status, repr(seen)[:100], fails, detail)
        return not fails
    if part == 'converter':
        spec = spec_by_name(case['spec'])
        status, seen, fails = codec_case(case['dialect'], spec, G.dec(case['value']))
        print(case['dialect'], spec['decl'], case['value'], '->', status, repr(seen)[:100], fails)
        return not fails
    dumped = codec_functions(('functions', False))
    for sig, e in dumped['found'].items():
        if e['case'].get('codec') == case.get('codec'):
            print(sig, e['message']); return False
    return True
