"""C30 helpers: fragment alphabet, the reference substituter (written from the documentation of
raw SQL parameters, NOT from pony's scanner), and the quote-unaware driver binder.

Documentation encoded here (docs.ponyorm.com "Using raw SQL", Database.select/execute, raw_sql()):
  * `$name`, `$name.attr.attr`, `$name(args)`, `$name[key]` and `$(python expression)` are parameters;
    a call / subscript / attribute trailer binds as tightly as Python would lex it;
  * an expression may be closed explicitly by `;`, which is consumed;
  * `$$` is a literal dollar sign;
  * everything else is SQL text and is passed through unchanged;
  * each parameter becomes one placeholder of the driver's paramstyle, in textual order, bound to
    the value of the expression evaluated in the caller's globals/locals.
The documentation does not mention quotes, so `'$quoted'` is a parameter like any other.
Whitespace between an expression and a following `.name`, `(`, `[` or `;` is not covered by the
documentation: such strings are reported as Ambiguous and never judged.
"""
import re

# ---- fragment alphabet -------------------------------------------------------------------------
# name -> (raw text, text as an item of a select list)
FRAGS = [
    ('a',            'a',             "'a'"),
    ('$x',           '$x',            '$x'),
    ('$o.y.z',       '$o.y.z',        '$o.y.z'),
    ("$f(x,'a)b')",  "$f(x, 'a)b')",  "$f(x, 'a)b')"),
    ("$d['k']",      "$d['k']",       "$d['k']"),
    ('$(x+1)',       '$(x+1)',        '$(x+1)'),
    ('$x;',          '$x;',           '$x;'),
    ('$$',           '$$',            "'$$'"),
    ('%',            '%',             "'%'"),
    ('%%',           '%%',            "'%%'"),
    ('%s',           '%s',            "'%s'"),
    ("'$quoted'",    "'$quoted'",     "'$quoted'"),
    ('$',            '$',             '$'),          # lone dollar: "trailing $" when it comes last
]
NAMES = [f[0] for f in FRAGS]
RAW = {f[0]: f[1] for f in FRAGS}
ITEM = {f[0]: f[2] for f in FRAGS}
EXPR_FRAGS = ('$x', '$o.y.z', "$f(x,'a)b')", "$d['k']", '$(x+1)', '$x;', "'$quoted'")
# shrinking: a fragment may be replaced by a simpler one of the same family (tried in this order)
SIMPLER = {'%s': ['%'], '%%': ['%'], '$o.y.z': ['$x'], "$f(x,'a)b')": ['$x', '$(x+1)'], "$d['k']": ['$x', '$(x+1)'],
           '$(x+1)': ['$x'], '$x;': ['$x', '$(x+1)'], "'$quoted'": ['$x']}

def text_of(names, layout):
    """layout: 'raw' (plain concatenation), 'list' (select list), 'nolead' (select list without
    the leading keyword: the documented shortcut of Database.select/get/exists),
    'where' (entity query by SQL), 'frag' (boolean fragment for raw_sql())."""
    if layout == 'raw': return ''.join(RAW[n] for n in names)
    items = ', '.join(ITEM[n] for n in names)
    if layout == 'list': return 'select ' + items
    if layout == 'nolead': return items
    if layout == 'where': return 'select id, s from c30item where s in (%s)' % items
    if layout == 'frag': return 's in (%s)' % items
    raise AssertionError(layout)

# ---- the caller's scope ----------------------------------------------------------------------------
class _O(object):
    def __init__(self, **kw): self.__dict__.update(kw)
    def __repr__(self): return '_O(%r)' % (self.__dict__,)

class _T(object):
    """subscriptable with any key (grammar part): t_[k] -> '<tag>[k]'"""
    def __init__(self, tag): self.tag = tag
    def __getitem__(self, k): return '%s[%s]' % (self.tag, k)
    def __repr__(self): return '_T(%r)' % self.tag

def make_scope(explicit):
    """(globals, locals) of the caller. Local `x` shadows a global `x`; `f` and `o` are global only."""
    if not explicit:
        g = dict(x='global x (must be shadowed)', f=lambda a, b: '%s|%s' % (a, b), o=_O(y=_O(z='oyz', w=lambda a: 'w(%s)' % (a,))),
                 g2=lambda a: 'g(%s)' % (a,), t_=_T('t'))
        l = dict(x=7, d={'k': 'dk'}, quoted='Q')
    else:
        g = dict(x='explicit global x (must be shadowed)', f=lambda a, b: '%s/%s' % (b, a), o=_O(y=_O(z='OYZ', w=lambda a: 'W<%s>' % (a,))),
                 g2=lambda a: 'G<%s>' % (a,), t_=_T('T'))
        l = dict(x=70, d={'k': 'DK'}, quoted='QQ')
    return g, l

# ---- the grammar of $-expressions (enumerated separately from the fragment sweep) ---------------------
# expression := wrapper(wrapper(... atom ...)) + trailer, nesting depth 1..3; every wrapper brings one bracket pair
# (two for the tuple-and-subscript form), so depth n gives n-fold nesting of the same AND of different bracket kinds,
# bracket characters inside string literals before / after / as the nested argument, calls through an attribute chain,
# an attribute chain after the closing bracket and the explicit terminator ';'. The functions / the subscriptable of
# the scope accept any argument, so nearly every expression evaluates to a str or int.
G_ATOMS = ('x', '1', "')'", '"]"')
G_WRAPS = ('g2(%s)', "f(%s,')')", "f('(',%s)", 't_[%s]', '(%s)', '(%s,1)[0]', 'o.y.w(%s)')
G_TRAILERS = ('', ';', '.__class__.__name__')
GRAMMAR = {}        # fragment name -> dict(src=python source, trailer=, depth=, same=max nesting of one bracket kind)

def same_kind_nesting(src):
    """max number of simultaneously open brackets of one kind (string literals skipped)"""
    depth = {'(': 0, '[': 0}; best, i = 0, 0
    close = {')': '(', ']': '['}
    while i < len(src):
        c = src[i]
        if c in '\'"': i = _skip_string(src, i); continue
        if c in depth:
            depth[c] += 1; best = max(best, depth[c])
        elif c in close: depth[close[c]] -= 1
        i += 1
    return best

def _g_build(ws, atom):
    src = atom
    for w in reversed(ws): src = G_WRAPS[w] % src
    return src

def register_grammar(maxdepth=3):
    """registers '$<expr><trailer>' and its parenthesised embedding '($<expr><trailer>)' as fragments (RAW/ITEM, not
    NAMES: the sweep alphabet is unchanged) and their simpler alternatives for shrinking"""
    import itertools
    for d in range(1, maxdepth + 1):
        for ws in itertools.product(range(len(G_WRAPS)), repeat=d):
            for atom in G_ATOMS:
                src = _g_build(ws, atom)
                for tr in G_TRAILERS:
                    name = '$' + src + tr
                    GRAMMAR[name] = dict(src=src + (tr if tr != ';' else ''), trailer=tr, depth=d, same=same_kind_nesting(src))
                    RAW[name] = ITEM[name] = name
                    RAW['(' + name + ')'] = ITEM['(' + name + ')'] = '(' + name + ')'
                    alts = []
                    if tr: alts.append('$' + src)
                    for i in range(d):
                        rest = ws[:i] + ws[i + 1:]
                        if rest: alts.append('$' + _g_build(rest, atom) + tr)
                    for i, w in enumerate(ws):      # the canonical call / subscript instead of a richer wrapper
                        for c in (0, 3):
                            if w != c and (c == 0 or w == 5): alts.append('$' + _g_build(ws[:i] + (c,) + ws[i + 1:], atom) + tr)
                    if atom != 'x': alts.append('$' + _g_build(ws, 'x') + tr)
                    if d == 1 and atom == 'x' and not tr: alts.append('$x')
                    SIMPLER[name] = alts
                    SIMPLER['(' + name + ')'] = [name]

def grammar_names(maxdepth):
    return sorted(n for n, m in GRAMMAR.items() if m['depth'] <= maxdepth)

# ---- reference substituter -------------------------------------------------------------------------
class Malformed(Exception): pass
class Ambiguous(Exception): pass

_PAIR = {'(': ')', '[': ']', '{': '}'}
def _ident_start(c): return c == '_' or ('a' <= c <= 'z') or ('A' <= c <= 'Z')
def _ident_char(c): return _ident_start(c) or ('0' <= c <= '9')

def _skip_string(s, i):
    q = s[i]
    if s.startswith(q * 3, i): q = q * 3
    j = i + len(q)
    n = len(s)
    while j < n:
        if s[j] == '\\': j += 2; continue
        if s.startswith(q, j): return j + len(q)
        if len(q) == 1 and s[j] == '\n': break
        j += 1
    raise Malformed('unterminated string inside a $-expression')

def _match(s, i):
    stack, n = [], len(s)
    while i < n:
        c = s[i]
        if c in _PAIR: stack.append(c)
        elif c in ')]}':
            if not stack or _PAIR[stack.pop()] != c: raise Malformed('bracket mismatch')
            if not stack: return i + 1
        elif c in '\'"':
            i = _skip_string(s, i); continue
        i += 1
    raise Malformed('unbalanced bracket')

def _trailer_after_space(s, j):
    n = len(s)
    k = j
    while k < n and s[k].isspace(): k += 1
    if k == j or k >= n: return False
    if s[k] in '([;': return True
    if s[k] == '.':
        k += 1
        while k < n and s[k].isspace(): k += 1
        return k < n and _ident_start(s[k])
    return False

def _scan_expr(s, i):
    n = len(s)
    if i >= n: raise Malformed('nothing after $')
    if _ident_start(s[i]):
        j = i + 1
        while j < n and _ident_char(s[j]): j += 1
    elif s[i] == '(':
        j = _match(s, i)
    else:
        raise Malformed('$ followed by %r' % s[i])
    while j < n:
        c = s[j]
        if c == '.':
            if j + 1 < n and _ident_start(s[j + 1]):
                j += 2
                while j < n and _ident_char(s[j]): j += 1
                continue
            k = j + 1
            while k < n and s[k].isspace(): k += 1
            if k > j + 1 and k < n and _ident_start(s[k]): raise Ambiguous('space after dot')
            break
        if c in '([':
            j = _match(s, j); continue
        if c.isspace() and _trailer_after_space(s, j): raise Ambiguous('space before trailer')
        break
    return j

def ref_parse(sql):
    """-> list of ('t', text) / ('e', python source). Raises Malformed / Ambiguous."""
    parts, buf, i, n = [], [], 0, len(sql)
    while i < n:
        c = sql[i]
        if c != '$':
            buf.append(c); i += 1; continue
        if i + 1 < n and sql[i + 1] == '$':
            buf.append('$'); i += 2; continue
        j = _scan_expr(sql, i + 1)
        src = sql[i + 1:j]
        try: compile(src, '<c30-ref>', 'eval')
        except SyntaxError: raise Malformed('not an expression: %r' % src)
        if buf: parts.append(('t', ''.join(buf))); buf = []
        parts.append(('e', src))
        if j < n and sql[j] == ';': j += 1
        i = j
    if buf: parts.append(('t', ''.join(buf)))
    return parts

MARK = '?'
def ref_substitute(sql, g, l):
    """-> ('ok', text with MARK per parameter, tuple of values) | ('malformed', why) |
    ('ambiguous', why) | ('evalerror', exception class name)"""
    try: parts = ref_parse(sql)
    except Malformed as e: return ('malformed', str(e))
    except Ambiguous as e: return ('ambiguous', str(e))
    text, values = [], []
    for kind, s in parts:
        if kind == 't': text.append(s)
        else:
            try: values.append(eval(s, g, l))
            except Exception as e: return ('evalerror', type(e).__name__)
            text.append(MARK)
    return ('ok', ''.join(text), tuple(values))

# ---- driver binder (which value each placeholder occurrence receives) --------------------------------
class DriverReject(Exception): pass

def drive(sql, args, style):
    """What reaches the database: (text with MARK at every bound placeholder, values in textual
    order). Quote-unaware, like the documentation's notion of a parameter; format/pyformat use the DM
    driver-interpolation model (vf.engines.dm.bind_placeholders)."""
    from vf.engines import dm
    if args is None: return sql, ()
    if style == 'qmark':
        return sql, tuple(args)
    if style in ('format', 'pyformat'):
        try: return dm.bind_placeholders(sql, args, style)
        except dm.Undecided as e: raise DriverReject(str(e))
        except (IndexError, KeyError, TypeError) as e: raise DriverReject('%s: %s' % (type(e).__name__, e))
    out = []
    try:
        if style == 'numeric':
            def rep(m): out.append(args[int(m.group(1)) - 1]); return MARK
            text = re.sub(r':(\d+)', rep, sql)
            used = len(set(re.findall(r':(\d+)', sql)))
        elif style == 'named':
            def rep(m): out.append(args[m.group(1)]); return MARK
            text = re.sub(r':([A-Za-z_]\w*)', rep, sql)
            used = len(set(re.findall(r':([A-Za-z_]\w*)', sql)))
        else: raise AssertionError(style)
    except (IndexError, KeyError, TypeError) as e:
        raise DriverReject('%s: %s' % (type(e).__name__, e))
    if used != len(args): raise DriverReject('%d values supplied, %d placeholders' % (len(args), used))
    return text, tuple(out)

def canon(v):
    """JSON-able canonical form of a value / row / exception for cross-process comparison."""
    if isinstance(v, (list, tuple)): return [canon(i) for i in v]
    if isinstance(v, dict): return {str(k): canon(i) for k, i in sorted(v.items(), key=lambda kv: str(kv[0]))}
    if v is None or isinstance(v, (bool, int, str)): return v
    return repr(v)

register_grammar()
