"""C05 helper: the fixed schema, its deterministic content, the in-session modifications and the
STATEMENT POOL. The pool is built so that statements SHARE CACHE KEYS: every family below is one
Python function, i.e. one generator-expression / lambda code object or one query string, executed with
different parameter values, parameter types or name spaces. A pool entry is (family, arguments).

Nothing in here knows about caches: a statement is a plain function that uses pony's public API
inside an open db_session and returns whatever pony returned.
"""
import os, sys, datetime, sqlite3
import _strptime     # stdlib module that datetime imports lazily: loaded before the zygote forks
from decimal import Decimal
from vf import core   # puts the tree under test first on sys.path
from pony import orm
from pony.orm import (Database, PrimaryKey, Required, Optional, Set, select, left_join, count, sum, min, max, avg,
                      group_concat, exists, distinct, desc, raw_sql, db_session, commit, rollback, flush, get,
                      coalesce, concat, between, JOIN)
date = datetime.date

db = Database()

LIMIT = 30          # globals read by the hybrid property / method / function below
BONUS = 0
x = 18              # a module global that some call sites shadow with a local

class Group(db.Entity):
    _table_ = 'grp'
    id = PrimaryKey(int)
    name = Required(str)
    rank = Optional(int)
    members = Set('Person')

class Person(db.Entity):
    _table_ = 'person'
    id = PrimaryKey(int)
    name = Required(str)
    nick = Optional(str, nullable=True)
    age = Required(int)
    score = Required(Decimal, 8, 2)
    born = Optional(date)
    group = Optional(Group)
    tags = Set('Tag', table='person_tag')
    @property
    def senior(self):                       # hybrid property reading a global
        return self.age >= LIMIT
    def older_than(self, n):                # hybrid method reading a global
        return self.age > n + BONUS

class Tag(db.Entity):
    _table_ = 'tag'
    name = PrimaryKey(str)
    persons = Set(Person)

def is_senior(p):                           # hybrid function reading a global
    return p.age >= LIMIT

GROUPS = [(1, 'alpha', 1), (2, 'beta', 2), (3, 'gamma', None)]
PERSONS = [  # id, name, nick, age, score, born, group
    (1, 'alice', 'al', 30, '10.50', '1990-01-15', 1),
    (2, 'bob', None, 17, '7.25', '2003-06-01', 1),
    (3, 'carol', 'caz', 45, '10.50', '1975-12-31', 2),
    (4, 'dave', None, 30, '3.00', None, 2),
    (5, 'eve', 'e', 60, '99.99', '1960-02-29', None),
    (6, 'frank', 'bob', 17, '0.00', '2003-06-01', 3),
    (7, 'grace', None, 31, '55.10', '1989-07-04', 1),
    (8, 'abba', 'ab', 45, '7.25', None, None),
]
TAGS = ['x', 'y', 'z']
PERSON_TAG = [(1, 'x'), (1, 'y'), (2, 'x'), (3, 'z'), (5, 'x'), (5, 'y'), (5, 'z'), (7, 'y')]

TEMPLATE = None
MYFILE = None
ROWS = {}

def setup(scratch):
    """Create the template database (tables by pony's DDL, rows by plain sqlite3 so that no pony cache is
    touched), bind and map. No query is executed through pony here."""
    global TEMPLATE
    if TEMPLATE: return
    TEMPLATE = os.path.join(scratch, 'c05-template.sqlite')
    if os.path.exists(TEMPLATE): os.unlink(TEMPLATE)
    db.bind('sqlite', TEMPLATE, create_db=True)
    db.generate_mapping(create_tables=True)
    db.disconnect()
    con = sqlite3.connect(TEMPLATE)
    con.executemany('insert into grp (id, name, rank) values (?, ?, ?)', GROUPS)
    con.executemany('insert into person (id, name, nick, age, score, born, "group") values (?, ?, ?, ?, ?, ?, ?)', PERSONS)
    con.executemany('insert into tag (name) values (?)', [(t,) for t in TAGS])
    con.executemany('insert into person_tag (person, tag) values (?, ?)', PERSON_TAG)
    con.commit()
    for t in ('grp', 'person', 'tag', 'person_tag'):
        ROWS[t] = con.execute('select * from "%s"' % t).fetchall()
    con.close()

def use_private_copy(scratch):
    """Each process works on its own copy of the template (own SQLite lock). Only the file name of the
    connection pool is changed; pony reconnects by itself after a fork."""
    global MYFILE
    import shutil
    MYFILE = os.path.join(scratch, 'c05-%d.sqlite' % os.getpid())
    shutil.copyfile(TEMPLATE, MYFILE)
    pool = db.provider.pool
    pool.filename = MYFILE
    return MYFILE

def restore_rows():
    """After a history that committed: put the pristine rows back (plain sqlite3, outside pony)."""
    con = sqlite3.connect(MYFILE)
    for t in ('person_tag', 'person', 'tag', 'grp'): con.execute('delete from "%s"' % t)
    for t in ('grp', 'person', 'tag', 'person_tag'):
        if ROWS[t]: con.executemany('insert into "%s" values (%s)' % (t, ','.join('?' * len(ROWS[t][0]))), ROWS[t])
    con.commit(); con.close()

# ---- in-session modifications ---------------------------------------------------------------------
def m_assign():
    p = Person[1]; p.age = p.age + 50; p.name = 'zed'
def m_create():
    if Person.get(id=20) is None:
        Person(id=20, name='bobby', nick='new', age=30, score=Decimal('10.50'), born=date(2003, 6, 1), group=Group[3], tags=[Tag['z']])
def m_delete():
    p = Person.get(id=3)
    if p is not None: p.delete()
def m_bulkdelete():
    # one DELETE statement sent at once; the identity map is bypassed, the session's query results must not be
    Person.select(lambda p: p.id == 4).delete(bulk=True)
def m_commit(): commit()
def m_rollback(): rollback()
MODS = dict(assign=m_assign, create=m_create, delete=m_delete, bulkdelete=m_bulkdelete, commit=m_commit, rollback=m_rollback)
MOD_NAMES = ('assign', 'create', 'delete', 'bulkdelete', 'commit', 'rollback')
DATA_MODS = ('assign', 'create', 'delete', 'bulkdelete')

# ---- the pool ---------------------------------------------------------------------------------------
class ENT(object):
    """argument placeholder: an entity instance, looked up inside the session"""
    def __init__(self, cls, pk): self.cls, self.pk = cls, pk
    def resolve(self): return globals()[self.cls][self.pk]
    def __repr__(self): return '%s[%r]' % (self.cls, self.pk)

_LAMBDA_NAMES = {}
def _r(a):
    """deterministic text of an argument (no addresses)"""
    if isinstance(a, (list, tuple)) and any(callable(i) for i in a): return '(%s)' % ', '.join(_r(i) for i in a)
    if isinstance(a, dict): return '{%s}' % ', '.join('%r: %s' % (k, _r(v)) for k, v in sorted(a.items()))
    if isinstance(a, type): return a.__name__
    if callable(a):
        for k, v in globals().items():
            if v is a and k.isupper(): return k
        return getattr(a, '__name__', 'callable')
    return repr(a)

class Stmt(object):
    def __init__(self, family, kind, fn, args, kwargs, ordered, is_core, uses=()):
        self.family, self.kind, self.fn, self.args, self.kwargs, self.ordered, self.core = family, kind, fn, args, kwargs, ordered, is_core
        # what this statement shares with others: its function (one code object per generator / lambda in it),
        # the module-level lambdas it is given, the module-level query texts it uses
        shared = set([family]) | set(uses)
        for a in args:
            for i in (a if isinstance(a, (tuple, list)) else (a,)):
                if callable(i) and not isinstance(i, type): shared.add(_r(i))
        self.shares = frozenset(shared)
        self.name = '%s(%s)' % (family, ', '.join([_r(a) for a in args] + ['%s=%s' % (k, _r(v)) for k, v in sorted(kwargs.items())]))
    def execute(self):
        args = [a.resolve() if isinstance(a, ENT) else a for a in self.args]
        kwargs = dict((k, a.resolve() if isinstance(a, ENT) else a) for k, a in self.kwargs.items())
        return self.fn(*args, **kwargs)

POOL = []
def S(kind, fn, *args, **kw):
    st = Stmt(fn.__name__, kind, fn, args, kw.get('kw', {}), kw.get('ordered', False), kw.get('core', False), kw.get('uses', ()))
    assert st.name not in [s.name for s in POOL], st.name
    POOL.append(st)

# -- limit / offset on one code object (sql_key limit/offset)
def q_slice(a, b): return select(p for p in Person).order_by(Person.id)[a:b]
S('query-slice', q_slice, 0, 3, ordered=True, core=True)
S('query-slice', q_slice, 3, None, ordered=True)
def q_page(n, size): return select(p.name for p in Person).order_by(1).page(n, size)
S('query-slice', q_page, 1, 3, ordered=True)
S('query-slice', q_page, 2, 3, ordered=True)
def q_limit(n, off): return Person.select().order_by(desc(Person.age), Person.id).limit(n, offset=off)
S('query-slice', q_limit, 2, 1, ordered=True)

# -- string slices / indexes with parameter bounds (translator.fixed_param_values)
def str_slice(a, b): return select((p.id, p.name[a:b]) for p in Person)
S('string-slice-with-parameter-bounds', str_slice, 0, 2, core=True)
S('string-slice-with-parameter-bounds', str_slice, 1, 3, core=True)
S('string-slice-with-parameter-bounds', str_slice, 1, None)
S('string-slice-with-parameter-bounds', str_slice, -2, None)
def str_index(i): return select((p.id, p.name[i]) for p in Person)
S('string-index-with-parameter', str_index, 0)
S('string-index-with-parameter', str_index, -1)
def str_slice_filter(a, b, s): return select(p for p in Person if p.name[a:b] == s)
S('string-slice-with-parameter-bounds', str_slice_filter, 0, 1, 'a')
S('string-slice-with-parameter-bounds', str_slice_filter, 1, 2, 'a')

# -- getattr with a parameter name (fixed_param_values) and values of every type for the same variable
def getattr_select(name): return select((p.id, getattr(p, name)) for p in Person)
S('getattr-with-parameter-name', getattr_select, 'name', core=True)
S('getattr-with-parameter-name', getattr_select, 'age', core=True)
S('getattr-with-parameter-name', getattr_select, 'group')
def getattr_cmp(name, v): return select(p for p in Person if getattr(p, name) == v)
S('getattr-with-parameter-name', getattr_cmp, 'age', 30)
S('getattr-with-parameter-name', getattr_cmp, 'nick', None)
S('getattr-with-parameter-name', getattr_cmp, 'score', Decimal('10.50'))
S('getattr-with-parameter-name', getattr_cmp, 'born', date(2003, 6, 1))
S('getattr-with-parameter-name', getattr_cmp, 'group', ENT('Group', 1))

# -- one variable, many types
def cmp_age(v): return select(p for p in Person if p.age == v)
S('parameter-types', cmp_age, 30, core=True)
S('parameter-types', cmp_age, None, core=True)
S('parameter-types', cmp_age, Decimal('45'))
S('parameter-types', cmp_age, '30')
S('parameter-types', cmp_age, (30, 45))
def cmp_group(v): return select(p.name for p in Person if p.group == v)
S('parameter-types', cmp_group, ENT('Group', 1))
S('parameter-types', cmp_group, None)

# -- `in` lists of different lengths / container types
def in_list(v): return select(p for p in Person if p.age in v)
S('in-list-parameter', in_list, [17])
S('in-list-parameter', in_list, [17, 30, 45], core=True)
S('in-list-parameter', in_list, (30, 31))
S('in-list-parameter', in_list, [])
S('in-list-parameter', in_list, ['bob'])
def in_names(v): return select(p.id for p in Person if p.name in v or p.nick in v)
S('in-list-parameter', in_names, ['bob', 'eve', 'al'])

# -- one query string, several call sites with different name spaces
QS_AGE = 'p for p in Person if p.age > x'
def qs_global(): return select(QS_AGE)                  # x is the module global (18)
def qs_local(v): x = v; return select(QS_AGE)           # the global is shadowed by a local
S('query-string-at-several-call-sites', qs_global, core=True, uses=('QS_AGE',))
S('query-string-at-several-call-sites', qs_local, 40, core=True, uses=('QS_AGE',))
S('query-string-at-several-call-sites', qs_local, Decimal('30.5'), uses=('QS_AGE',))
def qs_dicts(g, l): return select(QS_AGE, g, l)          # explicit name spaces
S('query-string-at-several-call-sites', qs_dicts, {'Person': Person, 'x': 44}, {}, uses=('QS_AGE',))
S('query-string-at-several-call-sites', qs_dicts, {'Person': Group, 'x': 1}, {'p': 1}, uses=('QS_AGE',))
FS_CROSS = 'x.age > p.age'
def fs_x_is_query_var(p): return select(x for x in Person).where(FS_CROSS)      # p external, x query variable
def fs_p_is_query_var(x): return select(p for p in Person).where(FS_CROSS)      # x external, p query variable
S('filter-string-external-vs-query-variable', fs_x_is_query_var, ENT('Person', 1), core=True, uses=('FS_CROSS',))
S('filter-string-external-vs-query-variable', fs_p_is_query_var, ENT('Person', 1), core=True, uses=('FS_CROSS',))
QS_FUNC = 'p.id for p in Person if f(p.age, 30) == 30'
def qs_func_min(): f = min; return select(QS_FUNC)
def qs_func_max(): f = max; return select(QS_FUNC)
S('query-string-at-several-call-sites', qs_func_min, uses=('QS_FUNC',))
S('query-string-at-several-call-sites', qs_func_max, uses=('QS_FUNC',))
LS_AGE = 'lambda p: p.age > x'
def ls_select(v): x = v; return Person.select(LS_AGE)
def ls_filter(v): x = v; return select(p for p in Person if p.nick is not None).filter(LS_AGE)
S('entity-select-lambda', ls_select, 30, uses=('LS_AGE',))
S('chained-lambdas', ls_filter, 30, uses=('LS_AGE',))

# -- chained filter / where / order_by with shared lambdas
L_ADULT = lambda p: p.age >= 30
L_GROUPED = lambda p: p.group is not None
L_NAME = lambda e: e.name > 'b'
O_NAME = lambda p: p.name
O_AGE_DESC = lambda p: (desc(p.age), p.id)
def ch_filter(*fs):
    q = Person.select()
    for f in fs: q = q.filter(f)
    return q
S('chained-lambdas', ch_filter, L_ADULT, core=True)
S('chained-lambdas', ch_filter, L_ADULT, L_GROUPED, core=True)
S('chained-lambdas', ch_filter, L_GROUPED, L_ADULT)
S('chained-lambdas', ch_filter, L_NAME)
def ch_where(f): return select(p for p in Person).where(f)
S('chained-lambdas', ch_where, L_ADULT)
def ch_other_base(f): return select(g for g in Group).filter(f)
S('chained-lambdas', ch_other_base, L_NAME)
def ch_order(fs, os_):
    q = select(p for p in Person)
    for f in fs: q = q.filter(f)
    for o in os_: q = q.order_by(o)
    return q
S('chained-lambdas', ch_order, (L_ADULT,), (O_NAME,), ordered=True)
S('chained-lambdas', ch_order, (), (O_NAME, O_AGE_DESC), ordered=True)
def ch_order_then_filter(o, f): return select(p for p in Person).order_by(o).filter(f)
S('chained-lambdas', ch_order_then_filter, O_NAME, L_ADULT, ordered=True)
def ch_closure(v): return Person.select().filter(lambda p: p.age > v).order_by(Person.id)
S('chained-lambdas', ch_closure, 30, ordered=True)
S('chained-lambdas', ch_closure, 44.5, ordered=True)
def ch_kw(**kw): return Person.select().filter(**kw)
S('keyword-filters', ch_kw, kw=dict(age=30))
S('keyword-filters', ch_kw, kw=dict(nick=None))
S('keyword-filters', ch_kw, kw=dict(nick='bob'))
S('keyword-filters', ch_kw, kw=dict(age=17, nick='bob'))
def ch_kw_where(**kw): return select(p for p in Person if p.age > 20).where(**kw)
S('keyword-filters', ch_kw_where, kw=dict(group=ENT('Group', 1)))
S('keyword-filters', ch_kw_where, kw=dict(group=None))

# -- hybrid property / method / function reading a global
def hyb_prop(limit):
    global LIMIT
    LIMIT = limit
    return select(p for p in Person if p.senior)
S('hybrid-reading-a-global', hyb_prop, 30, core=True)
S('hybrid-reading-a-global', hyb_prop, 45, core=True)
S('hybrid-reading-a-global', hyb_prop, Decimal('30.5'))
def hyb_meth(n, bonus):
    global BONUS
    BONUS = bonus
    return select(p.name for p in Person if p.older_than(n))
S('hybrid-reading-a-global', hyb_meth, 30, 0)
S('hybrid-reading-a-global', hyb_meth, 30, 15)
def hyb_func(limit):
    global LIMIT
    LIMIT = limit
    return select(p.id for p in Person if is_senior(p) and p.nick is not None)
S('hybrid-reading-a-global', hyb_func, 30)
S('hybrid-reading-a-global', hyb_func, 46)

# -- aggregates: Query methods (cache.query_results via Query._aggregate) ...
def agg_count(v): return select(p for p in Person if p.age > v).count()
S('query-aggregate-method', agg_count, 29, core=True)
S('query-aggregate-method', agg_count, 44)
def agg_sum(v): return select(p.age for p in Person if p.age > v).sum()
S('query-aggregate-method', agg_sum, 29)
def agg_minmax(which):
    q = select(p.score for p in Person)
    return q.min() if which == 'min' else q.max() if which == 'max' else q.avg()
S('query-aggregate-method', agg_minmax, 'min')
S('query-aggregate-method', agg_minmax, 'avg')
def agg_group_concat(sep, dist): return select(p.name for p in Person if p.age > 40).order_by(1).group_concat(sep, distinct=dist)
S('query-aggregate-method', agg_group_concat, ',', None)
S('query-aggregate-method', agg_group_concat, '+', None)
def agg_count_distinct(d): return select(p.age for p in Person).count(distinct=d)
S('query-aggregate-method', agg_count_distinct, True)
S('query-aggregate-method', agg_count_distinct, False)
# ... and aggregate functions inside / around the generator
def agg_in_query(): return select((g.name, count(g.members), sum(g.members.age), max(g.members.score)) for g in Group)
S('aggregate-in-query', agg_in_query)
def agg_func(v): return (count(p for p in Person if p.age > v), max(p.age for p in Person if p.age < v), avg(p.age for p in Person), group_concat(p.name for p in Person if p.age == v))
S('query-aggregate-method', agg_func, 30)
def agg_subquery(): return select(p for p in Person if p.age == max(q.age for q in Person))
S('aggregate-in-query', agg_subquery)
def ex_query(v): return select(p for p in Person if p.age > v).exists()
S('exists-first-get', ex_query, 59)
def ex_func(v): return exists(p for p in Person if p.name == v)
def ex_entity(**kw): return Person.exists(**kw)
S('exists-first-get', ex_entity, kw=dict(age=80))
def ex_inner(tn): return select(p for p in Person if exists(t for t in p.tags if t.name == tn))
S('exists-first-get', ex_inner, 'z')
def first_of(v): return select(p for p in Person if p.age >= v).order_by(desc(Person.age), Person.id).first()
S('exists-first-get', first_of, 45)
def first_unordered(v): return select(p.name for p in Person if p.age >= v).first()
S('exists-first-get', first_unordered, 45)
def get_query(v): return select(p for p in Person if p.age == v).get()
S('exists-first-get', get_query, 60)
S('exists-first-get', get_query, 30)
def get_kw(**kw): return Person.get(**kw)
S('entity-get', get_kw, kw=dict(id=3), core=True)
S('entity-get', get_kw, kw=dict(id=20))
S('entity-get', get_kw, kw=dict(name='zed'))
S('entity-get', get_kw, kw=dict(age=60, nick='e'))
def get_lambda(n): return Person.get(lambda p: p.name == n)
S('entity-get', get_lambda, 'carol')
def get_index(pk): return Person[pk]
S('entity-get', get_index, 3)

# -- for_update / prefetch
def for_upd(v): return select(p for p in Person if p.age > v).for_update()[:]
S('for-update', for_upd, 29)
def for_upd_shared_code(v, lock):
    q = select(p for p in Person if p.age < v)
    return (q.for_update() if lock else q)[:]
S('for-update', for_upd_shared_code, 31, True)
S('for-update', for_upd_shared_code, 31, False)
def get_for_upd(pk): return Person.get_for_update(id=pk)
S('for-update', get_for_upd, 1)
def pre_fetch(which):
    q = select(p for p in Person if p.age > 20)
    q = q.prefetch(Person.group) if which == 'group' else q.prefetch(Person.tags) if which == 'tags' else q.prefetch(Group, Tag) if which == 'all' else q
    return [(p, p.group, sorted(t.name for t in p.tags)) for p in q]
S('prefetch', pre_fetch, 'group')
S('prefetch', pre_fetch, 'tags')
S('prefetch', pre_fetch, 'none')

# -- raw SQL
def by_sql(v): return Person.select_by_sql('select * from person where age > $v')
S('select-by-sql', by_sql, 40)
S('select-by-sql', by_sql, 17.5)
def by_sql_x(v): x = v; return Person.select_by_sql('select * from person where name > $x order by id')
S('select-by-sql', by_sql_x, 'c', ordered=True)
def get_by_sql(v): return Person.get_by_sql('select * from person where age = $v')
S('select-by-sql', get_by_sql, 60)
def db_select(v): return db.select('name from person where age > $v')
S('database-select', db_select, 40, core=True)
S('database-select', db_select, '40')
def db_select_global(): return db.select('select name, age from person where age > $x and age < $(x+20)')   # global x
def db_select_local(x): return db.select('select name, age from person where age > $x and age < $(x+20)')   # same text, local x
S('database-select', db_select_global, uses=('DBSEL_X',))
S('database-select', db_select_local, 30, uses=('DBSEL_X',))
def db_select_literals(i): return db.select("select '%', '%%', '$$', '%s', name from person where id = $i")
S('database-select', db_select_literals, 2)
def db_get(v): return db.get('select count(*) from person where age >= $v')
def db_exists(v): return db.exists('select 1 from person where name = $v')
S('database-select', db_exists, 'zed')
def db_execute(v): return db.execute('select id, nick from person where nick is not $v order by id').fetchall()
S('database-select', db_execute, None, ordered=True)

# -- raw_sql() fragments inside queries
def raw_filter(v): return select(p for p in Person if raw_sql('p.age > $v'))
S('raw-sql-fragment', raw_filter, 30, core=True)
S('raw-sql-fragment', raw_filter, 45)
def raw_expr(): return select((p.id, raw_sql('upper(p.name)')) for p in Person)
S('raw-sql-fragment', raw_expr)
def raw_order(v): return select(p for p in Person if p.age > v).order_by(raw_sql('p.age desc, p.id'))
S('raw-sql-fragment', raw_order, 29, ordered=True)
def raw_in_lambda(v): return Person.select().filter(lambda p: raw_sql('p.age < $v'))
S('raw-sql-fragment', raw_in_lambda, 31)
def raw_value(v): return select(p.id for p in Person if p.age > raw_sql('$v + 1'))
S('raw-sql-fragment', raw_value, 29)

# -- Entity.select(lambda), distinct, attribute lifting, joins, sub-queries, queries as parameters
def ent_select(f): return Person.select(f)
S('entity-select-lambda', ent_select, L_ADULT)
def ent_select_closure(v): return Person.select(lambda p: p.age > v and p.nick is None)
S('entity-select-lambda', ent_select_closure, 17)
S('entity-select-lambda', ent_select_closure, 30)
def dist(mode):
    q = select(p.age for p in Person)
    q = q.distinct() if mode == 'distinct' else q.without_distinct() if mode == 'without' else q
    return q.order_by(1)[:]
S('distinct', dist, 'default', ordered=True)
S('distinct', dist, 'distinct', ordered=True)
S('distinct', dist, 'without', ordered=True)
def lift_groups(): return select(p.group for p in Person if p.age > 20)
S('attribute-lifting', lift_groups)
def lift_collection(r): return select((g.id, g.members.name) for g in Group if g.rank == r)
S('attribute-lifting', lift_collection, 1)
def lift_instance(pk): return sorted(Group[pk].members.name)
S('attribute-lifting', lift_instance, 1)
def join_tags(tn): return select((p.name, t.name) for p in Person for t in p.tags if t.name >= tn)
S('join', join_tags, 'y')
def lj_tags(): return left_join((p.id, count(t)) for p in Person for t in p.tags)
S('join', lj_tags)
def sub_in(r): return select(p for p in Person if p.group in select(g for g in Group if g.rank == r))
S('subquery', sub_in, 1)
def sub_param(r):
    q0 = select(g for g in Group if g.rank == r)
    return select(p for p in Person if p.group in q0)
S('subquery', sub_param, 1)
S('subquery', sub_param, None)
def sub_source(v, w): return select(y.name for y in select(p for p in Person if p.age > v) if y.age < w)
S('subquery', sub_source, 17, 45)
S('subquery', sub_source, 30, 61)

BYNAME = dict((s.name, i) for i, s in enumerate(POOL))
CORE = [i for i, s in enumerate(POOL) if s.core]
