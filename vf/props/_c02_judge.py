"""C02: running one query on every engine, comparing with the reference, and attributing disagreements.

Attribution is C01's shrinking-by-projection, done per engine: a failing query is reduced to its minimal failing
sub-expression by re-running sub-expressions as projections select((p.id, sub) for p in Person) on the SAME engine;
the signature is the operator skeleton of that sub-expression plus the classes of its operands on the failing row.
The operand classes are generalised to the None-pattern (None / val) when the sub-expression fails on that engine
on EVERY judgeable row with the same None-pattern; otherwise C01's value classes (neg/zero/pos, empty/str/ws/...) are
kept. String slices and indexing are named by C25's regions (relative to the string length) instead.
"""
import re
from vf.engines import dm, qx
from vf.engines.qx import Query, X, src, compare
from vf.props import c01, c25
from vf.props import _c02_lib as L

P, PID = c01.P, c01.PID

class Out(object):
    """outcome of one query on one engine. kind: answered | refused | undecided | dialect_refused | broken"""
    __slots__ = ('kind', 'rows', 'why', 'sql')
    def __init__(self, kind, rows=None, why=None, sql=None): self.kind, self.rows, self.why, self.sql = kind, rows, why, sql

_NUM = re.compile(r'-?\d+(\.\d+)?')
def _cls(msg): return _NUM.sub('N', str(msg))[:90]

def run_on(eng, st, q):
    d = eng.name
    if d != 'sqlite':
        r = L.static_reason(d, q)
        if r: return Out('undecided', why=r)
        if d == 'postgres' and L.zero_divisor(st['ev'], st['data'], q): return Out('dialect_refused', why=L.R_ZERO)
    try: rows = eng.run(q)
    except dm.NotExecutable as e: return Out('broken', why=_cls(e), sql=getattr(eng, 'last', None))
    except dm.Undecided as e: return Out('undecided', why=_cls(e))
    except dm.DialectError as e: return Out('dialect_refused', why=_cls(e), sql=getattr(eng, 'last', None))
    except Exception as e: return Out('refused', why=type(e).__name__)
    return Out('answered', rows=rows, sql=getattr(eng, 'last', None))

def expected_of(st, q, key=None, ev=None):
    if key is not None:
        r = st['exp'].get(key)
        if r is not None: return r
    exp = q.expected(st['data'], ev)
    if key is not None:
        if len(st['exp']) > 4000: st['exp'].clear()
        st['exp'][key] = exp
    return exp

def proj_status(eng, st, E):
    """E as projection (p.id, E) on this engine: an outcome kind other than 'answered', or dict rid -> True (agrees) /
    False (disagrees) / None (not judgeable: Python has no answer on that row)"""
    k = (eng.name, src(E))
    r = st['proj'].get(k)
    if r is not None: return r
    q = Query([('p', 'Person')], (PID, E))
    out = run_on(eng, st, q)
    if out.kind != 'answered': r = out.kind + ':' + str(out.why)
    else:
        exp = expected_of(st, q, 'P:' + src(E))
        if exp.undecided: r = 'reference undecided'
        else:
            r = {}
            for row in exp.rows:
                o = row.env.vars.get('p')
                if o is not None: r[o.id] = None if (row.wild or row.optional) else True
            for m in compare(exp, out.rows):
                rid = c01.row_id(m)
                r[rid if rid is not None else '?'] = False
    if len(st['proj']) > 30000: st['proj'].clear()
    st['proj'][k] = r
    return r

def blame(eng, st, E, rid):
    for c in c01.scalar_children(E):
        b = blame(eng, st, c, rid)
        if b: return b
    r = proj_status(eng, st, E)
    if not isinstance(r, str) and r.get(rid) is False: return [E]
    return []

def blame_refusal(eng, st, E, why):
    """smallest sub-expression whose projection the dialect model also rejects for the same reason"""
    for c in c01.scalar_children(E):
        b = blame_refusal(eng, st, c, why)
        if b is not None: return b
    r = proj_status(eng, st, E)
    if isinstance(r, str) and r == why: return E
    return None

SLICES = ('slice', 'slice_from', 'slice_to', 'index')
def _nonepat(classes): return ','.join('None' if c == 'None' else ('undef' if c == 'undef' else 'val') for c in classes.split(','))

def slice_sig(st, M, o):
    ev = st['ev']
    try: vals = [ev.value(c, qx.Env({'p': o})) for c in M.a]
    except qx.Undef: return '%s: undefined operand' % M.op
    s = vals[0]
    if s is None: return '%s:string None' % ('index' if M.op == 'index' else 'slice')
    if any(ord(c) > 127 for c in s):      # a multi-byte string: named apart (byte-counting functions), regions as in C25
        if M.op == 'index': return 'index[nonascii]:' + c25.region(s, vals[1], None).split(',')[0]
        a, b = {'slice': (vals + [None])[1:3], 'slice_from': (vals[1], None), 'slice_to': (None, vals[1])}[M.op]
        return 'slice[nonascii]:' + c25.region(s, a, b)
    if M.op == 'index': return 'index:' + c25.region(s, vals[1], None).split(',')[0]
    a, b = {'slice': (vals + [None])[1:3], 'slice_from': (vals[1], None), 'slice_to': (None, vals[1])}[M.op]
    ext = lambda c: qx.is_leaf(c) and c.op in ('const', 'param') or qx.is_external(c)
    if b == -1 and ((M.op == 'slice_to' and ext(M.a[1])) or (M.op == 'slice' and a == 0 and ext(M.a[1]) and ext(M.a[2]))):
        return 'slice:start in {omitted,0} and stop=-1 (sentinel)'
    return 'slice:' + c25.region(s, a, b)

_DECKIND = re.compile(r'\b(?:col|param|expr|const):dec\b')
def skel(eng, M):
    """operator skeleton; the operand kinds C01 keeps for Decimal operands (SQLite binds Decimal parameters as text) are erased
    for the model dialects, where the kind makes no difference"""
    s = qx.op_skeleton(M)
    return s if eng.name == 'sqlite' else _DECKIND.sub('dec', s)

def expr_sig(eng, st, M, rid):
    o = st['pids'].get(rid)
    if o is None: return '%s [?]' % skel(eng, M)
    if M.op in c01.LAZY_OPS and qx.dead_navigation(st['ev'], M, qx.Env({'p': o})):
        return '%s: operand navigating through a None reference is not evaluated in Python, row lost by the inner join' % c01.LAZY_OPS[M.op]
    if M.op in SLICES: return slice_sig(st, M, o)
    fine = qx.operand_classes(st['ev'], M, qx.Env({'p': o}))
    pat = _nonepat(fine)
    r = proj_status(eng, st, M)
    if not isinstance(r, str):
        k = ('pat', src(M))
        pats = st['proj'].get(k)
        if pats is None:
            pats = st['proj'][k] = {x.id: _nonepat(qx.operand_classes(st['ev'], M, qx.Env({'p': x}))) for x in st['data'].persons}
        same = [i for i, p_ in pats.items() if p_ == pat and r.get(i) is not None]
        if same and all(r.get(i) is False for i in same): return '%s [%s]' % (skel(eng, M), pat)
    return '%s [%s]' % (skel(eng, M), fine)

def signatures(eng, st, pos, q, E, mm):
    """{key: (signature, mismatch, row id, blamed sub-expression or None)} for the mismatches of one answered query on one
    engine; key = (source of the blamed sub-expression or a position marker, row id) identifies the failure across engines"""
    out = {}
    if E is None:
        kinds = '+'.join(sorted(set(m.kind for m in mm)))
        return {(pos, None): ('%s: %s' % (pos, kinds), mm[0], c01.row_id(mm[0]), None)}
    rows = [(m, c01.row_id(m)) for m in mm]
    perrow = pos in ('projT', 'filter', 'order') or (pos == 'subq' and q.fors[0][0] == 'o')
    todo = []
    if perrow and all(rid is not None for _, rid in rows) and all(m.kind in ('value', 'missing', 'extra') for m, _ in rows):
        seen = set()
        for m, rid in rows:
            if rid in seen: continue
            seen.add(rid)
            b = blame(eng, st, E, rid)
            if b:
                for M in b: out.setdefault((src(M), rid), (expr_sig(eng, st, M, rid), m, rid, M))
            else: todo.append((m, rid))
    else:
        r = proj_status(eng, st, E)
        bad = sorted(rid for rid, ok in r.items() if ok is False and rid != '?') if not isinstance(r, str) else []
        for rid in bad[:6]:
            for M in blame(eng, st, E, rid): out.setdefault((src(M), rid), (expr_sig(eng, st, M, rid), mm[0], rid, M))
        if not out: todo = [(mm[0], c01.row_id(mm[0]))]
    for m, rid in todo:
        # position-specific: does not reproduce as a projection
        if perrow and rid is not None and st['pids'].get(rid) is not None:
            cl = qx.operand_classes(st['ev'], E, qx.Env({'p': st['pids'][rid]}))
            out.setdefault(('@%s:%s' % (pos, m.kind), rid), ('%s: %s: %s [%s]' % (pos, m.kind, qx.op_skeleton(E), cl), m, rid, None))
        else:
            out.setdefault(('@%s:%s' % (pos, m.kind), None), ('%s: %s: %s' % (pos, m.kind, qx.op_skeleton(E)), m, rid, None))
    return out

def fails_as_projection(eng, st, M, rid):
    r = proj_status(eng, st, M)
    return not isinstance(r, str) and r.get(rid) is False

def _path(E, M):
    """ancestors of M inside E, innermost first (E last); None if M is not a sub-expression"""
    if E is M: return []
    for c in E.a:
        p_ = _path(c, M)
        if p_ is not None: return p_ + [E]
    return None
def _replace(A, M, new):
    if A is M: return new
    if not A.a: return A
    return X(A.op, A.t, [_replace(c, M, new) for c in A.a], A.v)

def reattribute(eng, base, st, E, M, rid):
    """M, a proper sub-expression of E blamed on engine `eng` for row rid, fails as a projection on the SQLite engine `base` as
    well, while the whole query fails on `eng` only: the dialect-specific cause sits above M. The smallest ancestor whose
    failure on `eng` (and not on SQLite) survives replacing M by a plain operand of the same type is blamed instead
    (DESIGN section 1.5: attribution by replacing the offending subtree by a fresh leaf). [] if none is found."""
    path = _path(E, M)
    if not path: return []
    leaves = qx.grammar_leaves(P).get(M.t, ())
    for A in path:
        for lf in leaves:
            A2 = _replace(A, M, lf)
            if fails_as_projection(eng, st, A2, rid) and not fails_as_projection(base, st, A2, rid):
                return [(X2, expr_sig(eng, st, X2, rid)) for X2 in blame(eng, st, A2, rid)]
    return []

def failing_part(eng, st, E, rid):
    """does some proper sub-expression of E fail on this engine on row rid (as projection)?"""
    for c in c01.scalar_children(E):
        if blame(eng, st, c, rid): return True
    return False
