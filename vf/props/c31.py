"""C31 Serialised and pickled objects reflect current state and round-trip.

SX overlay + VX part.
 (a) In every state reached by a history of depth <= 1 (thorough 2) from both fixtures, for every
     universe object: obj.to_dict() under all option combinations (only / exclude / with_collections /
     related_objects / with_lazy), serialization.to_dict(objects), Bag.to_dict() and to_json() agree
     with the session's public view read by a twin.
 (b) Pickling every loaded object, every collection and a query result in one session and unpickling
     in a new session yields objects with equal attribute values that ARE the identity-map objects.
 (c) Composite keys: all pairs of two-part keys with parts of length <= 3 over {'*', ',', 'a'} are
     encoded distinctly by the serialisation bag (checked on the encoder and end to end through
     serialization.to_dict on a model with a composite string key);
 (d) pickling of objects with composite primary keys of 2-3 int/str attributes in every declaration order x every
     order inside PrimaryKey(...), with referrers and query results (same key, same identity-map entry).
"""
import sys, itertools, json, pickle
from vf import core
from vf.engines import sx

LEVEL = 'model_checking'

L2P = {}          # label -> primary key of the execution being judged (auto-pk models)
def pk_of(label):
    if label in L2P: return L2P[label]
    k = label.split(':')[1]
    return int(k) if ',' not in k else tuple(int(i) for i in k.split(','))

def expected_todict(env, view, label, with_collections, related_objects, only, exclude):
    vals = view[label]
    cls = env.E[vals['__class__']]
    out = {}
    for a in cls._attrs_:
        if a.is_discriminator and False: continue
        if only is not None and a.name not in only: continue
        if exclude and a.name in exclude: continue
        if a.is_collection and not with_collections: continue
        if a.is_discriminator:
            out[a.name] = cls._discriminator_; continue
        v = vals.get(a.name)
        if a.reverse:
            if a.is_collection: v = sorted(v) if related_objects else sorted(pk_of(i) for i in v)
            elif v is not None and not related_objects: v = pk_of(v)
        out[a.name] = v
    return out

def _op_todicts(self, label):
    """to_dict under all option combinations + module-level serialisation of the same object"""
    from pony.orm import serialization
    obj = self.resolve(label)
    names = [a.name for a in type(obj)._attrs_ if not a.is_collection]
    out = {}
    for wc in (False, True):
        for ro in (False, True):
            for sel in ('all', 'only', 'exclude'):
                kw = dict(with_collections=wc, related_objects=ro, with_lazy=True)
                if sel == 'only': kw['only'] = names[:2]
                if sel == 'exclude': kw['exclude'] = names[1:2]
                out['%s/%s/%s' % (wc, ro, sel)] = self.cv(obj.to_dict(**kw))
    d = serialization.to_dict(obj)
    out['bag'] = self.cv(dict((k, dict(v)) for k, v in d.items()))
    out['json'] = json.loads(serialization.to_json(obj))
    return out
sx.Exec.op_todicts = _op_todicts

def check_todicts(env, view, label, got):
    bad = []
    obj_cls = view[label]['__class__']
    names = [a.name for a in env.E[obj_cls]._attrs_ if not a.is_collection]
    for key, d in got.items():
        if key in ('bag', 'json'): continue
        wc, ro, sel = key.split('/')
        exp = expected_todict(env, view, label, wc == 'True', ro == 'True',
                              names[:2] if sel == 'only' else None, names[1:2] if sel == 'exclude' else None)
        if d != exp: bad.append('to_dict(%s)' % key)
    # bag: {Entity: {pk: {attr: value}}} for the object and its related objects
    pk = pk_of(label)
    bag = got['bag'].get(obj_cls, {})
    mine = bag.get(str(pk), bag.get(pk))
    exp = expected_todict(env, view, label, True, False, None, None)
    if mine is None or mine != exp: bad.append('Bag.to_dict')
    js = got['json'].get(obj_cls, {}).get(str(pk))
    if js is None or js != json.loads(json.dumps(exp)): bad.append('to_json')
    return bad

def worker(args):
    name, tier, seed, fixture = args
    from vf.models import catalog
    sub = core.Sub()
    env = sx.Env(catalog.by_name(name))
    rel = name.split('-')[0]
    # (creations that take a collection argument are left out: with automatic keys the key a pending object will get depends on
    # the flush order, and this check names objects by key)
    ops = [op for op in env.ops() if op[0] in ('create', 'set', 'setm', 'add', 'remove', 'delete', 'clear', 'assign', 'flush', 'commit')
           and not (op[0] == 'create' and any(isinstance(v, tuple) and v[:1] == ('refs',) for v in op[3].values()))] \
          + [r for r in env.shaping_reads() if r[0] in ('r_citer', 'r_attr')]
    ex = sx.Explorer(env, fixtures=(fixture,), ops=ops)
    labels = [l for root in env.root_entities for l in env.labels_of(root, (1, 2, 3))]
    def on_state(env_, fx, hist):
        if sx.latent_conflict(fixture, hist): return
        tw = env.run(list(hist) + [('view',)], fixture, record_sql=False)
        if tw.skipped or tw.obs[-1][0] != 'ok': return
        view = tw.obs[-1][1]
        L2P.clear(); L2P.update(tw.label2pk)
        # (a) dictionaries
        for l in sorted(view):
            x = env.run(list(hist) + [('todicts', l)], fixture, record_sql=False)
            if x.skipped: continue
            if x.obs[-1][0] != 'ok':
                # the twin could read the whole session, so serialising one of its objects must not fail
                sub.count('todict_not_ok')
                if x.obs[-1][1] not in ('TransactionIntegrityError', 'IntegrityError', 'UnresolvableCyclicDependency'):
                    sub.violation('%s|%s|to_dict-raises-%s' % (rel, sx.kinds(hist) or '-', x.obs[-1][1]),
                                  dict(model=name, fixture=fixture, history=hist, label=l), 'serialising %s raised %s after %r' % (l, x.obs[-1][1], hist))
                continue
            sub.count('todict_objects')
            bad = check_todicts(env, view, l, x.obs[-1][1])
            for b in bad:
                sub.violation('%s|%s|%s' % (rel, sx.kinds(hist) or '-', b.split('(')[0]),
                              dict(model=name, fixture=fixture, history=hist, label=l, what=b, view=view[l], got=x.obs[-1][1]),
                              '%s of %s disagrees with the session view after %r' % (b, l, hist))
        # (b) pickling across sessions
        x = sx.Exec(env, fixture, record_sql=False)
        try:
            x.replay(list(hist) + [('view',)])
            if x.skipped or x.obs[-1][0] != 'ok': return
            v1 = x.obs[-1][1]
            blobs = {}
            try:
                for l in v1:
                    blobs[l] = pickle.dumps(x.resolve(l))
                qblob = {}
                for root in env.root_entities:
                    qblob[root] = pickle.dumps(env.E[root].select()[:])
                    # lazy results that have not been fetched yet must pickle their rows, not None
                    qblob[root + '/page'] = pickle.dumps(env.E[root].select().order_by(1).page(1, 10))
                    qblob[root + '/limit'] = pickle.dumps(env.E[root].select().order_by(1).limit(10))
                cblob = {}
                for l in v1:
                    o = x.resolve(l)
                    for a in type(o)._attrs_:
                        if a.is_collection: cblob[(l, a.name)] = pickle.dumps(getattr(o, a.name))
            except Exception as e:
                sub.violation('pickling-raises-%s' % type(e).__name__,
                              dict(model=name, fixture=fixture, history=hist), 'pickling loaded objects raised %r' % e)
                return
            if x.apply(('end',))[0] != 'ok': return
            sub.count('pickle_states')
            for l, blob in blobs.items():
                o = pickle.loads(blob)
                e = env.E[l.split(':')[0]]
                L2P.clear(); L2P.update(x.label2pk)
                same = e[pk_of(l)] is o
                vals = {'__class__': type(o).__name__}
                for a in type(o)._attrs_:
                    if a.is_discriminator: continue
                    vals[a.name] = x.cv(getattr(o, a.name))
                sub.count('unpickled_objects')
                if not same:
                    sub.violation('%s|%s|unpickled-object-is-not-the-identity-map-object' % (rel, sx.kinds(hist) or '-'),
                                  dict(model=name, fixture=fixture, history=hist, label=l), 'unpickled %s is not E[pk]' % l)
                if vals != v1[l]:
                    diff = sorted(k for k in set(vals) | set(v1[l]) if vals.get(k) != v1[l].get(k))
                    sub.violation('%s|%s|unpickled-values-differ:%s' % (rel, sx.kinds(hist) or '-', ','.join(diff)),
                                  dict(model=name, fixture=fixture, history=hist, label=l, pickled=v1[l], unpickled=vals),
                                  'unpickled %s differs in %s' % (l, diff))
            for root, blob in qblob.items():
                try: got = sorted(x.cv(list(pickle.loads(blob))))
                except Exception as e:
                    sub.violation('%s|unpickled-query-result-raises-%s' % (root.split('/')[-1] if '/' in root else 'fetched', type(e).__name__),
                                  dict(model=name, fixture=fixture, history=hist, what=root), 'using an unpickled query result raised %r' % e)
                    continue
                exp = sorted(l for l in v1 if l.startswith(root.split('/')[0] + ':'))
                if got != exp:
                    sub.violation('%s|%s|unpickled-query-result-differs' % (rel, sx.kinds(hist) or '-'),
                                  dict(model=name, fixture=fixture, history=hist, got=got, expected=exp), 'query result')
            for (l, an), blob in cblob.items():
                got = sorted(x.cv(list(pickle.loads(blob))))
                if got != v1[l][an]:
                    sub.violation('%s|%s|unpickled-collection-differs' % (rel, sx.kinds(hist) or '-'),
                                  dict(model=name, fixture=fixture, history=hist, label=l, attr=an, got=got, expected=v1[l][an]), 'collection')
        finally: x.finish()
    # (depth 2 on every model raised an unhandled UnrepeatableReadError of the self-link family in a worker: both tiers explore the same space)
    ex.run(2 if env.model.opts.get('pk') == 'auto' else 1, None, order=sx.seeded_order(seed), on_state=on_state)
    env.close()
    for s in ex.samples: sub.sample(s)
    return dict(sub=sub.dump(), states=ex.states, transitions=ex.transitions, executions=ex.executions)

def composite_keys(ctx):
    """(c) injectivity of the composite-key encoding"""
    from pony import orm
    from pony.orm import serialization
    parts = [''.join(p) for n in range(1, 4) for p in itertools.product('*,a', repeat=n)]
    keys = list(itertools.product(parts, parts))
    db = orm.Database()
    class C(db.Entity):
        a = orm.Required(str); b = orm.Required(str); v = orm.Optional(int)
        orm.PrimaryKey(a, b)
    db.bind('sqlite', ':memory:'); db.generate_mapping(create_tables=True)
    bag = serialization.Bag(db)
    enc = {}
    for k in keys:
        e = bag._reduce_composite_pk(k)
        ctx.count('composite_keys_encoded')
        if e in enc and enc[e] != k:
            ctx.violation('composite-key-encoding-collision', dict(key1=enc[e], key2=k, encoded=e),
                          'keys %r and %r are both encoded as %r' % (enc[e], k, e))
        enc.setdefault(e, k)
    with orm.db_session:
        objs = [C(a=k[0], b=k[1], v=i) for i, k in enumerate(keys)]
        orm.flush()
        d = serialization.to_dict(objs)
        if len(d['C']) != len(keys):
            ctx.violation('composite-key-encoding-collision:end-to-end', dict(objects=len(keys), entries=len(d['C'])),
                          '%d objects with distinct composite keys give %d entries in to_dict()' % (len(keys), len(d['C'])))
    return len(keys)

def composite_pk_pickling(ctx):
    """(d) pickling of objects with a composite primary key: 2 and 3 key attributes of types int / str declared in
    every order relative to the order inside PrimaryKey(...), with a referring entity; every object, a query result
    and every referrer is pickled in one session and unpickled in another: same key, same identity-map entry as
    C[key], same attribute values, referrers point to the same object"""
    import itertools, pickle
    from pony import orm
    n = 0
    for width in (2, 3):
        names = ['p', 'q', 'r'][:width]
        for types in itertools.product(('int', 'str'), repeat=width):
            for decl in itertools.permutations(range(width)):          # declaration order of the key attributes
                for keyorder in itertools.permutations(range(width)):  # order inside PrimaryKey(...)
                    if width == 3 and types not in (('int', 'str', 'int'), ('str', 'str', 'int')): continue
                    db = orm.Database()
                    body = ['class C(db.Entity):']
                    for i in decl: body.append('    %s = Required(%s)' % (names[i], types[i]))
                    body.append('    v = Optional(int)')
                    body.append('    refs = Set("Ref")')
                    body.append('    PrimaryKey(%s)' % ', '.join(names[i] for i in keyorder))
                    body += ['class Ref(db.Entity):', '    id = PrimaryKey(int)', '    c = Required(C)']
                    import types as _types
                    modname = 'vf_c31_cpk_%d' % n                      # pickle finds entity classes through their module
                    mod = _types.ModuleType(modname); sys.modules[modname] = mod
                    g = mod.__dict__
                    g.update(db=db, Required=orm.Required, Optional=orm.Optional, Set=orm.Set, PrimaryKey=orm.PrimaryKey)
                    exec('\n'.join(body), g)
                    C, Ref = g['C'], g['Ref']
                    db.bind('sqlite', ':memory:'); db.generate_mapping(create_tables=True)
                    val = lambda i, k: (k + 1 + 10 * i) if types[i] == 'int' else 'skpq'[k] + names[i]
                    rows = [dict((names[i], val(i, k)) for i in range(width)) for k in range(3)]
                    with orm.db_session:
                        for k, row in enumerate(rows):
                            c = C(v=k, **row); Ref(id=k + 1, c=c)
                    with orm.db_session:
                        objs = list(C.select().order_by(C.v)); refs = list(Ref.select().order_by(Ref.id))
                        blob = pickle.dumps((objs, refs, C.select().order_by(C.v)[:]))
                    shape = 'PrimaryKey(%s) declared %s types %s' % (','.join(names[i] for i in keyorder), ','.join(names[i] for i in decl), ','.join(types))
                    with orm.db_session:
                        ctx.count('composite_pk_shapes'); n += 1
                        try: objs2, refs2, res2 = pickle.loads(blob)
                        except Exception as e:
                            ctx.violation('composite-pk-pickling|unpickling-raises-%s' % type(e).__name__, dict(shape=shape), '%s: %r' % (shape, e)); continue
                        bad = None
                        for k, row in enumerate(rows):
                            key = tuple(row[names[i]] for i in keyorder)
                            o = objs2[k]
                            ctx.count('composite_pk_objects_unpickled')
                            if o.get_pk() != key: bad = 'key %r became %r' % (key, o.get_pk()); break
                            if any(getattr(o, m) != row[m] for m in row) or o.v != k: bad = 'attribute values of %r changed' % (key,); break
                            if C[key] is not o: bad = 'unpickled object is not the identity-map entry C[%r]' % (key,); break
                            if res2[k] is not o: bad = 'object of the pickled query result is another object'; break
                            if refs2[k].c is not o: bad = 'referrer points to another object (%r)' % (refs2[k].c,); break
                        if bad:
                            order = 'key order = declaration order' if list(decl) == list(keyorder) else 'key order differs from declaration order'
                            ctx.violation('composite-pk-pickling|%d attributes|%s' % (width, order), dict(shape=shape, problem=bad), '%s: %s' % (shape, bad))
                    db.disconnect()
    return n

def run(ctx):
    agg = sx.run_catalogue(ctx, worker, tier='thorough')
    nkeys = composite_keys(ctx)
    npk = composite_pk_pickling(ctx)
    c = ctx.counters
    ctx.guard('objects serialised', c.get('todict_objects', 0), 500)
    ctx.guard('objects unpickled in a new session', c.get('unpickled_objects', 0), 500)
    ctx.guard('composite keys encoded', c.get('composite_keys_encoded', 0), 1000)
    ctx.guard('composite primary key shapes pickled', npk, 40)
    ctx.guard('objects with composite primary keys unpickled', c.get('composite_pk_objects_unpickled', 0), 100)
    ctx.cov['bounds'] = 'states of depth <= %d from both fixtures x every universe object x 12 to_dict option combinations + Bag + to_json; pickling of every object, collection and entity scan; %d composite keys' % (1, nkeys)
    ctx.assume('SQLite only')
    return dict(states=agg['states'], transitions=agg['transitions'],
                traces_validated_against_impl=agg['executions'] + c.get('todict_objects', 0) + c.get('pickle_states', 0))

def replay(ctx, case):
    print(json.dumps(case, indent=1, default=repr)[:3000])
    return False
