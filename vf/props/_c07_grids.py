"""C07 helper: attribute specs, boundary value grids, value classes, value encoding.

Everything here is data about *what is enumerated*; nothing is copied from Pony. Values are
encoded with repr() and decoded with eval() in a closed namespace so that a case is JSON-able."""
import math, decimal
from datetime import date, time, datetime, timedelta
from decimal import Decimal
from uuid import UUID

nan, inf = float('nan'), float('inf')
_NS = dict(datetime=__import__('datetime'), Decimal=Decimal, UUID=UUID, nan=nan, inf=inf, bytearray=bytearray,
           __builtins__={})

def enc(v):
    return repr(v)

def dec(s):
    return eval(s, dict(_NS))

# ---- specs --------------------------------------------------------------------------------------
# (family, option tag, type key, positional args, keyword args)
_BASE = [
    ('bool', '', 'bool', (), {}),
    ('int', '', 'int', (), {}),
    ('int', 'size8', 'int', (), dict(size=8)),
    ('int', 'size16', 'int', (), dict(size=16)),
    ('int', 'size24', 'int', (), dict(size=24)),
    ('int', 'size32', 'int', (), dict(size=32)),
    ('int', 'size64', 'int', (), dict(size=64)),
    ('int', 'size8u', 'int', (), dict(size=8, unsigned=True)),
    ('int', 'size16u', 'int', (), dict(size=16, unsigned=True)),
    ('int', 'size24u', 'int', (), dict(size=24, unsigned=True)),
    ('int', 'size32u', 'int', (), dict(size=32, unsigned=True)),
    ('float', '', 'float', (), {}),
    ('Decimal', '', 'Decimal', (), {}),                 # default (12, 2)
    ('Decimal', 'p5s1', 'Decimal', (5, 1), {}),
    ('Decimal', 'p10s4', 'Decimal', (10, 4), {}),
    ('Decimal', 'p15s6', 'Decimal', (15, 6), {}),
    ('Decimal', 'p30s10', 'Decimal', (30, 10), {}),
    ('str', '', 'str', (), {}),
    ('str', 'max3', 'str', (3,), {}),
    ('str', 'nostrip', 'str', (), dict(autostrip=False)),
    ('str', 'nullable', 'str', (), dict(nullable=True)),
    ('str', 'long', 'LongStr', (), {}),
    ('bytes', '', 'bytes', (), {}),
    ('date', '', 'date', (), {}),
    ('time', '', 'time', (), {}),
    ('time', 'p0', 'time', (0,), {}),
    ('time', 'p3', 'time', (3,), {}),
    ('time', 'p6', 'time', (), dict(precision=6)),
    ('time', 'p1', 'time', (1,), {}),
    ('time', 'p2', 'time', (2,), {}),
    ('time', 'p4', 'time', (4,), {}),
    ('time', 'p5', 'time', (5,), {}),
    ('datetime', '', 'datetime', (), {}),
    ('datetime', 'p0', 'datetime', (0,), {}),
    ('datetime', 'p3', 'datetime', (3,), {}),
    ('datetime', 'p6', 'datetime', (), dict(precision=6)),
    ('datetime', 'p1', 'datetime', (1,), {}),
    ('datetime', 'p2', 'datetime', (2,), {}),
    ('datetime', 'p4', 'datetime', (4,), {}),
    ('datetime', 'p5', 'datetime', (5,), {}),
    ('timedelta', '', 'timedelta', (), {}),
    ('timedelta', 'p0', 'timedelta', (0,), {}),
    ('timedelta', 'p3', 'timedelta', (3,), {}),
    ('timedelta', 'p6', 'timedelta', (), dict(precision=6)),
    ('timedelta', 'p1', 'timedelta', (1,), {}),
    ('timedelta', 'p2', 'timedelta', (2,), {}),
    ('timedelta', 'p4', 'timedelta', (4,), {}),
    ('timedelta', 'p5', 'timedelta', (5,), {}),
    ('UUID', '', 'UUID', (), {}),
    ('Json', '', 'Json', (), {}),
    ('IntArray', '', 'IntArray', (), {}),
    ('StrArray', '', 'StrArray', (), {}),
    ('FloatArray', '', 'FloatArray', (), {}),
]

def specs():
    out = []
    for family, tag, tkey, args, kw in _BASE:
        for kind in ('Required', 'Optional'):
            if kind == 'Required' and kw.get('nullable'): continue
            n = len(out)
            decl = '%s(%s%s%s)' % (kind, tkey, ''.join(', %r' % a for a in args),
                                   ''.join(', %s=%r' % kv for kv in sorted(kw.items())))
            out.append(dict(name='E%03d' % n, kind=kind, tkey=tkey, args=tuple(args), kw=dict(kw),
                            family=family, tag=tag, decl=decl))
    return out

# lazy=True variants (SQLite part only): one per type, Required and Optional. The entity carries the same
# declaration twice - `a` lazy, `c` eager - so that the first-access fetch (Attribute.load -> db_set) is judged
# against the value written AND told apart from disagreements the eager read of the same value already has.
LAZY_FAMILIES = [(f, tag) for f, tag, _, _, _ in _BASE if tag in ('', 'long')]
def lazy_specs():
    out = []
    for family, tag, tkey, args, kw in _BASE:
        if (family, tag) not in LAZY_FAMILIES: continue
        for kind in ('Required', 'Optional'):
            decl = '%s(%s, lazy=True)' % (kind, tkey)
            out.append(dict(name='L%03d' % len(out), kind=kind, tkey=tkey, args=tuple(args), kw=dict(kw),
                            family=family, tag=tag, decl=decl, lazy=True))
    return out

def lazy_grid(spec, quick):
    """the type's boundary grid; the three big calendar grids are thinned in the quick tier (every 5th
    point + the ends): the lazy fetch shares sql2py with the eager read, which runs the full grid"""
    g = grid(spec, quick)
    if quick and len(g) > 120:
        tail = g[-3:]
        g = _dedup(g[:-3][::5] + tail)
    return g

def int_range(kw):
    size = kw.get('size') or 32
    if kw.get('unsigned'): return 0, 2 ** size - 1
    return -(2 ** (size - 1)), 2 ** (size - 1) - 1

THOROUGH_ONLY_TAGS = ('p1', 'p2', 'p4', 'p5')   # SQLite part: thorough tier only; codec part: always

def precision_of(spec, default=6):
    if spec['args']: return spec['args'][0]
    return spec['kw'].get('precision', default)

def decimal_ps(spec):
    return tuple(spec['args']) if spec['args'] else (12, 2)

# ---- grids --------------------------------------------------------------------------------------
US = [0, 1, 999, 1000, 100000, 123456, 500000, 999000, 999999]
US_MORE = [9, 10, 99, 100, 1001, 9999, 10000, 99999, 100001, 499999, 500001, 900000, 999990, 999900]

def _dedup(seq):
    seen, out = set(), []
    for v in seq:
        k = repr(v)
        if k not in seen: seen.add(k); out.append(v)
    return out

def grid(spec, quick):
    f = spec['family']
    out = globals()['_grid_' + f](spec, quick)
    if spec['kind'] == 'Optional': out = list(out) + [None]
    return _dedup(out)

def _grid_bool(spec, quick):
    return [True, False]

def _grid_int(spec, quick):
    lo, hi = int_range(spec['kw'])
    vals = [lo, lo + 1, -1, 0, 1, hi - 1, hi, lo - 1, hi + 1, 127, 128, 255, 256, 32767, 32768, 65535,
            2 ** 31 - 1, 2 ** 31, 2 ** 32 - 1, 2 ** 53, 2 ** 53 + 1, -(2 ** 53) - 1, True]
    if not quick:
        for k in range(0, 64):
            for d in (-1, 0, 1):
                vals += [2 ** k + d, -(2 ** k) + d]
        vals += list(range(-20, 21)) + [10 ** k for k in range(1, 19)] + [10 ** k - 1 for k in range(1, 19)]
    return [v for v in vals if lo - 1 <= v <= hi + 1]

def _grid_float(spec, quick):
    vals = [0.0, -0.0, 1.0, -1.0, 1.5, -1.5, 0.1, 0.2, 0.30000000000000004, 1 / 3.0, 1e-7, 1e22, 1e23, 1e-310,
            5e-324, 2.2250738585072014e-308, 1.7976931348623157e308, -1.7976931348623157e308,
            9007199254740993.0, 123456789.12345678, 1e15 + 0.3, 3, -7, 2 ** 70, inf, -inf, nan,
            math.pi, math.e, 1e100, 1e-100, 4.35, 2.675, 1.005]
    if not quick:
        for k in range(-1074, 1024, 7):
            vals += [math.ldexp(1.0, k), -math.ldexp(1.0, k)]
            if k > -1022: vals.append(math.ldexp(1.0 + 2 ** -52, k)); vals.append(math.ldexp(2.0 - 2 ** -52, k))
        vals += [k / 10.0 for k in range(-30, 31)] + [float('1e%d' % k) for k in range(-30, 31)]
    return vals

def _grid_Decimal(spec, quick):
    p, s = decimal_ps(spec)
    u = Decimal(10) ** -s               # one unit of the last stored digit
    h = u / 2                           # half a unit: a rounding tie
    e = u / 10
    top = Decimal(10) ** (p - s) - u    # largest value of DECIMAL(p, s)
    vals = [Decimal(0), Decimal('-0'), u, -u, Decimal(1), Decimal(-1), top, -top, top - u,
            Decimal('1.10'), Decimal('1E+2'), Decimal('12.5'), Decimal('0.5'),
            # more fractional digits than the scale: ties and non-ties, both signs
            h, -h, u + h, -(u + h), 2 * u + h, 1 + h, 1 - h, 1 + e, 1 - e, 1 + 4 * e, 1 + 6 * e, -(1 + 6 * e),
            h + e / 10, h - e / 10, Decimal(2) / 3, top - h + u,
            # other accepted input types
            7, -3, 0.1, 2.5, '1.10', '3',
            Decimal('1234567890123.45'), Decimal('123456789012345.67'), Decimal('12345678901234567.89'),
            Decimal('0.1234567890123456789')]
    if not quick:
        for k in range(0, p - s + 1):
            vals += [Decimal(10) ** k, Decimal(10) ** k - u, -(Decimal(10) ** k) + u, Decimal(10) ** k + h]
        for k in range(0, 40):
            vals += [k * e, -k * e, 1 + k * e / 10]
        vals += [Decimal(k) / 8 for k in range(-16, 17)] + [Decimal(k) / 1000 for k in range(-25, 26)]
    return vals

_ALPHA = [' ', 'a', 'A', "'", '"', '\\', '%', '_', '\x00', '\xe9', '\n', '\U0001F600', '0', '\t', '\xa0', '\u0131']
def _grid_str(spec, quick):
    vals = ['', 'a', 'abc', 'abcd', ' a ', 'a ', ' a', '  ', ' ', 'a b', "'", '"', '\\', '%', '_', "a'b", 'a"b', 'a\\b',
            '\x00', 'a\x00b', 'a\x00', '\xe9', 'e\u0301', '\xdf', '\u0131', '\u0130', '\u4e2d\u6587', '\U0001F600',
            '\U0001F600a', '\ud800', '\udfff', '\n', 'a\nb', '\r\n', '\t', '\xa0a\xa0', '\u2028', '\ufeff', '\ufffd',
            '0', '1', '-1', '1.0', '1e3', '0x10', '007', ' 1', 'NULL', 'null', 'None', 'true', '?', ':1', '%s', '%(a)s', '$x',
            'x' * 255, 'x' * 256, 'y' * 1000, '\xe9' * 3, '\U0001F600' * 3]
    if spec['tag'] == 'long' or not quick:
        vals += ['z' * 10000, '\xe9' * 5000, ('abc\n' * 3000)]
    if not quick:
        vals += _ALPHA + [a + b for a in _ALPHA for b in _ALPHA]
    return vals

def _grid_bytes(spec, quick):
    vals = [b'', b'\x00', b'a', b'abc', b'\x00\x00', b'a\x00b', b'\xff', b'\xff\xfe\xfd', b"'", b'"', b'\\', b'%',
            bytes(range(256)), b'\x80', b'\xc3\xa9', b'\xc3', b'x' * 1000, bytearray(b'ab'), 'text']
    if not quick:
        vals += [bytes([i]) for i in range(256)] + [bytes([i, 0]) for i in range(0, 256, 17)] + [b'y' * 100000]
    return vals

_DATES = [date(1, 1, 1), date(1, 12, 31), date(99, 1, 1), date(999, 12, 31), date(1000, 1, 1), date(1582, 10, 15),
          date(1899, 12, 31), date(1900, 1, 1), date(1969, 12, 31), date(1970, 1, 1), date(1999, 12, 31),
          date(2000, 2, 29), date(2001, 9, 9), date(2038, 1, 19), date(2100, 2, 28), date(9999, 12, 31)]
def _grid_date(spec, quick):
    vals = list(_DATES) + [datetime(2000, 2, 29, 23, 59, 59, 999999), '2000-02-29']
    if not quick:
        for y in (1, 9, 10, 99, 100, 999, 1000, 1900, 1970, 2000, 2024, 9999):
            for m, d in ((1, 1), (2, 28), (12, 31), (10, 9), (9, 10)):
                vals.append(date(y, m, d))
        vals += [date(2024, 2, 29), date(1600, 2, 29)]
    return vals

def _times(quick):
    out = []
    us = US if quick else US + US_MORE
    for h in (0, 1, 12, 23):
        for m in (0, 59):
            for s in (0, 59):
                for u in us: out.append(time(h, m, s, u))
    if not quick:
        for h in range(24): out.append(time(h, 30, 15, 250000))
        for m in range(60): out.append(time(7, m, m, m))
    return out

def _grid_time(spec, quick):
    return _times(quick) + ['10:20:30', '10:20']

def _datetimes(quick):
    out = []
    ds = [date(1, 1, 1), date(999, 12, 31), date(1000, 1, 1), date(1969, 12, 31), date(1970, 1, 1),
          date(2000, 2, 29), date(2038, 1, 19), date(9999, 12, 31)]
    if not quick: ds = _DATES
    us = US if quick else US + US_MORE
    for d in ds:
        for t in ((0, 0, 0), (23, 59, 59), (12, 34, 56), (1, 2, 3)):
            for u in us: out.append(datetime(d.year, d.month, d.day, t[0], t[1], t[2], u))
    return out

def _grid_datetime(spec, quick):
    return _datetimes(quick) + ['2000-02-29 12:34:56', '2000-02-29 12:34:56.5']

def _timedeltas(quick):
    out = []
    days = [0, 1, -1, 35, -35, 36525, 100000, -100000, 99999999, 999999999, -999999999]
    if not quick: days += [2, 7, 30, 31, 34, -34, 100, 365, 1000, 10000, -10000, -36525, 49999, 50000, 10 ** 6, 10 ** 7, -10 ** 7, 5 * 10 ** 8]
    secs = [0, 1, 86399] if quick else [0, 1, 59, 3600, 86398, 86399]
    us = US if quick else US + US_MORE
    for d in days:
        for s in secs:
            for u in us:
                if d == 999999999 and (s or u) and (s, u) != (86399, 999999): continue
                out.append(timedelta(d, s, u))
    return out

def _grid_timedelta(spec, quick):
    return _timedeltas(quick) + ['1:02:03', '-1:02:03.5']

def _grid_UUID(spec, quick):
    vals = [UUID(int=0), UUID(int=1), UUID(int=2 ** 128 - 1), UUID('12345678-1234-5678-1234-567812345678'),
            UUID(bytes=b'\x00' * 15 + b'\x01'), UUID(bytes=b"'\"\\%_\x00\xff\x80abcdefgh"),
            '12345678123456781234567812345678', 5, b'0123456789abcdef']
    if not quick:
        vals += [UUID(int=1 << k) for k in range(128)]
    return vals

def _deep(n, leaf):
    v = leaf
    for i in range(n): v = [v] if i % 2 else {'k': v}
    return v

def _grid_Json(spec, quick):
    vals = [True, False, 0, 1, -1, 2 ** 31, 2 ** 53 + 1, 2 ** 63 - 1, 2 ** 63, 2 ** 64 + 1, -2 ** 63 - 1, 10 ** 30,
            1.5, -0.0, 0.1, 1.0, 1e22, 1e-7, 1e300, 5e-324,
            '', 'x', ' x ', '1', '1.5', 'true', 'null', '[1]', '{"a":1}', '\xe9', '\x00', 'a\x00b', '\U0001F600', '"', "'", '\\', '\n',
            [], {}, [[]], [{}], {'a': {}}, [None], {'a': None}, [1, 2, 3], [3, 2, 1], {'a': 1, 'b': 2}, {'b': 2, 'a': 1},
            [None, True, False, 0, 1.5, 'x', [], {}], {'a': [1, {'b': [2, {'c': None}]}]},
            {'': 0}, {' ': 1}, {'a b': 1}, {'"': 1}, {"'": 1}, {'\\': 1}, {'\xe9': '\xe9'}, {'\U0001F600': '\U0001F600'},
            {'1': 1}, {'a.b': 1}, {'$': 1}, {'a': 1.0}, {'a': 2 ** 64 + 1}, [2 ** 64 + 1], [1e22], {'a': '\x00'},
            _deep(30, 1), _deep(31, 'leaf'), dict(('k%03d' % i, i) for i in range(300)), list(range(500)),
            ['x' * 5000], {'a': [1.5] * 100}]
    if not quick:
        vals += [_deep(n, n) for n in range(1, 120, 7)]
        vals += [{c: c} for c in _ALPHA] + [[c] for c in _ALPHA] + [c for c in _ALPHA]
        vals += [2 ** k for k in range(50, 70)] + [float(2 ** k) for k in range(50, 70)]
        vals += [dict(('k%05d' % i, [i, str(i)]) for i in range(5000))]
    return vals

def _grid_IntArray(spec, quick):
    vals = [[], [0], [1], [-1], [1, 2, 3], [3, 2, 1], [1, 1], [2 ** 31 - 1], [-2 ** 31], [2 ** 31], [2 ** 53 + 1],
            [2 ** 63 - 1], [-2 ** 63], [2 ** 63], [10 ** 30], list(range(300)), [True], (1, 2), 5]
    if not quick: vals += [[2 ** k, -(2 ** k)] for k in range(70)]
    return vals

def _grid_StrArray(spec, quick):
    vals = [[], [''], ['a'], ['a', 'b'], ['b', 'a'], ['a', 'a'], ['', ''], [' a '], ['\xe9', '\U0001F600'],
            ['a"b', "a'b", 'a,b', 'a\\b', '[', ']', '{}'], ['\x00'], ['a\x00b'], ['\n'], ['null'], ['1'],
            ['x' * 5000], [str(i) for i in range(300)], 'single', ('t',)]
    if not quick: vals += [[c] for c in _ALPHA] + [[a, b] for a in _ALPHA[:6] for b in _ALPHA[6:12]]
    return vals

def _grid_FloatArray(spec, quick):
    vals = [[], [0.0], [-0.0], [1.5], [1.5, -2.5], [0.1, 0.2, 0.30000000000000004], [1e22, 1e-7], [1e300, 5e-324],
            [1, 2], [1, 2.5], [2 ** 53 + 1], [1.7976931348623157e308], [inf], [-inf], [nan], [float(i) / 7 for i in range(200)], 2.5]
    if not quick: vals += [[math.ldexp(1.0, k)] for k in range(-1074, 1024, 37)]
    return vals

# ---- value classes (the "region" part of a signature) -----------------------------------------------
def frac_digits(d):
    t = d.as_tuple()
    if not isinstance(t.exponent, int): return 0
    if t.exponent >= 0: return 0
    digits = list(t.digits)
    n = -t.exponent
    while n > 0 and digits and digits[-1] == 0: digits.pop(); n -= 1   # trailing zeros do not count
    return n

def sig_digits(d):
    t = d.as_tuple()
    if not isinstance(t.exponent, int): return 0
    return len(''.join(map(str, t.digits)).strip('0')) or 1

def _has_float(v, pred):
    if isinstance(v, float): return pred(v)
    if isinstance(v, (list, tuple)): return any(_has_float(i, pred) for i in v)
    if isinstance(v, dict): return any(_has_float(i, pred) for i in v.values())
    return False

def _has_int(v, pred, depth=0):
    if isinstance(v, bool): return False
    if isinstance(v, int): return pred(v)
    if isinstance(v, (list, tuple)): return any(_has_int(i, pred, depth + 1) for i in v)
    if isinstance(v, dict): return any(_has_int(i, pred, depth + 1) for i in v.values())
    return False

SIG15, FRAC = 'more than 15 significant digits', 'more fraction digits than the scale'
def decimal_facts(spec, seen):
    """Every true fact about a Decimal that can matter for storage, most specific first."""
    p, s = decimal_ps(spec)
    if not seen.is_finite(): return ['non-finite']
    with decimal.localcontext() as c:
        c.prec = 200
        stored = seen.quantize(Decimal(10) ** -s)
    facts = []
    if sig_digits(stored) > 15: facts.append(SIG15)
    if frac_digits(seen) > s: facts.append(FRAC)
    return facts or ['fits scale']

def vclass(spec, seen):
    """Coarse, deterministic class of the value the program saw after flush."""
    f = spec['family']
    if seen is None: return 'None'
    if f == 'int':
        return 'int' if abs(seen) < 2 ** 63 else '|int|>=2**63'
    if f == 'float':
        if seen != seen: return 'nan'
        if seen in (inf, -inf): return 'inf'
        return 'finite'
    if f == 'Decimal' and isinstance(seen, Decimal):
        return decimal_facts(spec, seen)[0]
    if f == 'str' and isinstance(seen, str):
        if seen == '': return 'empty'
        if any(0xD800 <= ord(c) <= 0xDFFF for c in seen): return 'lone surrogate'
        if '\x00' in seen: return 'contains NUL'
        return 'text'
    if f == 'bytes': return 'empty' if not seen else 'bytes'
    if f == 'date' and isinstance(seen, date): return 'year<1000' if seen.year < 1000 else 'year>=1000'
    if f == 'datetime' and isinstance(seen, datetime): return 'year<1000' if seen.year < 1000 else 'year>=1000'
    if f == 'timedelta' and isinstance(seen, timedelta):
        a = abs(seen.days if seen.days >= 0 else seen.days + 1)
        return '|days|>=50000' if a >= 50000 else '|days|<50000'
    if f == 'Json':
        if _has_float(seen, lambda x: x != x): return 'contains nan'
        if isinstance(seen, (bool, str)): return 'top-level bool or str'
        if isinstance(seen, int): return 'top-level int' if abs(seen) < 2 ** 63 else 'top-level |int|>=2**63'
        if isinstance(seen, float): return 'top-level float'
        if _has_int(seen, lambda x: abs(x) >= 2 ** 63): return 'container with |int|>=2**63'
        return 'container'
    if f == 'FloatArray':
        if _has_float(seen, lambda x: x != x): return 'contains nan'
        if _has_float(seen, lambda x: x in (inf, -inf)): return 'contains inf'
        return 'empty' if not seen else 'array'
    if f in ('IntArray', 'StrArray'):
        if not seen: return 'empty'
        if f == 'IntArray' and _has_int(seen, lambda x: abs(x) >= 2 ** 63): return '|int|>=2**63'
        return 'array'
    return 'value'
