"""C12 Both ends of every relationship stay consistent.

SX monitor: at the end state of every explored history the public view of the session (every
attribute and collection of every universe object, read through the public API, once without and once
with a preceding flush) must be internally consistent for every pair of reverse attributes: b is in a's
collection exactly when b's reference (or collection) contains a, one-to-one links are mutual,
symmetric relations are symmetric. Loaded, partially loaded and pending collection states all arise
from the populated fixture.
"""
from vf import core
from vf.engines import sx

LEVEL = 'model_checking'

def inconsistencies(env, view):
    """list of (entity.attr, kind) for every asymmetric pair in a view {label: {attr: value}}"""
    bad = set()
    for lbl, vals in view.items():
        if vals is None: continue
        cls = env.E[vals['__class__']]
        for a in cls._attrs_:
            rev = a.reverse
            if not rev: continue
            v = vals.get(a.name)
            targets = v if a.is_collection else ([v] if v is not None else [])
            for t in targets:
                tv = view.get(t)
                if tv is None:
                    bad.add(('%s.%s' % (a.entity.__name__, a.name), 'points-to-object-that-does-not-exist')); continue
                back = tv.get(rev.name)
                backs = back if rev.is_collection else ([back] if back is not None else [])
                if lbl not in backs:
                    bad.add(('%s.%s' % (a.entity.__name__, a.name), 'other-end-%s.%s-disagrees' % (rev.entity.__name__, rev.name)))
    return sorted(bad)

def worker(args):
    name, tier, seed, fixture = args
    from vf.models import catalog
    sub = core.Sub()
    env = sx.Env(catalog.by_name(name))
    rel = name.split('-')[0]
    ops = [op for op in env.ops() if op[0] != 'qdel'] + env.shaping_reads()          # bulk delete bypasses the cache by design (C15)
    ex = sx.Explorer(env, fixtures=(fixture,), ops=ops)
    presigs = {}
    def check(hist, which):
        x = env.run(list(hist) + [(which,)], fixture, record_sql=False)
        if x.skipped: return None
        o = x.obs[-1]
        if o[0] != 'ok':
            # reading the session failed (typically the implicit flush of a latent conflict): whether
            # reads may fail is C10/C13's question, not this property's
            return None
        return inconsistencies(env, o[1])
    def on_state(env_, fx, hist):
        if sx.latent_conflict(fixture, hist): return
        for which in ('view_noflush', 'view'):
            bad = check(hist, which)
            sub.count('views_checked')
            if bad: sub.count('pairs_of_ends_checked', 0)
            if not bad: continue
            pre = (sx.kinds(hist), which, tuple(bad))
            if pre in presigs:
                sub.violation(presigs[pre], {}, ''); continue
            small = sx.shrink(list(hist) + [(which,)], lambda h: bool(check(h[:-1], which)))[:-1]
            bad2 = check(small, which) or bad
            sig = '%s|%s|%s' % (rel, sx.kinds(small) or '-', ';'.join('%s:%s' % b for b in bad2))
            presigs[pre] = sig
            sub.violation(sig, dict(model=name, fixture=fixture, history=small, read=which, inconsistent=bad2),
                          'after %r the two ends disagree: %s' % (small, bad2))
    ex.run(3 if tier != 'quick' and sx.deep_model(name, fixture) else 2, None, order=sx.seeded_order(seed), on_state=on_state)
    env.close()
    for s in ex.samples: sub.sample(s)
    return dict(sub=sub.dump(), states=ex.states, transitions=ex.transitions, executions=ex.executions)

def run(ctx):
    agg = sx.run_catalogue(ctx, worker, tier='quick' if ctx.quick else 'thorough')
    ctx.guard('views checked', ctx.counters.get('views_checked', 0), 1000)
    ctx.cov['per_model'] = agg['per_model']
    ctx.cov['bounds'] = 'every distinct state reachable by histories of depth <= %s from every fixture; view read without and with a preceding flush' % ('2' if ctx.quick else '3 (plain one-to-many and many-to-many models from the populated fixture; 2 for the option variants)')
    ctx.assume('SQLite only; two objects per entity + one creatable')
    return dict(states=agg['states'], transitions=agg['transitions'],
                traces_validated_against_impl=agg['executions'] + ctx.counters.get('views_checked', 0))

def replay(ctx, case):
    from vf.models import catalog
    env = sx.Env(catalog.by_name(case['model']))
    hist = [tuple(tuple(x) if isinstance(x, list) else x for x in o) for o in case['history']]
    x = env.run(hist + [(case['read'],)], case['fixture'])
    print(x.obs)
    bad = inconsistencies(env, x.obs[-1][1]) if x.obs[-1][0] == 'ok' else [('view', 'raises')]
    print('inconsistent:', bad)
    env.close()
    return not bad
