"""C04 Outer-scope expressions inside a query are evaluated exactly as Python would; regenerating
source text from an expression tree (ast2src) and compiling it again never changes its meaning.

Bounded-exhaustive enumeration (VX), nothing sampled.

 Oracle 1 (pure, `src`): every expression tree over an operator alphabet covering all precedence
   levels (lambda, conditional, or, and, not, comparisons incl. chains, | ^ & << >> + - * / // % @,
   unary - + ~, **, attribute / call / subscript / slice with compound bases, keyword / star
   arguments, displays, f-strings with conversions, specs, nested fields, literal braces and both
   quote kinds, generator arguments) and a set of special leaves (negative / float / inf / complex /
   str / bytes constants, constant tuples as the decompiler produces them) is regenerated with
   pony.orm.asttranslation.ast2src and parsed again:  norm(parse(ast2src(tree))) == norm(tree),
   where norm only folds what CPython itself folds (signed number literals, constant tuples,
   adjacent f-string literals).  An exception from ast2src, or regenerated text that does not
   compile (Pony then raises SyntaxError to the caller), is a refusal: allowed and counted.

 Oracle 2 (end to end, `e2e`): typed expressions over names that live in the caller's locals, an
   enclosing function's cells and module globals -- each name shadowed by *different* values in
   the outer scopes -- are used as the external operand of `p.<attr> == (E)` in a real query on an
   in-memory SQLite database through five front ends (generator object, query string, Entity.select
   (lambda), Query.filter(lambda), Query.where(string)).  The value bound as DB-API parameter (read
   from the driver-call log, vf.seams.dbapi) must equal what Python computes for E in place, under
   every assignment of the names over a small domain.

 Cache histories (`cache`): the same query text / the same code object used from call sites whose
   namespaces differ (different values, a name that is a query variable at one site and an external
   at the other, a name that is a translatable builtin at one site and a user function at the
   other) must give each site the answer Python would compute there.

Signatures are minimal failing shapes (shrunk by subtree->leaf replacement and hoisting).
"""
import ast, itertools, sys, types, warnings
from vf import core
warnings.simplefilter('ignore', SyntaxWarning)

LEVEL = 'exploration'

# =================================================================================================
# Oracle 1: skeletons.  A skeleton is a leaf token (str) or (opname, child, ...).
def N(id): return ast.Name(id, ast.Load())
def K(v): return ast.Constant(v)
def _fstr(src):
    return lambda: ast.parse(src, mode='eval').body

LEAVES = {
    'a': lambda: N('a'),
    '1': lambda: K(1), '-1': lambda: K(-1), '1.5': lambda: K(1.5), '-1.5': lambda: K(-1.5), 'inf': lambda: K(float('inf')),
    '2j': lambda: K(2j), '1e100': lambda: K(1e100), '10**30': lambda: K(10 ** 30),
    "'s'": lambda: K('s'), '"it\'s"': lambda: K("it's"), "'q\"q'": lambda: K('q"q'), "'both'": lambda: K('\'"'), "'nl'": lambda: K('a\nb\\'),
    "b'x'": lambda: K(b'x'), 'None': lambda: K(None), 'True': lambda: K(True), '...': lambda: K(Ellipsis),
    '(1,2)': lambda: K((1, 2)), "'{'": lambda: K('{x}'),
}
NAME_LEAF = 'a'

def binop(op): return lambda l, r: ast.BinOp(l, op(), r)
def unop(op): return lambda x: ast.UnaryOp(op(), x)
def cmpop(op): return lambda l, r: ast.Compare(l, [op()], [r])
def call(func, args=(), kw=()): return ast.Call(func, list(args), list(kw))
def fv(x, conv=-1, spec=None): return ast.FormattedValue(x, conv, spec)
def lam(body, args=(), defaults=()):
    return ast.Lambda(ast.arguments(posonlyargs=[], args=[ast.arg(a) for a in args], kwonlyargs=[], kw_defaults=[],
                                    defaults=list(defaults), vararg=None, kwarg=None), body)
def gen(elt, it, ifs=()):
    return ast.GeneratorExp(elt, [ast.comprehension(ast.Name('u', ast.Store()), it, list(ifs), 0)])

# name -> (AST class for the signature, builder)
OPS = {
    'lambda':      ('Lambda', lambda x: lam(x)),
    'lambda u':    ('Lambda', lambda x: lam(x, ['u'])),
    'lambda u=':   ('Lambda', lambda x: lam(N('u'), ['u'], [x])),
    'ifexp':       ('IfExp', lambda t, b, o: ast.IfExp(t, b, o)),
    'or':          ('BoolOp', lambda l, r: ast.BoolOp(ast.Or(), [l, r])),
    'and':         ('BoolOp', lambda l, r: ast.BoolOp(ast.And(), [l, r])),
    'or3':         ('BoolOp', lambda l, m, r: ast.BoolOp(ast.Or(), [l, m, r])),
    'not':         ('UnaryOp', unop(ast.Not)),
    '==':          ('Compare', cmpop(ast.Eq)), '<': ('Compare', cmpop(ast.Lt)), 'in': ('Compare', cmpop(ast.In)),
    'not in':      ('Compare', cmpop(ast.NotIn)), 'is': ('Compare', cmpop(ast.Is)), 'is not': ('Compare', cmpop(ast.IsNot)),
    '!=':          ('Compare', cmpop(ast.NotEq)), '>=': ('Compare', cmpop(ast.GtE)),
    'chain':       ('Compare', lambda a, b, c: ast.Compare(a, [ast.Lt(), ast.Eq()], [b, c])),
    '|':  ('BinOp', binop(ast.BitOr)), '^': ('BinOp', binop(ast.BitXor)), '&': ('BinOp', binop(ast.BitAnd)),
    '<<': ('BinOp', binop(ast.LShift)), '>>': ('BinOp', binop(ast.RShift)),
    '+':  ('BinOp', binop(ast.Add)), '-': ('BinOp', binop(ast.Sub)),
    '*':  ('BinOp', binop(ast.Mult)), '/': ('BinOp', binop(ast.Div)), '//': ('BinOp', binop(ast.FloorDiv)),
    '%':  ('BinOp', binop(ast.Mod)), '@': ('BinOp', binop(ast.MatMult)),
    'neg': ('UnaryOp', unop(ast.USub)), 'pos': ('UnaryOp', unop(ast.UAdd)), 'inv': ('UnaryOp', unop(ast.Invert)),
    '**': ('BinOp', binop(ast.Pow)),
    '.attr':    ('Attribute', lambda x: ast.Attribute(x, 'real', ast.Load())),
    'call()':   ('Call.func', lambda x: call(x)),
    'call(.)':  ('Call.func', lambda x, y: call(x, [y])),
    'f(.)':     ('Call.args', lambda x: call(N('f'), [x])),
    'f(.,.)':   ('Call.args', lambda x, y: call(N('f'), [x, y])),
    'f(k=.)':   ('Call.keyword', lambda x: call(N('f'), [], [ast.keyword('k', x)])),
    'f(.,k=.)': ('Call.keyword', lambda x, y: call(N('f'), [x], [ast.keyword('k', y)])),
    'f(*.)':    ('Call.star', lambda x: call(N('f'), [ast.Starred(x, ast.Load())])),
    'f(**.)':   ('Call.starstar', lambda x: call(N('f'), [], [ast.keyword(None, x)])),
    'f(.,*.)':  ('Call.star', lambda x, y: call(N('f'), [x, ast.Starred(y, ast.Load())])),
    'o.m(.)':   ('Call.args', lambda x: call(ast.Attribute(N('o'), 'm', ast.Load()), [x])),
    'sub[.]':   ('Subscript.value', lambda x, y: ast.Subscript(x, y, ast.Load())),
    's[.]':     ('Subscript.index', lambda x: ast.Subscript(N('s'), x, ast.Load())),
    's[.:.]':   ('Slice', lambda x, y: ast.Subscript(N('s'), ast.Slice(x, y, None), ast.Load())),
    's[.:]':    ('Slice', lambda x: ast.Subscript(N('s'), ast.Slice(x, None, None), ast.Load())),
    's[:.]':    ('Slice', lambda x: ast.Subscript(N('s'), ast.Slice(None, x, None), ast.Load())),
    's[::.]':   ('Slice', lambda x: ast.Subscript(N('s'), ast.Slice(None, None, x), ast.Load())),
    's[.:.:.]': ('Slice', lambda x, y, z: ast.Subscript(N('s'), ast.Slice(x, y, z), ast.Load())),
    's[.,.]':   ('Subscript.index', lambda x, y: ast.Subscript(N('s'), ast.Tuple([x, y], ast.Load()), ast.Load())),
    's[.:.,.]': ('Slice', lambda x, y, z: ast.Subscript(N('s'), ast.Tuple([ast.Slice(x, y, None), z], ast.Load()), ast.Load())),
    '(.,)':     ('Tuple', lambda x: ast.Tuple([x], ast.Load())),
    '(.,.)':    ('Tuple', lambda x, y: ast.Tuple([x, y], ast.Load())),
    '()':       ('Tuple', lambda: ast.Tuple([], ast.Load())),
    '(*.,.)':   ('Tuple.star', lambda x, y: ast.Tuple([ast.Starred(x, ast.Load()), y], ast.Load())),
    '[.,.]':    ('List', lambda x, y: ast.List([x, y], ast.Load())),
    '[]':       ('List', lambda: ast.List([], ast.Load())),
    '{.:.}':    ('Dict', lambda x, y: ast.Dict([x], [y])),
    '{}':       ('Dict', lambda: ast.Dict([], [])),
    '{**.}':    ('Dict.star', lambda x: ast.Dict([None], [x])),
    '{.,.}':    ('Set', lambda x, y: ast.Set([x, y])),
    'f"{.}"':       ('JoinedStr', lambda x: ast.JoinedStr([fv(x)])),
    'f"{.!r}"':     ('JoinedStr.conv', lambda x: ast.JoinedStr([fv(x, ord('r'))])),
    'f"{.!s}"':     ('JoinedStr.conv', lambda x: ast.JoinedStr([fv(x, ord('s'))])),
    'f"{.!a}"':     ('JoinedStr.conv', lambda x: ast.JoinedStr([fv(x, ord('a'))])),
    'f"{.:>5}"':    ('JoinedStr.spec', lambda x: ast.JoinedStr([fv(x, -1, ast.JoinedStr([K('>5')]))])),
    'f"{.!r:>5}"':  ('JoinedStr.spec', lambda x: ast.JoinedStr([fv(x, ord('r'), ast.JoinedStr([K('>5')]))])),
    'f"{.:{.}}"':   ('JoinedStr.spec', lambda x, y: ast.JoinedStr([fv(x, -1, ast.JoinedStr([fv(y)]))])),
    'f"{.:>{.}}"':  ('JoinedStr.spec', lambda x, y: ast.JoinedStr([fv(x, -1, ast.JoinedStr([K('>'), fv(y)]))])),
    'f"x{.}y"':     ('JoinedStr', lambda x: ast.JoinedStr([K('x'), fv(x), K('y')])),
    'f"{.}{.}"':    ('JoinedStr', lambda x, y: ast.JoinedStr([fv(x), fv(y)])),
    'f"{{{.}}}"':   ('JoinedStr.brace', lambda x: ast.JoinedStr([K('{'), fv(x), K('}')])),
    'f"}}{.}"':     ('JoinedStr.brace', lambda x: ast.JoinedStr([K('}'), fv(x)])),
    'f"\'{.}"':     ('JoinedStr.quote', lambda x: ast.JoinedStr([K("'"), fv(x)])),
    'f"\\"{.}"':    ('JoinedStr.quote', lambda x: ast.JoinedStr([K('"'), fv(x)])),
    'f"both{.}"':   ('JoinedStr.quote', lambda x: ast.JoinedStr([K('\'"'), fv(x)])),
    'f"\\n{.}"':    ('JoinedStr.escape', lambda x: ast.JoinedStr([K('\n\\'), fv(x)])),
    'f"%{.}"':      ('JoinedStr', lambda x: ast.JoinedStr([K('%'), fv(x)])),
    'f"lit"':       ('JoinedStr', lambda: ast.JoinedStr([K('lit')])),
    'bare{.}':      ('FormattedValue', lambda x: fv(x)),                 # decompiler shape of f"{x}" on 3.12
    'bare{.!r}':    ('FormattedValue.conv', lambda x: fv(x, ord('r'))),
    'bare{.:>5}':   ('FormattedValue.spec', lambda x: fv(x, -1, K('>5'))),   # decompiler shape of f"{x:>5}"
    'f(gen)':       ('GeneratorExp', lambda e, it: call(N('f'), [gen(e, it)])),
    'f(gen if)':    ('GeneratorExp', lambda e, it, c: call(N('f'), [gen(e, it, [c])])),
    'f(gen),.':     ('GeneratorExp', lambda e, y: call(N('f'), [gen(e, N('t')), y])),
}
import inspect
ARITY = {k: len(inspect.signature(b).parameters) for k, (_, b) in OPS.items()}
OPERATOR_CLASSES = ('BinOp', 'UnaryOp', 'BoolOp', 'Compare')
# one representative per precedence level (for the full-tree enumerations)
LEVEL_OPS = ['lambda', 'ifexp', 'or', 'and', 'not', '==', '|', '^', '&', '<<', '+', '-', '*', '%', 'neg', '**',
             '.attr', 'call(.)', 'sub[.]', '(.,.)', 'f(k=.)', 'f"{.}"']

def is_leaf(s): return isinstance(s, str)
def build(s):
    if is_leaf(s): return LEAVES[s]()
    return OPS[s[0]][1](*[build(c) for c in s[1:]])
def depth(s): return 0 if is_leaf(s) else 1 + max([depth(c) for c in s[1:]] + [0])

class Fold(ast.NodeTransformer):
    """what CPython's own front end treats as the same program"""
    def visit_UnaryOp(self, n):
        self.generic_visit(n)
        if isinstance(n.op, (ast.USub, ast.UAdd)) and isinstance(n.operand, ast.Constant) \
                and type(n.operand.value) in (int, float, complex):
            return ast.Constant(-n.operand.value if isinstance(n.op, ast.USub) else +n.operand.value)
        return n
    def visit_BinOp(self, n):
        self.generic_visit(n)     # a+bj literals: (1+2j) is Constant after folding
        if isinstance(n.op, (ast.Add, ast.Sub)) and isinstance(n.left, ast.Constant) and isinstance(n.right, ast.Constant) \
                and type(n.left.value) in (int, float) and type(n.right.value) is complex:
            return ast.Constant(n.left.value + n.right.value if isinstance(n.op, ast.Add) else n.left.value - n.right.value)
        return n
    def visit_Tuple(self, n):
        self.generic_visit(n)
        if isinstance(n.ctx, ast.Load) and n.elts and all(isinstance(e, ast.Constant) for e in n.elts):
            return ast.Constant(tuple(e.value for e in n.elts))
        return n
    def visit_JoinedStr(self, n):
        self.generic_visit(n)
        vals = []
        for v in n.values:
            if isinstance(v, ast.Constant) and v.value == '': continue
            if isinstance(v, ast.Constant) and vals and isinstance(vals[-1], ast.Constant):
                vals[-1] = ast.Constant(vals[-1].value + v.value)
            else: vals.append(v)
        n.values = vals
        return n
    def visit_FormattedValue(self, n):
        self.generic_visit(n)
        if isinstance(n.format_spec, ast.Constant):      # decompiler shape
            n.format_spec = ast.JoinedStr([n.format_spec])
        return n

def norm_dump(tree):
    for n in ast.walk(tree):      # the builtin name Ellipsis denotes the constant ... (shadowing builtins is out of scope)
        if isinstance(n, ast.Name) and n.id == 'Ellipsis':
            n.__class__ = ast.Constant; n.__dict__.clear(); n.value = Ellipsis
    tree = Fold().visit(tree)
    if isinstance(tree, ast.FormattedValue): tree = ast.JoinedStr([tree])      # bare == f"{...}"
    return ast.dump(tree)

_memo1 = {}
def check_src(skel):
    """-> (status, detail).  'same' | 'refused:<Exc>' | 'WRONG' """
    r = _memo1.get(skel)
    if r is not None: return r
    from pony.orm.asttranslation import ast2src
    tree = build(skel)
    want = norm_dump(build(skel))
    try:
        if isinstance(tree, ast.FormattedValue):
            ref = ast.unparse(ast.JoinedStr([build(skel)])) + ' (bare FormattedValue node, as the decompiler returns it on 3.12)'
        else: ref = ast.unparse(build(skel))
    except Exception: ref = '<%r>' % (skel,)
    try:
        src = ast2src(tree)
    except RecursionError: raise
    except Exception as e:
        r = ('refused:' + type(e).__name__, ref)
    else:
        try:
            if not isinstance(src, str): raise SyntaxError('ast2src returned %r' % (src,))
            back = ast.parse(src, mode='eval').body
            compile(src, '<pony>', 'eval')
        except (SyntaxError, ValueError) as e:
            r = ('refused:recompile-' + type(e).__name__, '%s -> %r' % (ref, src))
        else:
            got = norm_dump(back)
            unbound = sorted({n.id for n in ast.walk(back) if isinstance(n, ast.Name)} - {n.id for n in ast.walk(tree) if isinstance(n, ast.Name)})
            if got == want: r = ('same', ref)
            elif unbound and set(unbound) <= {'inf', 'nan'}:
                # e.g. Constant(inf) -> `inf`: evaluation in the caller's scope raises NameError (ExprEvalError) unless
                # the caller happens to define that name: a refusal in every realistic scope
                r = ('refused:regenerated-text-uses-undefined-name-' + ','.join(unbound), '%s -> %r' % (ref, src))
            else:
                try: back_src = ast.unparse(back)
                except Exception: back_src = '?'
                r = ('WRONG', 'tree of `%s` is regenerated as `%s`, which Python reads as `%s`' % (ref, src, back_src))
                if ref == back_src:
                    r = ('WRONG', 'tree %s is regenerated as `%s`, which Python reads as %s' % (ast.dump(build(skel)), src, ast.dump(back)))
    _memo1[skel] = r
    return r

def failing1(skel): return check_src(skel)[0] == 'WRONG'

def subtrees(s, path=()):
    yield path, s
    if not is_leaf(s):
        for i, c in enumerate(s[1:]):
            for x in subtrees(c, path + (i,)): yield x
def replace_at(s, path, new):
    if not path: return new
    c = list(s[1:]); c[path[0]] = replace_at(c[path[0]], path[1:], new)
    return (s[0],) + tuple(c)

def get_at(s, path):
    for i in path: s = s[1:][i]
    return s
def origin_tree(s, path=()):
    if isinstance(s, str): return (path,)
    return (path,) + tuple(origin_tree(c, path + (i,)) for i, c in enumerate(s[1:]))

def generic_shrink(skel, failing, leaf, simplify_leaves=True):
    """greedy deterministic shrink to a 1-minimal failing skeleton.  Reductions: replace any subtree by one of
    its own non-leaf children (hoisting, at the root or inside); replace any proper subtree or special leaf by
    a plain name leaf.  -> (skel', path of the smallest original subtree containing every operator kept)"""
    org = origin_tree(skel)
    changed = True
    while changed:
        changed = False
        for p, sub in subtrees(skel):
            if isinstance(sub, str): continue
            for i, c in enumerate(sub[1:]):
                if isinstance(c, str): continue
                cand = replace_at(skel, p, c)
                if failing(cand):
                    org = replace_at(org, p, get_at(org, p + (i,)))
                    skel = cand; changed = True
                    break
            if changed: break
        if changed: continue
        for p, sub in subtrees(skel):
            if not p or sub == leaf or (isinstance(sub, str) and not simplify_leaves): continue
            cand = replace_at(skel, p, leaf)
            if failing(cand):
                org = replace_at(org, p, (get_at(org, p)[0],))
                skel = cand; changed = True
                break
    paths = [o[0] for (pp, o), (_, sk) in zip(subtrees(org), subtrees(skel)) if not isinstance(sk, str)]
    if not paths: return skel, ()
    lca = paths[0]
    for q in paths[1:]:
        k = 0
        while k < len(lca) and k < len(q) and lca[k] == q[k]: k += 1
        lca = lca[:k]
    return skel, lca

def shrink1(skel):
    return generic_shrink(skel, failing1, NAME_LEAF)

def role(op, slot):
    cls = OPS[op][0]
    if cls == 'BinOp': return ('left', 'right')[slot]
    if cls == 'BoolOp': return 'values'
    if cls == 'UnaryOp': return 'operand'
    if cls == 'Compare': return 'left' if slot == 0 else 'comparators'
    if cls == 'IfExp': return ('test', 'body', 'orelse')[slot]
    if cls == 'Lambda': return 'default' if op == 'lambda u=' else 'body'
    if cls in ('Attribute', 'Call.func', 'Subscript.value') and slot == 0: return 'base'
    if cls == 'Call.func': return 'args'
    if cls in ('Subscript.value', 'Subscript.index'): return 'index'
    return 'field' if cls.startswith(('JoinedStr', 'FormattedValue')) else 'item'
def pclass(op, slot=None):
    cls = OPS[op][0]
    if cls in ('Attribute', 'Call.func', 'Subscript.value'):
        return 'Primary' if slot == 0 else cls.split('.')[0]
    if cls == 'Subscript.index': return 'Subscript'
    if slot is not None and cls.startswith('JoinedStr'): return 'JoinedStr'
    return cls
def leaf_token(l):
    if l in ('-1', '-1.5'): return 'Constant(negative number)'
    return 'Constant(%s)' % l
def shape1(m):
    """signature of a minimal failing tree: Parent[role]<-Child for every non-name child.  Operator-in-
    operator shapes (the part of the translator that works on the unchanged tree) are named by their
    exact operators; elsewhere the AST class names the node (one root cause = one signature)."""
    if is_leaf(m): return leaf_token(m)
    op = m[0]
    parts = set()
    for slot, c in enumerate(m[1:]):
        if c == NAME_LEAF: continue
        if is_leaf(c): child = leaf_token(c)
        else:
            both_ops = OPS[op][0] in OPERATOR_CLASSES and OPS[c[0]][0] in OPERATOR_CLASSES
            child = c[0] if both_ops else OPS[c[0]][0]
            inner = shape1(c)
            if '<-' in inner: child = '(%s)' % inner
        both_ops = (not is_leaf(c)) and OPS[op][0] in OPERATOR_CLASSES and OPS[c[0]][0] in OPERATOR_CLASSES
        parent = op if both_ops else pclass(op, slot)
        parts.add('%s[%s]<-%s' % (parent, role(op, slot), child))
    if not parts: return pclass(op)
    return ' & '.join(sorted(parts))

def attribute1(sub, skel, detail):
    orig = skel
    n = 0
    while failing1(skel) and n < 6:
        m, path = shrink1(skel)
        sub.violation('src|' + shape1(m), dict(oracle='src', skeleton=m, found_in=orig),
                      check_src(m)[1] + ('' if m == orig else '   [minimal shape of: %s]' % detail))
        n += 1
        if not path: break
        skel = replace_at(skel, path, NAME_LEAF)

def space_src(ctx):
    """the enumerated skeleton set (a list, deterministic)"""
    out = []
    ops = list(OPS)
    special = [l for l in LEAVES]
    # D1: every operator x every leaf kind in every slot (other slots: plain names) + all-pairs for binary slots
    for op in ops:
        n = ARITY[op]
        if n == 0: out.append((op,)); continue
        if n <= 2:
            for lab in itertools.product(special, repeat=n): out.append((op,) + lab)
        else:
            for i in range(n):
                for l in special:
                    lab = [NAME_LEAF] * n; lab[i] = l
                    out.append((op,) + tuple(lab))
    d1 = [(op,) + (NAME_LEAF,) * ARITY[op] for op in ops]
    # D2a: every operator, one compound child (every operator) in every slot
    for op in ops:
        n = ARITY[op]
        for i in range(n):
            for c in d1:
                ch = [NAME_LEAF] * n; ch[i] = c
                out.append((op,) + tuple(ch))
    # D2b: full trees of depth 2 over one representative per precedence level
    lv1 = [NAME_LEAF] + [(op,) + (NAME_LEAF,) * ARITY[op] for op in LEVEL_OPS]
    for op in LEVEL_OPS:
        for ch in itertools.product(lv1, repeat=ARITY[op]): out.append((op,) + ch)
    bound = ('D1: %d operators x every special leaf (%d kinds) per slot; D2a: every operator x every slot x every operator as '
             'single compound child; D2b: all depth-2 trees over %d precedence-level representatives'
             % (len(ops), len(special), len(LEVEL_OPS)))
    out = list(dict.fromkeys(out))
    desc = []
    total = len(out)
    if not ctx.quick:
        # D3a: chains of three operators (one compound child per level), full alphabet
        # D3b: all depth-3 trees over class representatives (arity <= 2); D2c: binary operators, two compound children
        for op in ops:
            for i in range(ARITY[op]):
                desc.append(('D3a', op, i)); total += len(_d2chain())
            if ARITY[op] == 2:
                desc.append(('D2c', op, 0)); total += sum(1 for _ in iter_desc(('D2c', op, 0)))
        for op in D3B_UN + D3B_BIN:
            for part in range(8 if ARITY[op] == 2 else 1):
                desc.append(('D3b', op, part))
                total += sum(1 for _ in iter_desc(('D3b', op, part)))
        bound += ('; D3a: all operator chains of length 3 over the full alphabet; D3b: all depth-3 trees over %d class '
                  'representatives %s; D2c: every binary operator with two compound children (full alphabet)'
                  % (len(D3B_UN + D3B_BIN), D3B_UN + D3B_BIN))
    return out, desc, total, bound

D3B_UN = ['not', 'neg', '.attr', 'lambda']
D3B_BIN = ['or', '+', '**']
_cache = {}
def _d1():
    if 'd1' not in _cache: _cache['d1'] = [(op,) + (NAME_LEAF,) * ARITY[op] for op in OPS]
    return _cache['d1']
def _d2chain():
    if 'd2' not in _cache:
        r = []
        for op in OPS:
            for i in range(ARITY[op]):
                for c in _d1():
                    ch = [NAME_LEAF] * ARITY[op]; ch[i] = c
                    r.append((op,) + tuple(ch))
        _cache['d2'] = r
    return _cache['d2']
def _d3b_l2():
    if 'l2' not in _cache:
        l1 = [NAME_LEAF, ('ifexp', NAME_LEAF, NAME_LEAF, NAME_LEAF)] + [(op,) + (NAME_LEAF,) * ARITY[op] for op in D3B_UN + D3B_BIN]
        l2 = list(l1)
        for op in D3B_UN + D3B_BIN:
            for ch in itertools.product(l1, repeat=ARITY[op]): l2.append((op,) + ch)
        _cache['l2'] = list(dict.fromkeys(l2))
    return _cache['l2']
def iter_desc(d):
    kind, op, k = d
    if kind == 'D3a':
        for c in _d2chain():
            ch = [NAME_LEAF] * ARITY[op]; ch[k] = c
            yield (op,) + tuple(ch)
    elif kind == 'D2c':
        for a in _d1():
            for b in _d1():
                if not (op in LEVEL_OPS and a[0] in LEVEL_OPS and b[0] in LEVEL_OPS): yield (op, a, b)     # else: in D2b
    elif kind == 'D3b':
        l2 = _d3b_l2()
        if ARITY[op] == 1:
            for a in l2:
                if not _elsewhere((op, a)): yield (op, a)
        else:
            for i, a in enumerate(l2):
                if i % 8 != k: continue
                for b in l2:
                    if not _elsewhere((op, a, b)): yield (op, a, b)

def _is_chain(t):
    if is_leaf(t): return True
    comp = [c for c in t[1:] if not is_leaf(c)]
    return len(comp) <= 1 and all(_is_chain(c) for c in comp)
def _elsewhere(t):
    """D3b trees already enumerated by D2b (depth <= 2) or D3a (chains) are skipped: every tree is counted once"""
    return depth(t) <= 2 or (_is_chain(t) and all(c == NAME_LEAF for c in _leaves(t)))
def _leaves(t):
    if is_leaf(t): yield t
    else:
        for c in t[1:]:
            for l in _leaves(c): yield l

def work_src(chunk):
    sub = core.Sub()
    if isinstance(chunk, tuple): chunk = iter_desc(chunk)
    for skel in chunk:
        if len(_memo1) > 300000: _memo1.clear()
        st, detail = check_src(skel)
        sub.count('src:trees')
        sub.count('src:' + st.split(':')[0].lower())
        if st.startswith('refused'): sub.count('src:' + st)
        if st == 'WRONG':
            attribute1(sub, skel, detail)
        elif st == 'same' and depth(skel) >= 2 and len(sub.samples) < 1:
            sub.sample(dict(oracle='src', tree=detail, verdict='regenerated source parses back to the same tree'))
    return sub.dump()

# =================================================================================================
# Oracle 2: end to end
# typed expression grammar.  Tokens: leaves are source strings; ops are templates with {0} {1} {2}.
E_LEAVES = ['x', 'y', 'z', '2']
E_OPS = {
    # template, arity          (values are ints unless noted)
    'neg': '-{0}', 'inv': '~{0}', 'not': 'not {0}', 'pos': '+{0}',
    '+': '{0} + {1}', '-': '{0} - {1}', '*': '{0} * {1}', '//': '{0} // {1}', '%': '{0} % {1}', '/': '{0} / {1}',
    '**': '{0} ** {1}', '<<': '{0} << {1}', '>>': '{0} >> {1}', '&': '{0} & {1}', '|': '{0} | {1}', '^': '{0} ^ {1}',
    '<': '{0} < {1}', '==': '{0} == {1}', 'in': '{0} in ({1}, 3)', 'is not': '{0} is not {1}',
    'or': '{0} or {1}', 'and': '{0} and {1}',
    'ifexp': '{1} if {0} else {2}', 'chain': '{0} < {1} <= {2}',
    '.real': '({0}).real', 'o.n': 'o.n + {0}', 'o.m()': 'o.m({0})',
    'f()': 'f({0})', 'f(k=)': 'f(k={0})', 'f(,)': 'f2({0}, {1})', 'f(*)': 'f2(*({0}, {1}))', 'f(**)': 'f(**{{"k": {0}}})',
    't[]': 't[{0}]', 'g(t[:])': 'g(t[{0}:{1}])', 'g(t[::])': 'g(t[::{0}])', "d['k']": "d['k'] + {0}", 'd[]': 'd2[{0}]',
    '(,)[0]': '({0}, {1})[0]', '[,][1]': '[{0}, {1}][1]', '{:}[]': '{{1: {0}}}[1]', 'g({,})': 'g({{{0}, {1}}})',
    'lambda': '(lambda v: v + {0})({1})', 'call lambda': 'f3(lambda: {0})', 'lambda default': '(lambda v={0}: v)()',
    'sum(gen)': 'g2(u + {0} for u in t)', 'call result call': 'h({0})({1})',
    'f"{}"': 'f"{{{0}}}"', 'f"{!r}"': 'f"{{{0}!r}}"', 'f"{:>3}"': 'f"{{{0}:>3}}"', 'f"{:{}}"': 'f"{{{0}:{{{1}}}}}"', 'f"a{}b{}"': 'f"a{{{0}}}b{{{1}}}"',
    'f"{{}}"': 'f"{{{{{{{0}}}}}}}"', "f\"'{}\"": 'f"\'{{{0}}}"',
    's[]': 's[{0}]', 's[:]': 's[{0}:{1}]', 's * n': 's * {0}', 's % n': '"%d-%s" % ({0}, {1})', 's.upper': 's.upper() + str({0})',
    '.5': '{0} + 0.5', 'negconst**': '(-1) ** {0}', 'negconst.real': '(-3).real + {0}', 'float*': '{0} * 1.5', 'abs-like': 'k({0})',
}
def _arity(t):
    for n in range(4):
        try: t.format(*['v'] * n); return n
        except IndexError: pass
E_ARITY = {k: _arity(v) for k, v in E_OPS.items()}
E_CORE3 = ['neg', 'not', '+', '**', '<', 'or', 'ifexp', '.real', 'f()', 'f"{:>3}"']
E_CORE = ['neg', 'not', '+', '-', '*', '**', '%', '<<', '&', '|', '<', '==', 'or', 'and', 'ifexp', '.real', 'f()', 't[]',
          'lambda', 'f"{}"', 'f"{:>3}"', '(,)[0]']

_B = ('BinOp', ['left', 'right']); _C = ('Compare', ['left', 'comparators', 'comparators']); _U = ('UnaryOp', ['operand'])
E_CLASS = {     # same vocabulary as oracle 1 (pclass / role), so that one root cause has one signature
    'neg': _U, 'inv': _U, 'not': _U, 'pos': _U,
    '+': _B, '-': _B, '*': _B, '//': _B, '%': _B, '/': _B, '**': _B, '<<': _B, '>>': _B, '&': _B, '|': _B, '^': _B,
    '<': _C, '==': _C, 'in': _C, 'is not': _C, 'chain': _C,
    'or': ('BoolOp', ['values', 'values']), 'and': ('BoolOp', ['values', 'values']),
    'ifexp': ('IfExp', ['test', 'body', 'orelse']),
    '.real': ('Primary', ['base']), 'o.n': ('BinOp', ['right']), 'o.m()': ('Call', ['args']),
    'f()': ('Call', ['args']), 'f(k=)': ('Call.keyword', ['item']), 'f(,)': ('Call', ['args', 'args']), 'f(*)': ('Call.star', ['item', 'item']),
    'f(**)': ('Call.starstar', ['item']), 't[]': ('Subscript', ['index']), 'g(t[:])': ('Slice', ['item', 'item']), 'g(t[::])': ('Slice', ['item']),
    "d['k']": ('BinOp', ['right']), 'd[]': ('Subscript', ['index']), '(,)[0]': ('Tuple', ['item', 'item']), '[,][1]': ('List', ['item', 'item']),
    '{:}[]': ('Dict', ['item']), 'g({,})': ('Set', ['item', 'item']), 'lambda': ('Lambda.call', ['body', 'args']), 'call lambda': ('Lambda.arg', ['body']),
    'lambda default': ('Lambda', ['default']), 'sum(gen)': ('GeneratorExp', ['item']), 'call result call': ('Call', ['args', 'args']),
    'f"{}"': ('JoinedStr', ['field']), 'f"{!r}"': ('JoinedStr.conv', ['field']), 'f"{:>3}"': ('JoinedStr.spec', ['field']),
    'f"{:{}}"': ('JoinedStr.spec', ['field', 'field']), 'f"a{}b{}"': ('JoinedStr', ['field', 'field']), 'f"{{}}"': ('JoinedStr.brace', ['field']),
    "f\"'{}\"": ('JoinedStr.quote', ['field']), 's[]': ('Subscript', ['index']), 's[:]': ('Slice', ['item', 'item']), 's * n': ('BinOp', ['right']),
    's % n': ('Tuple', ['item', 'item']), 's.upper': ('Call', ['args']), '.5': ('BinOp', ['left']), 'negconst**': ('BinOp', ['right']), 'negconst.real': ('BinOp', ['right']), 'float*': ('BinOp', ['left']), 'abs-like': ('Call', ['args']),
}
assert set(E_CLASS) == set(E_OPS), set(E_CLASS) ^ set(E_OPS)
E_ALONE = {'lambda': 'Primary[base]<-Lambda'}      # `(lambda v: v + _)(_)`: the call's base is a lambda
E_PRECISE = {'neg', 'inv', 'not', 'pos', '+', '-', '*', '//', '%', '/', '**', '<<', '>>', '&', '|', '^', '<', '==', 'in', 'is not', 'chain', 'or', 'and'}
def e_sig(m):
    if isinstance(m, str): return '_'
    cls, roles = E_CLASS[m[0]]
    parts = set()
    for slot, c in enumerate(m[1:]):
        if isinstance(c, str): continue
        both = m[0] in E_PRECISE and c[0] in E_PRECISE
        child = c[0] if both else E_CLASS[c[0]][0]
        inner = e_sig(c)
        if '<-' in inner: child = '(%s)' % inner
        parts.add('%s[%s]<-%s' % (m[0] if both else cls, roles[slot], child))
    if not parts: return cls if cls.startswith('JoinedStr') else E_ALONE.get(m[0], e_shape(m))
    return ' & '.join(sorted(parts))

def e_render(s):
    if isinstance(s, str): return s
    ch = [e_render(c) if isinstance(c, str) else '(%s)' % e_render(c) for c in s[1:]]
    return E_OPS[s[0]].format(*ch)
def e_shape(s):
    if isinstance(s, str): return '_'
    ch = ['_' if isinstance(c, str) else '(%s)' % e_shape(c) for c in s[1:]]
    return E_OPS[s[0]].format(*ch)

INF = float('inf')
def magnitude(s):
    """static upper bound of |value| (names <= 25: covers every scope's value of every name), used only to keep the
    enumeration free of astronomically expensive expressions such as x ** (y ** (z ** 2))"""
    if isinstance(s, str): return 2.0 if s == '2' else 25.0
    op = s[0]
    m = [magnitude(c) for c in s[1:]]
    if INF in m: return INF
    if op in ('<', '==', 'in', 'is not', 'chain', 'not'): return 1.0
    if op in ('or', 'and', 'ifexp'): return max(m)
    if op in ('neg', 'pos', 'inv', '.real', '.5'): return m[0] + 1
    if op in ('+', '-', '|', '^', '&'): return m[0] + m[1]
    if op in ('//', '%', '/', '>>'): return m[0]
    if op == '*': return m[0] * m[1]
    if op == 'float*': return m[0] * 2
    if op in ('**', 'negconst**'):
        a, b = (m[0], m[1]) if op == '**' else (1.0, m[0])
        if b > 200: return INF
        try: r = max(a, 2.0) ** b
        except OverflowError: return INF
        return r if op == '**' else 1.0
    if op == '<<': return m[0] * 2.0 ** m[1] if m[1] <= 200 else INF
    if op == 's * n': return m[0] * 6
    return 100 * max(m + [1.0]) + 100
MAGNITUDE_LIMIT = 1e18

def space_e2e(ctx):
    out, bound = _space_e2e(ctx)
    kept = [s for s in out if magnitude(s) <= MAGNITUDE_LIMIT]
    bound += '; %d of %d expressions excluded because a static bound of their value exceeds %g' % (len(out) - len(kept), len(out), MAGNITUDE_LIMIT)
    return kept, bound

def _space_e2e(ctx):
    out = []
    ops = list(E_OPS)
    for op in ops:                                   # depth 1: every leaf in every slot
        for lab in itertools.product(E_LEAVES, repeat=E_ARITY[op]):
            out.append((op,) + lab)
    canon = lambda op: (op,) + tuple(E_LEAVES[:E_ARITY[op]])
    d1 = [canon(op) for op in ops]
    for op in ops:                                   # depth 2: one compound child per slot
        n = E_ARITY[op]
        for i in range(n):
            for c in (d1 if not ctx.quick else [canon(o) for o in E_CORE]):
                ch = list(E_LEAVES[:n]); ch[i] = c
                out.append((op,) + tuple(ch))
    bound = ('depth 1: %d typed operators x all labelings over %s; depth 2: every operator x every slot x every %soperator as compound child'
             % (len(ops), E_LEAVES, '' if not ctx.quick else 'core (%d) ' % len(E_CORE)))
    if not ctx.quick:
        c1 = ['x'] + [canon(op) for op in E_CORE]
        c0 = ['x'] + [canon(op) for op in E_CORE3]
        for op in ops:
            if E_ARITY[op] == 2:
                for a in c1:
                    for b in c1: out.append((op, a, b))
            if E_ARITY[op] == 3:
                for ch in itertools.product(c0, repeat=3): out.append((op,) + ch)
        d2 = []
        for op in E_CORE:
            n = E_ARITY[op]
            for i in range(n):
                for c in c0[1:]:
                    ch = list(E_LEAVES[:n]); ch[i] = c
                    d2.append((op,) + tuple(ch))
        for op in E_CORE:                            # depth 3 chains over the core alphabet
            n = E_ARITY[op]
            for i in range(n):
                for c in d2:
                    ch = list(E_LEAVES[:n]); ch[i] = c
                    out.append((op,) + tuple(ch))
        bound += ('; binary operators with two compound children from %d core operators; '
                  'ternary operators with three from %d; depth-3 chains core x core x %d' % (len(E_CORE), len(E_CORE3), len(E_CORE3)))
    return list(dict.fromkeys(out)), bound

FRONTS = ('gen', 'str', 'lam', 'filter', 'where')
ASSIGN = [(2, 3, 5), (0, 3, 5), (2, 0, 5), (2, 3, 0), (3, 2, 1), (0, 0, 0)]      # (x, y, z)
ATTR_OF = {int: 'n', str: 's', float: 'fl', bool: 'b'}

class Obj(object):
    def __init__(self, n): self.n = n
    def m(self, v): return v + self.n

_env = {}
def e2e_env():
    """database + module namespace shared by all generated call sites of this process"""
    if _env: return _env
    from pony import orm
    from vf.seams import dbapi
    db = orm.Database()
    class P(db.Entity):
        id = orm.PrimaryKey(int)
        n = orm.Optional(int, size=64)
        s = orm.Optional(str)
        fl = orm.Optional(float)
        b = orm.Optional(bool)
    db.bind('sqlite', ':memory:', factory=dbapi.VfConnection)
    db.generate_mapping(create_tables=True)
    with orm.db_session:
        for i in range(1, 6): P(id=i, n=i, s='abc'[:i % 4], fl=i + 0.5, b=bool(i % 2))
    log = []
    dbapi.ENV.reset(log=log)
    G = dict(P=P, select=orm.select, db_session=orm.db_session, __name__='c04_sites',
             # module-level values.  y, z, o, d are *shadowed* by the closure / local scopes of every call site
             x=None, y=13, z=17, o=Obj(60), d={'k': 80},
             f=lambda v=0, k=0: v * 2 + k + 1, f2=lambda u, v: u * 10 + v, f3=lambda fn: fn() + 1, g=len, g2=sum,
             h=lambda u: (lambda v: u * 100 + v), k=abs, t=(10, 20, 30, 40, 50, 60), d2={0: 7, 1: 8, 2: 9, 3: 10, 5: 11},
             s='abcdef')
    _env.update(db=db, P=P, log=log, G=G, orm=orm)
    return _env

SITE_TMPL = '''
def mk(_yc, _zc):
    y = _yc; z = _zc + 20; d = {{'k': 7}}; o = Obj(50)
    def s_py(_zl):
        z = _zl; o = Obj(40); y; d
        return ({E})
    def s_gen(_zl):
        z = _zl; o = Obj(40); y; d
        return select(p for p in P if p.{A} == ({E}))
    def s_str(_zl):
        z = _zl; o = Obj(40); y; d
        return select({Q1!r})
    def s_lam(_zl):
        z = _zl; o = Obj(40); y; d
        return P.select(lambda p: p.{A} == ({E}))
    def s_filter(_zl):
        z = _zl; o = Obj(40); y; d
        return select(p for p in P).filter(lambda p: p.{A} == ({E}))
    def s_where(_zl):
        z = _zl; o = Obj(40); y; d
        return select(p for p in P).where({Q2!r})
    return dict(py=s_py, gen=s_gen, str=s_str, lam=s_lam, filter=s_filter, where=s_where)
'''

def make_sites(esrc, attr):
    env = e2e_env()
    G = env['G']
    G['Obj'] = Obj
    src = SITE_TMPL.format(E=esrc, A=attr, Q1='p for p in P if p.%s == (%s)' % (attr, esrc), Q2='p.%s == (%s)' % (attr, esrc))
    exec(compile(src, '<c04 sites %s>' % esrc, 'exec'), G)
    return G['mk']

def last_select_args(log):
    for kind, sql, args in reversed(log):
        if kind == 'execute' and sql and sql.lstrip().upper().startswith('SELECT'):
            return sql, args
    return None, None

def same_value(a, b):
    if type(a) is not type(b): return False
    if isinstance(a, float): return repr(a) == repr(b)
    return a == b

_memo2 = {}
PY_TMPL = '''
def mk(_yc, _zc):
    y = _yc; z = _zc + 20; d = {{'k': 7}}; o = Obj(50)
    def s_py(_zl):
        z = _zl; o = Obj(40); y; d
        return ({E})
    return s_py
'''
def make_py(esrc):
    G = e2e_env()['G']
    G['Obj'] = Obj
    exec(compile(PY_TMPL.format(E=esrc), '<c04 py %s>' % esrc, 'exec'), G)
    return G['mk']

def decompiled_operand(site, attr):
    """what the decompiler hands to the rest of Pony for E in `p.<attr> == (E)` at this call site, as source
    text (rendered by CPython's ast.unparse).  -> ('text', src) | ('constant', None) | ('restructured', why)"""
    from pony.orm.decompiling import Decompiler
    from vf.props import c03
    code = [c for c in site.__code__.co_consts if isinstance(c, types.CodeType)]
    if len(code) != 1: return ('restructured', 'no single nested code object')
    try: tree = Decompiler(code[0]).ast
    except RecursionError: raise
    except Exception as e: return ('restructured', 'decompiler refuses: ' + type(e).__name__)
    if isinstance(tree, ast.GeneratorExp):
        if len(tree.generators) != 1 or len(tree.generators[0].ifs) != 1: return ('restructured', 'conditions restructured')
        tree = tree.generators[0].ifs[0]
    if not (isinstance(tree, ast.Compare) and len(tree.ops) == 1 and isinstance(tree.ops[0], ast.Eq)
            and isinstance(tree.left, ast.Attribute) and tree.left.attr == attr
            and isinstance(tree.left.value, ast.Name) and tree.left.value.id == 'p'):
        return ('restructured', 'comparison restructured')
    x = tree.comparators[0]
    if isinstance(x, ast.Constant): return ('constant', None)
    try: return ('text', c03.unparse(x))
    except c03.Unrenderable as e: return ('restructured', 'unrenderable operand')

def check_e2e(skel, fronts=FRONTS):
    """-> list of (front, status, detail).  status: 'ok' | 'refused:<Exc>' | 'skipped:<why>' | 'WRONG:<kind>'"""
    key = (skel, fronts)
    if key in _memo2: return _memo2[key]
    env = e2e_env()
    orm, G, log = env['orm'], env['G'], env['log']
    esrc = e_render(skel)
    try:
        want = norm_dump(ast.parse(esrc, mode='eval').body)
    except SyntaxError:
        raise core.HarnessError('grammar produced uncompilable text %r' % esrc)
    results = {f: None for f in fronts}
    mk_cache, ref_cache, py_cache = {}, {}, {}
    def sites_for(attr, yc, zc):
        mk = mk_cache.get(attr)
        if mk is None: mk = mk_cache[attr] = make_sites(esrc, attr)
        return mk(yc, zc)
    def py_for(src):
        if src not in py_cache: py_cache[src] = make_py(src)
        return py_cache[src]
    def reference_src(f, sites, attr):
        """source text whose in-place value is the reference for front end f"""
        if FRONT_GROUP[f] == 'string': return ('text', esrc)
        k = ('gen' if f == 'gen' else 'lam', attr)
        if k not in ref_cache:
            r = decompiled_operand(sites['gen' if f == 'gen' else 'lam'], attr)
            if r[0] == 'text':
                try:
                    if norm_dump(ast.parse(r[1], mode='eval').body) == want: r = ('text', esrc)
                except SyntaxError: r = ('restructured', 'unparsable')
            ref_cache[k] = r
        return ref_cache[k]
    def value_of(src, yv, zv):
        try: return ('v', py_for(src)(yv, zv)(zv))
        except RecursionError: raise
        except Exception as e: return ('raise', type(e).__name__)
    for (xv, yv, zv) in ASSIGN:
        G['x'] = xv
        exp0 = value_of(esrc, yv, zv)
        if exp0[0] == 'v':
            v = exp0[1]
            attr = ATTR_OF.get(type(v))
            if attr is None or (type(v) is int and abs(v) >= 2 ** 62) or (type(v) is float and (v != v or abs(v) == float('inf'))):
                for f in fronts:
                    if results[f] is None: results[f] = ('skipped:value-not-a-scalar-parameter', esrc)
                continue
        else:
            attr = 'n'
        sites = sites_for(attr, yv, zv)
        for f in fronts:
            if results[f] is not None and not results[f][0].startswith(('ok', 'skipped')): continue
            ref = reference_src(f, sites, attr)
            if ref[0] == 'text': _ref_text[(skel, f)] = ref[1]
            del log[:]
            try:
                with orm.db_session:
                    q = sites[f](zv)
                    q[:]
                sql, args = last_select_args(log)
            except RecursionError: raise
            except Exception as e:
                results[f] = ('refused:' + type(e).__name__, esrc)     # Pony may refuse: allowed
                continue
            if ref[0] == 'constant':
                results[f] = ('skipped:compile-time-constant-inlined', esrc); continue
            if ref[0] == 'restructured':
                results[f] = ('skipped:decompiler-restructured-the-query(C03)', esrc); continue
            exp = exp0 if ref[1] == esrc else value_of(ref[1], yv, zv)
            if exp != exp0 and not (exp[0] == 'v' and exp0[0] == 'v' and same_value(exp[1], exp0[1])):
                _changed.add(skel)                                     # C03's business, not judged here
            note = '' if ref[1] == esrc else ' (decompiled operand, rendered by ast.unparse: `%s`)' % ref[1]
            what = dict(x=xv, y=yv, z=zv)
            if exp[0] == 'raise':
                results[f] = ('WRONG:no-error', '%s front end: Python raises %s for `%s`%s with %s, Pony bound %r' % (f, exp[1], esrc, note, what, args))
            elif args is None or len(args) != 1:
                results[f] = ('WRONG:binding', '%s front end: `%s`%s with %s: expected one parameter %r, statement got %r' % (f, esrc, note, what, exp[1], args))
            elif not same_value(args[0], exp[1]):
                results[f] = ('WRONG:value', '%s front end: `p.%s == (%s)`%s with x=%r (global) y=%r (closure; global y=13) z=%r (local; '
                              'closure z=%r, global z=17): Python computes %r, Pony bound %r'
                              % (f, attr, esrc, note, xv, yv, zv, zv + 20, exp[1], args[0]))
            else:
                results[f] = ('ok', esrc)
    out = [(f, ) + (results[f] or ('skipped:python-raises-for-every-assignment', esrc)) for f in fronts]
    _memo2[key] = out
    return out
_changed = set()
_ref_text = {}

def failing2(skel, front):
    for f, st, d in check_e2e(skel, (front,)):
        if st.startswith('WRONG'): return True
    return False

def shrink2(skel, front):
    def fails(t):
        return failing2(t, front)
    # leaves of the e2e grammar are interchangeable names: only compound subtrees are replaced (by 'x')
    return generic_shrink(skel, fails, 'x', simplify_leaves=False)

def regeneration_changes(esrc):
    """does ast2src alone change the meaning of this (parsed) expression?"""
    from pony.orm.asttranslation import ast2src
    try:
        want = norm_dump(ast.parse(esrc, mode='eval').body)
        return norm_dump(ast.parse(ast2src(ast.parse(esrc, mode='eval').body), mode='eval').body) != want
    except RecursionError: raise
    except Exception: return False

FRONT_GROUP = {'gen': 'decompiled', 'lam': 'decompiled', 'filter': 'decompiled', 'str': 'string', 'where': 'string'}
def work_e2e(chunk):
    sub = core.Sub()
    for skel in chunk:
        res = check_e2e(skel)
        sub.count('e2e:expressions')
        for f, st, detail in res:
            sub.count('e2e:queries')
            sub.count('e2e:%s' % st.split(':')[0].lower())
            sub.count('e2e:%s:%s' % (f, st.split(':')[0].lower()))
            if st.startswith('refused'): sub.count('e2e:' + st)
            if st.startswith('WRONG'):
                orig = skel
                cur = skel
                n = 0
                while failing2(cur, f) and n < 4:
                    if regeneration_changes(e_render(cur)):
                        # ast2src alone already changes this expression: name the finding by the *structurally* minimal
                        # sub-shape that regeneration changes (the same signature space as oracle 1), not by value coincidences
                        m, path = generic_shrink(cur, lambda t: regeneration_changes(e_render(t)), 'x', simplify_leaves=False)
                        d2 = [d for ff, s2, d in check_e2e(cur, (f,)) if s2.startswith('WRONG')][0]
                        sub.violation('src|' + e_sig(m), dict(oracle='e2e', front=f, skeleton=cur, found_in=orig), d2)
                    else:
                        m, path = shrink2(cur, f)
                        # the simplest front end of the same tree source that still shows it names the finding
                        fr = f
                        for alt in ('str', 'gen'):
                            if FRONT_GROUP[alt] == FRONT_GROUP[f] and failing2(m, alt): fr = alt; break
                        d2 = [d for ff, s2, d in check_e2e(m, (fr,)) if s2.startswith('WRONG')][0]
                        prefix = 'e2e|' + FRONT_GROUP[fr]
                        if regeneration_changes(_ref_text.get((m, fr), e_render(m))):
                            prefix = 'src'      # ast2src alone changes the tree Pony was given (as rendered by ast.unparse)
                        sub.violation('%s|%s' % (prefix, e_sig(m)), dict(oracle='e2e', front=fr, skeleton=m, found_in=orig), d2)
                    n += 1
                    if not path: break
                    cur = replace_at(cur, path, 'x')
            elif st == 'ok' and len(sub.samples) < 1 and not isinstance(skel, str) and any(not isinstance(c, str) for c in skel[1:]):
                sub.sample(dict(oracle='e2e', front=f, expression=detail, verdict='bound parameter equals in-place Python value under %d assignments' % len(ASSIGN)))
    sub.count('e2e:expressions_whose_decompiled_operand_differs_in_value_from_the_source(C03, not judged here)',
              sum(1 for sk in chunk if sk in _changed))
    return sub.dump()

# =================================================================================================
# cache histories
def cache_histories(ctx):
    env = e2e_env()
    orm, G, log, P = env['orm'], env['G'], env['log'], env['P']
    select, db_session = orm.select, orm.db_session
    globals()['P'] = P                          # string queries resolve names in the calling frame's locals/globals
    rows = {i: i for i in range(1, 6)}          # id -> n
    class Refused(Exception): pass
    def ids(q):
        try:
            with db_session: return sorted(o.id for o in q()[:])
        except RecursionError: raise
        except Exception as e:
            ctx.count('cache:refused_steps')
            raise Refused(type(e).__name__)
    def record(sig, case, msg): ctx.violation('cache|' + sig, dict(oracle='cache', **case), msg)
    def answered(th, label):
        """ids or None when Pony refuses (allowed; counted)"""
        try: return ids(th)
        except Refused as e:
            ctx.count('cache:refused:%s:%s' % (label, e)); return None
    n = 0
    # H1: same query text / same code object, different values in the caller's namespace
    for rep in range(3):
        for v in (1, 3, 5, 2):
            def site_str(v=v):
                return select("p for p in P if p.n == v + 0")
            def site_gen(v=v):
                return select(p for p in P if p.n == v + 0)
            def mk(v):
                return lambda: P.select(lambda p: p.n == v + 0)
            for name, th in (('string', site_str), ('generator', site_gen), ('lambda-closure', mk(v))):
                n += 1
                got = answered(th, 'H1 ' + name); exp = [i for i, nn in rows.items() if nn == v]
                if got is not None and got != exp:
                    record('H1 same text, other value|' + name, dict(history='H1', front=name, v=v),
                           'same query (%s) re-used with v=%r returned ids %r, Python gives %r' % (name, v, got, exp))
    # H2: a name that is the query variable at one site and an external object at the other
    class Ext(object): n = 3
    for order, text in (('var-first', 'p.n == v'), ('ext-first', 'p.n  ==  v'), ('ext-first-shadowed', 'p.n   ==   v')):
        def as_var(v):
            return select(p for p in P).where(text)                 # p: query variable
        def as_var_shadowing(v, p):
            return select(p for p in P).where(text)                 # p: query variable; the caller also has a local p (p.n == 3)
        def as_ext(v, p):
            return select(q for q in P if q.id > 0).where(text)     # p: external object, p.n == 3
        if order == 'var-first': seq = [('var', 2), ('ext', 3), ('var', 4), ('ext', 2)]
        elif order == 'ext-first': seq = [('ext', 3), ('var', 2), ('ext', 2), ('var', 4)]
        else: seq = [('ext', 3), ('var-shadowing', 2), ('ext', 2), ('var-shadowing', 3), ('var-shadowing', 4)]
        for kind, v in seq:
            n += 1
            if kind == 'var':
                exp = [i for i, nn in rows.items() if nn == v]
                th = lambda: as_var(v)
            elif kind == 'var-shadowing':
                exp = [i for i, nn in rows.items() if nn == v]
                th = lambda: as_var_shadowing(v, Ext())
            else:
                exp = [i for i in rows if Ext.n == v]
                th = lambda: as_ext(v, Ext())
            try: got = ids(th)
            except Exception as e:
                ctx.count('cache:refused:%s:%s site:%s' % (order, kind, type(e).__name__)); continue
            if got != exp:
                record('H2 query variable vs external of the same name|%s|%s site' % (order, kind),
                       dict(history='H2', order=order, site=kind, v=v, text=text),
                       'where(%r) with `p` %s (history %s): ids %r, Python gives %r'
                       % (text, 'the query variable' if kind.startswith('var') else 'an external object with p.n == 3', order, got, exp))
    # H3: same query string from two sites: name is an int at one, a str at the other (parameter type changes)
    for v, attr in ((2, 'n'), ('ab', 's'), (3, 'n'), ('abc', 's')):
        n += 1
        text = 'p for p in P if p.%s == v' % attr
        def site(v=v): return select(text)
        with db_session: exp = sorted(o.id for o in P.select()[:] if getattr(o, attr) == v)
        got = answered(site, 'H3')
        if got is not None and got != exp: record('H3 parameter type changes', dict(history='H3', v=v), '%r with v=%r: ids %r, expected %r' % (text, v, got, exp))
    # H3b: same filter text / same lambda code, parameter type or tuple length changes between calls
    for v in (1, 1.5, 2, 2.5, (1, 2), (1, 2, 3), (4,), 3.5):
        for name, th in (('where-string', lambda: select(p for p in P).where('p.fl == v' if not isinstance(v, tuple) else 'p.n in v')),
                         ('filter-lambda', (lambda: select(p for p in P).filter(lambda p: p.fl == v)) if not isinstance(v, tuple)
                                           else (lambda: select(p for p in P).filter(lambda p: p.n in v)))):
            n += 1
            with db_session: allrows = [(o.id, o.n, o.fl) for o in P.select()[:]]
            exp = sorted(i for i, nn, ff in allrows if (nn in v if isinstance(v, tuple) else ff == v))
            got = answered(th, 'H3b ' + name)
            if got is not None and got != exp:
                record('H3b parameter type changes under one filter text|' + name, dict(history='H3b', v=v, front=name),
                       '%s with v=%r after other types: ids %r, Python gives %r' % (name, v, got, exp))
    # H4: a name that is a translatable builtin at one site and a user function at the other
    for order, text in (('builtin-first', 'p for p in P if p.n == len(w)'), ('user-first', 'p for p in P if p.n ==  len(w)')):
        def with_builtin(w): return select(text)
        def with_user(w, len=lambda w: 4): return select(text)
        seq = [('builtin', 'ab'), ('user', 'ab'), ('builtin', 'abc')] if order == 'builtin-first' else [('user', 'ab'), ('builtin', 'ab'), ('user', 'abc')]
        for kind, w in seq:
            n += 1
            exp = [i for i, nn in rows.items() if nn == (len(w) if kind == 'builtin' else 4)]
            th = (lambda: with_builtin(w)) if kind == 'builtin' else (lambda: with_user(w))
            try: got = ids(th)
            except Exception as e:
                ctx.count('cache:refused:H4 %s:%s site:%s' % (order, kind, type(e).__name__)); continue
            if got != exp:
                record('H4 builtin vs user function of the same name|%s|%s site' % (order, kind),
                       dict(history='H4', order=order, site=kind, w=w),
                       '%r where len is %s (history %s): ids %r, Python gives %r'
                       % (text, 'the builtin' if kind == 'builtin' else 'a local function returning 4', order, got, exp))
    # H4b: ... applied to a column (builtin: SQL length(); user function: inlined by Pony)
    for order, text in (('builtin-first', 'p for p in P if len(p.s) == v'), ('user-first', 'p for p in P if  len(p.s) == v')):
        def with_builtin(v): return select(text)
        def with_user(v, len=lambda w: 2): return select(text)
        seq = ['builtin', 'user', 'builtin', 'user'] if order == 'builtin-first' else ['user', 'builtin', 'user', 'builtin']
        for kind in seq:
            for v in (2, 3):
                n += 1
                with db_session: allrows = [(o.id, o.s) for o in P.select()[:]]
                exp = sorted(i for i, sv in allrows if (len(sv) if kind == 'builtin' else 2) == v)
                th = (lambda: with_builtin(v)) if kind == 'builtin' else (lambda: with_user(v))
                try: got = ids(th)
                except Exception as e:
                    ctx.count('cache:refused:H4b %s:%s site:%s' % (order, kind, type(e).__name__)); continue
                if got != exp:
                    record('H4b builtin vs user function of the same name on a column|%s|%s site' % (order, kind),
                           dict(history='H4b', order=order, site=kind, v=v),
                           '%r where len is %s (history %s): ids %r, Python gives %r'
                           % (text, 'the builtin' if kind == 'builtin' else 'a local function returning 2', order, got, exp))
    # H5: extractors of one lambda code object with different closure cells and different globals dicts
    src = 'def mk(v):\n    return lambda: P.select(lambda p: p.n == v + w)\n'
    g1 = dict(P=P, w=0); g2 = dict(P=P, w=1)
    exec(src, g1); exec(src, g2)
    for g, w in ((g1, 0), (g2, 1), (g1, 0)):
        for v in (1, 2):
            n += 1
            got = answered(g['mk'](v), 'H5'); exp = [i for i, nn in rows.items() if nn == v + w]
            if got is not None and got != exp: record('H5 same source, other globals', dict(history='H5', v=v, w=w), 'v=%r w=%r: ids %r expected %r' % (v, w, got, exp))
    # H6: several external sub-expressions in one query keep their own values
    for a_, b_ in ((1, 1), (2, 3), (3, 2), (4, 4), (5, 1)):
        def s1(a=a_, b=b_): return select(p for p in P if p.n >= a + 0 and p.id <= b + 1 and p.n != a * 10)
        def s2(a=a_, b=b_): return select("p for p in P if p.n >= a + 0 and p.id <= b + 1 and p.n != a * 10")
        def s3(a=a_, b=b_): return P.select(lambda p: p.n >= a + 0 and p.id <= b + 1 and p.n != a * 10)
        def s4(a=a_, b=b_): return select(p for p in P).filter(lambda p: p.n >= a + 0).filter(lambda p: p.id <= b + 1)
        for name, th in (('generator', s1), ('string', s2), ('lambda', s3), ('two filters', s4)):
            n += 1
            exp = [i for i, nn in rows.items() if nn >= a_ and i <= b_ + 1]
            got = answered(th, 'H6 ' + name)
            if got is not None and got != exp: record('H6 several externals in one query|' + name, dict(history='H6', a=a_, b=b_, front=name),
                                  '%s: a=%r b=%r: ids %r, Python gives %r' % (name, a_, b_, got, exp))
    # H7: a lambda's own closure wins over a local of the same name at the place where the query is built
    # (one lambda per front end: the same code object passed first to Entity.select and then to Query.filter is refused
    #  with ExprEvalError `.0` -- both register extractors under id(code); a refusal, counted below when it happens)
    def mk_lam1(v): return lambda p: p.n == v + 0
    def mk_lam2(v): return lambda p: p.n == v + 0
    def build(lam, v): return P.select(lam)
    def build_filter(lam, v): return select(p for p in P).filter(lam)
    for cv, lv in ((1, 2), (2, 1), (3, 3), (4, 5)):
        for name, b, mk_lam in (('Entity.select', build, mk_lam1), ('Query.filter', build_filter, mk_lam2), ('Query.filter after Entity.select', build_filter, mk_lam1)):
            n += 1
            exp = [i for i, nn in rows.items() if nn == cv]
            try: got = ids(lambda: b(mk_lam(cv), lv))
            except Exception as e:
                ctx.count('cache:refused:H7 %s:%s' % (name, type(e).__name__)); continue
            if got != exp: record('H7 lambda closure vs local of the same name|' + name, dict(history='H7', closure=cv, local=lv, front=name),
                                  '%s(lambda p: p.n == v) with closure v=%r and a local v=%r in the calling function: ids %r, Python gives %r'
                                  % (name, cv, lv, got, exp))
    ctx.count('cache:history_steps', n)
    return n

# =================================================================================================
def chunks(seq, n):
    seq = list(seq)
    size = max(1, (len(seq) + n - 1) // n)
    return [seq[i:i + size] for i in range(0, len(seq), size)]

# ---- one lambda (one code object / one text) applied several times in ONE chain ---------------------------------------
# for v in values: q = q.METHOD(lambda p: p.n OP v): every application has its own value of the outer-scope variable.
# Chains of 2 and 3 applications x {filter, where} x {lambda, string} x operators x all value tuples over {0..3};
# the reference is Python's own evaluation of the same conditions over the rows.
def repeated_lambda(ctx):
    import itertools, operator
    from pony import orm
    db = orm.Database()
    class P(db.Entity):
        id = orm.PrimaryKey(int)
        n = orm.Required(int)
    db.bind('sqlite', ':memory:'); db.generate_mapping(create_tables=True)
    with orm.db_session:
        for i in range(8): P(id=i + 1, n=i % 4)
    OPS = {'!=': operator.ne, '<=': operator.le, '>': operator.gt}
    def chain_lambda(method, op, values):
        q = P.select()
        for v in values:
            if op == '!=': q = getattr(q, method)(lambda p: p.n != v)
            elif op == '<=': q = getattr(q, method)(lambda p: p.n <= v)
            else: q = getattr(q, method)(lambda p: p.n > v)
        return q
    def chain_text(method, op, values):
        q = P.select()
        for v in values: q = getattr(q, method)('lambda p: p.n %s v' % op)
        return q
    with orm.db_session:
        rows = [(p.id, p.n) for p in P.select()]
        for k in (2, 3):
            for values in itertools.product(range(4), repeat=k):
                if len(set(values)) == 1: continue
                for method in ('filter', 'where'):
                    for op, f in OPS.items():
                        for form, build in (('lambda', chain_lambda), ('text', chain_text)):
                            ctx.count('repeated:chains')
                            try: got = sorted(p.id for p in build(method, op, values))
                            except Exception as e:
                                ctx.count('repeated:refused'); continue
                            exp = sorted(i for i, n in rows if all(f(n, v) for v in values))
                            if got == exp: ctx.count('repeated:ok'); continue
                            ctx.count('repeated:wrong')
                            ctx.violation('repeated-lambda|%s(%s) applied %d times with different outer values' % (method, form, k),
                                          dict(repeated=dict(method=method, op=op, values=list(values), form=form)),
                                          'q.%s(lambda p: p.n %s v) for v in %r: expected ids %r, got %r' % (method, op, values, exp, got))
    db.disconnect()

def run(ctx):
    import pony.orm, pony.orm.asttranslation  # noqa: import before forking
    from vf.seams import dbapi  # noqa
    sys.setrecursionlimit(10000)
    s1, desc1, total1, b1 = space_src(ctx)
    s2, b2 = space_e2e(ctx)
    ctx.cov['bound_completed'] = dict(src=b1, e2e=b2 + '; %d assignments of (x, y, z); %d front ends' % (len(ASSIGN), len(FRONTS)))
    for d in ctx.pmap(work_src, ctx.shuffled(chunks(ctx.shuffled(s1), ctx.nworkers * 4) + desc1)): core.absorb(ctx, d)
    # fresh worker processes every few thousand expressions: Pony's per-process caches (one entry per query text /
    # code object) would otherwise grow with the enumeration
    ch = chunks(ctx.shuffled(s2), max(ctx.nworkers * 8, len(s2) // 50))
    for i in range(0, len(ch), ctx.nworkers * 6):
        for d in ctx.pmap(work_e2e, ch[i:i + ctx.nworkers * 6]): core.absorb(ctx, d)
    cache_histories(ctx)
    repeated_lambda(ctx)
    c = ctx.counters
    ctx.guard('oracle 1 trees', c.get('src:trees', 0), total1)
    ctx.guard('oracle 1 trees regenerated and parsed back (same or wrong)', c.get('src:same', 0) + c.get('src:wrong', 0), 2000)
    ctx.guard('oracle 2 expressions', c.get('e2e:expressions', 0), len(s2))
    ctx.guard('oracle 2 queries whose bound parameter was compared', c.get('e2e:ok', 0) + c.get('e2e:wrong', 0), 2000)
    for f in FRONTS:
        ctx.guard('oracle 2 compared on front end ' + f, c.get('e2e:%s:ok' % f, 0) + c.get('e2e:%s:wrong' % f, 0), 200)
    ctx.guard('cache history steps', c.get('cache:history_steps', 0), 40)
    ctx.guard('chains that apply one lambda several times, answered and compared', c.get('repeated:ok', 0) + c.get('repeated:wrong', 0), 500)
    ctx.guard('cache history steps Pony answered', c.get('cache:history_steps', 0) - c.get('cache:refused_steps', 0), 50)
    ctx.assume('ast.parse / ast.unparse / compile of CPython %d.%d define what regenerated text means' % sys.version_info[:2])
    ctx.assume('norm() folds only what CPython folds itself: signed number literals, a+bj, constant tuples, adjacent f-string literals, bare FormattedValue == one-field f-string')
    ctx.assume('SQLite in-memory database; the bound value is read from the sqlite3 driver call (vf.seams.dbapi), after Pony\'s own py2sql conversion')
    evaluations = c.get('src:trees', 0) + c.get('e2e:queries', 0) + c.get('cache:history_steps', 0)
    judged = c.get('src:same', 0) + c.get('src:wrong', 0) + c.get('e2e:ok', 0) + c.get('e2e:wrong', 0) + c.get('cache:history_steps', 0)
    return dict(evaluations=evaluations, distinct_nontrivial=judged,
                rule='oracle 1: one evaluation per distinct expression tree; oracle 2: one per (expression, front end), each run under '
                     '%d assignments; non-trivial = Pony answered (no refusal) and the oracle compared the answer' % len(ASSIGN))

def totuple(x):
    return tuple(totuple(i) for i in x) if isinstance(x, list) else x

def replay(ctx, case):
    sys.setrecursionlimit(10000)
    if 'repeated' in case:
        sub = core.Sub(); repeated_lambda(sub)
        bad = [e for e in sub.found.values() if e['case'].get('repeated') == case['repeated']]
        for e in bad: print(e['message'])
        return not bad
    o = case.get('oracle')
    if o == 'src':
        st, d = check_src(totuple(case['skeleton']))
        print(st, '|', d)
        return st != 'WRONG'
    if o == 'e2e':
        res = check_e2e(totuple(case['skeleton']), (case['front'],))
        for r in res: print(r)
        return not any(st.startswith('WRONG') for f, st, d in res)
    if o == 'cache':
        cache_histories(ctx)
        for sig, e in ctx.found.items(): print(sig, '|', e['message'])
        return not ctx.found
    raise core.HarnessError('unknown oracle %r' % o)
