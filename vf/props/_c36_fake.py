"""C36 fake drivers: what psycopg2.connect() / cx_Oracle.SessionPool() return in this sandbox.

The real Pool / PGPool / OraPool code of /repo runs on top of them. A fake connection is a thin shell
around a sqlite3 connection to a shared file (the 'server'): enough of PEP 249 for raw-SQL read and write
sessions, with PostgreSQL's `autocommit` attribute and the handful of statements the providers issue
themselves answered from a table of canned results. A client of a database *server* holds no lock state in
its own process, so the shell must not either (SQLite keeps per-process lock tables that a fork would
copy): statements that write are buffered and applied in one short transaction at commit(), reads run in
autocommit mode (read committed; a transaction does not see its own pending writes - not needed here). Every call is reported through
dbapi.ENV.on_call(kind, sql, args, con) exactly like VfConnection does, and every connection / session
pool remembers the pid that created it (`vf_pid`). Nothing here decides anything about the property:
the fakes only record. Claims that rest on them are model-based (DESIGN section 2, DM).
"""
import os, re, sqlite3
from vf.seams import dbapi

CANNED = (
    (re.compile(r'^\s*DISCARD ALL', re.I), None),
    (re.compile(r'^\s*SET TRANSACTION', re.I), None),
    (re.compile(r'^\s*SELECT version FROM product_component_version', re.I), [('12.2.0.1.0',)]),
    (re.compile(r"^\s*SELECT sys_context", re.I), [('VF',)]),
)
_PYFORMAT = re.compile(r'%\((\w+)\)s')

class _DriverError(object):
    """what cx_Oracle puts into exc.args[0]"""
    def __init__(self, message, code=0): self.message, self.code = message, code
    def __str__(self): return self.message

class FakeCursor(object):
    arraysize = 1
    def __init__(self, con):
        self.con, self._rows, self.rowcount, self.description, self.lastrowid = con, [], -1, None, None
    def execute(self, sql, args=None):
        con = self.con
        dbapi.ENV.on_call('execute', sql, args, con)
        if con.closed: raise con.module.InterfaceError(_DriverError('connection already closed'))
        for rx, rows in CANNED:
            if rx.match(sql):
                self._rows = list(rows or [])
                return
        if con.paramstyle == 'pyformat' and args is not None:
            sql = _PYFORMAT.sub(r':\1', sql).replace('%%', '%')
        if not sql.lstrip()[:6].upper().startswith('SELECT') and not con.autocommit:
            con.pending.append((sql, args))
            self._rows, self.rowcount = [], 1
            return
        try:
            cur = con.raw.execute(sql, args if args is not None else ())
        except sqlite3.OperationalError as e:
            raise con.module.OperationalError(_DriverError(str(e)))
        except sqlite3.Error as e:
            raise con.module.DatabaseError(_DriverError(str(e)))
        self._rows = cur.fetchall() if cur.description else []
        self.description, self.rowcount, self.lastrowid = cur.description, cur.rowcount, cur.lastrowid
    def executemany(self, sql, seq):
        for args in seq: self.execute(sql, args)
    def fetchone(self):
        return self._rows.pop(0) if self._rows else None
    def fetchmany(self, size=None):
        n = size or self.arraysize
        out, self._rows = self._rows[:n], self._rows[n:]
        return out
    def fetchall(self):
        out, self._rows = self._rows, []
        return out
    def close(self): pass
    def setinputsizes(self, *a, **k): pass
    def var(self, *a, **k): raise NotImplementedError('vf fake: cursor.var')

class FakeConnection(object):
    """connection of the process that created it; `server_version`, `autocommit`,
    `set_client_encoding` are what PGProvider / PGPool touch; `outputtypehandler` what OraPool sets"""
    server_version = 160000
    def __init__(self, module, path, paramstyle, vf_pid=None, announce=True):
        if announce: dbapi.ENV.on_call('connect', None, None, None)
        self.module, self.paramstyle = module, paramstyle
        self.raw = sqlite3.connect(path, timeout=30, isolation_level=None, check_same_thread=False)
        self.vf_pid = os.getpid() if vf_pid is None else vf_pid
        self.autocommit = False
        self.closed = 0
        self.pending = []
        self.outputtypehandler = None
    def cursor(self):
        dbapi.ENV.on_call('cursor', None, None, self)
        return FakeCursor(self)
    def _apply(self):
        pending, self.pending = self.pending, []
        if not pending: return
        try:
            self.raw.execute('BEGIN IMMEDIATE')
            for sql, args in pending: self.raw.execute(sql, args if args is not None else ())
            self.raw.execute('COMMIT')
        except sqlite3.Error as e:
            if self.raw.in_transaction: self.raw.execute('ROLLBACK')
            raise self.module.OperationalError(_DriverError(str(e)))
    def commit(self):
        dbapi.ENV.on_call('commit', None, None, self)
        self._apply()
    def rollback(self):
        dbapi.ENV.on_call('rollback', None, None, self)
        self.pending = []
    def close(self):
        dbapi.ENV.on_call('close', None, None, self)
        self.closed += 1
        self.pending = []
        self.raw.close()
    def set_client_encoding(self, enc):
        dbapi.ENV.on_call('set_client_encoding', None, None, self)

class FakeSessionPool(object):
    """what cx_Oracle.SessionPool delegates to: sessions belong to the process that created the pool"""
    def __init__(self, module, path):
        dbapi.ENV.on_call('pool.create', None, None, None)
        self.module, self.path, self.vf_pid = module, path, os.getpid()
        self.free = []
    def acquire(self):
        dbapi.ENV.on_call('pool.acquire', None, None, self)
        if self.free: return self.free.pop()
        return FakeConnection(self.module, self.path, 'named', vf_pid=self.vf_pid, announce=False)
    def release(self, con):
        dbapi.ENV.on_call('pool.release', None, None, self)
        con.pending = []
        self.free.append(con)
    def drop(self, con):
        dbapi.ENV.on_call('pool.drop', None, None, self)
        con.closed += 1
        con.raw.close()

def install(path, paths=()):
    """point the stub driver modules at the file 'server'. With several servers (`paths`) the one named by
    the connect arguments (psycopg2.connect(path) / SessionPool(dsn=path)) is served, `path` otherwise"""
    from vf import stubs
    stubs.install_all()
    import psycopg2, cx_Oracle
    known = set(paths)
    def pick(a, k):
        for x in list(a) + list(k.values()):
            if isinstance(x, str) and x in known: return x
        return path
    psycopg2._vf_connect = lambda *a, **k: FakeConnection(psycopg2, pick(a, k), 'pyformat')
    cx_Oracle._vf_pool = lambda *a, **k: FakeSessionPool(cx_Oracle, pick(a, k))
