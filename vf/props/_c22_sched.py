"""Small thread-schedule explorer for C22 (self-contained; does not depend on vf.engines.tx).

Real OS threads under cooperative baton passing: a worker runs only while it holds the baton and hands
it back to the scheduler (the thread that called Execution.run) at every *scheduling point*:

  * `line` events delivered by sys.settrace inside a FIXED list of Pony code objects (PointSet), with a
    per-code-object set of line numbers;
  * statement-level driver calls of a VfConnection (execute / executemany / commit / rollback, through
    dbapi.ENV.handler);
  * acquire of the SQLite provider's transaction locks (SchedLock: a thread that finds the lock held is
    *disabled* until release; "no enabled thread and not all done" is a deadlock).

Exploration is stateless: an execution is identified by its choice list; Explorer runs a prefix, then
continues with the default choice (index 0 = keep running the current thread) and pushes every
alternative of every later point that fits into the preemption budget. The work list is ordered by
number of preemptions (iterative preemption bounding 0, 1, 2, ...) and no schedule is executed twice.
Every child execution checks that the prefix it replays produced exactly the labels and enabled sets its
parent saw: a divergence is a HarnessError, never a violation.

Granularity limit: a thread switch can be forced only *between* source lines of the listed functions
(and at driver calls); races inside one source line are not explored.
"""
import sys, threading, heapq, hashlib, _thread
from vf import core
from vf.seams import dbapi

HANG_SECONDS = 120
DRIVER_POINTS = ('execute', 'executemany', 'commit', 'rollback')

def _sem():
    l = _thread.allocate_lock(); l.acquire()
    return l            # binary semaphore: release() = V, acquire() = P (one outstanding V at most)

class PointSet(object):
    """code object -> (short name, frozenset of line numbers, first line)."""
    def __init__(self):
        self.codes = {}
        self.described = {}
    def add(self, name, func, shared_names=None, whole=False, keep_loops=False):
        """Scheduling points of `func`:
        whole=False  only the lines whose text mentions one of `shared_names` (cache get / store lines);
        whole=True   every line, except lines inside a for/while body that do not mention a shared name
                     (iterations over thread-local data; the loop header itself stays a point).
        Fails loudly when the function is missing or nothing is selected."""
        import inspect, ast, textwrap
        func = inspect.unwrap(func)
        code = getattr(func, '__code__', None)
        if code is None: raise core.HarnessError('C22: %s has no code object' % name)
        src, first = inspect.getsourcelines(code)
        mentions = set(first + i for i, text in enumerate(src) if any(s in text for s in (shared_names or ())))
        if shared_names and not mentions:
            raise core.HarnessError('C22: no line of %s mentions %r - update the point list' % (name, shared_names))
        if not whole:
            lines = mentions
        else:
            tree = ast.parse(textwrap.dedent(''.join(src)))
            in_loop = set()
            for node in ast.walk(tree):
                if isinstance(node, (ast.For, ast.While)):
                    for stmt in node.body + node.orelse:
                        for sub in ast.walk(stmt):
                            if hasattr(sub, 'lineno'):
                                in_loop.update(range(sub.lineno + first - 1, getattr(sub, 'end_lineno', sub.lineno) + first))
            lines = set(range(first, first + len(src))) - (set() if keep_loops else in_loop - mentions)
        if not lines: raise core.HarnessError('C22: no scheduling point in %s' % name)
        self.codes[code] = (name, frozenset(lines), code.co_firstlineno)
        self.described[name] = dict(whole=whole, loops=keep_loops, shared=list(shared_names or ()), candidate_lines=len(lines))
        return self

class SchedLock(object):
    """Drop-in for threading.Lock on provider.transaction_lock / pre_transaction_lock."""
    def __init__(self, name):
        self.name, self.owner, self.ex = name, None, None
        self._real = threading.Lock()       # used when no execution is active (set-up, preludes, matrix)
    def acquire(self, blocking=True, timeout=-1):
        ex = self.ex
        me = ex.me() if ex is not None else None
        if me is None: return self._real.acquire(blocking, timeout)
        ex.point(me, 'lock:' + self.name)
        while self.owner is not None:
            ex.waiting[me] = self
            ex.point(me, 'blocked:' + self.name)
        ex.waiting[me] = None
        self.owner = me
        return True
    def release(self):
        ex = self.ex
        me = ex.me() if ex is not None else None
        if me is None: return self._real.release()
        if self.owner is None: raise RuntimeError('release unlocked lock')
        self.owner = None
    def locked(self):
        return self.owner is not None or self._real.locked()
    __enter__ = acquire
    def __exit__(self, *a): self.release()

class Execution(object):
    """One complete run of `bodies` (callables taking the thread index) under a choice list.

    The scheduling decision is taken by whichever thread holds the baton when it reaches a point (the
    scheduler state is only ever touched by the baton holder); a hand-over between OS threads happens
    only when the decision actually switches threads."""
    def __init__(self, bodies, choices, pointset, locks=(), finalizer=None):
        self.bodies, self.choices, self.ps = bodies, list(choices), pointset
        self.n = len(bodies)
        self.sems = [_sem() for _ in bodies]
        self.main = _sem()
        self.done = [False] * self.n
        self.waiting = [None] * self.n
        self.results = [None] * self.n
        self.errors = [None] * self.n
        self.trace = []            # (thread, label): entry k is what happened after decision k
        self.decisions = []        # (enabled tuple, chosen index, was_preemption, could_continue)
        self.idents = {}
        self.locks = locks
        self.finalizer = finalizer
        self.switch_in = {}        # function name -> switches away from a live thread standing inside it
        self.cur = None
        self.status = None
        self.harness_error = None

    # ---- scheduling decision (runs in the thread that holds the baton) ---------------------------
    def _ready(self, t):
        if self.done[t]: return False
        w = self.waiting[t]
        return w is None or w.owner is None
    def _decide(self):
        """-> index of the thread that runs next, or None when the execution is over"""
        enabled = [t for t in range(self.n) if self._ready(t)]
        if not enabled:
            self.status = 'ok' if all(self.done) else 'deadlock'
            return None
        cur = self.cur
        can_continue = cur in enabled
        if can_continue and enabled[0] != cur:
            enabled.remove(cur); enabled.insert(0, cur)
        pos = len(self.decisions)
        if pos < len(self.choices):
            c = self.choices[pos]
            if c >= len(enabled):
                self.harness_error = 'C22 schedule replay diverged: choice %d of %r at decision %d' % (c, enabled, pos)
                self.status = 'diverged'
                return None
        else: c = 0
        self.decisions.append((tuple(enabled), c, can_continue and c != 0, can_continue))
        nxt = enabled[c]
        if cur is not None and nxt != cur and not self.done[cur]:
            lab = self.trace[-1][1]
            if '+' in lab:
                fn = lab.split('+')[0]
                self.switch_in[fn] = self.switch_in.get(fn, 0) + 1
        self.cur = nxt
        return nxt

    # ---- worker side ------------------------------------------------------------------------
    def me(self):
        return self.idents.get(_thread.get_ident())
    def point(self, i, label):
        self.trace.append((i, label))
        nxt = self._decide()
        if nxt == i: return
        if nxt is None: self.main.release()          # deadlock / divergence: give up, scheduler thread reports
        else: self.sems[nxt].release()
        self.sems[i].acquire()
    def _tracer_for(self, i):
        codes = self.ps.codes
        point = self.point
        def local(frame, event, arg):
            if event == 'line':
                name, lines, first = codes[frame.f_code]
                ln = frame.f_lineno
                if ln in lines: point(i, '%s+%d' % (name, ln - first))
            return local
        def glob(frame, event, arg):
            if frame.f_code in codes: return local
            return None
        return glob
    def _worker(self, i):
        self.idents[_thread.get_ident()] = i
        self.sems[i].acquire()
        try:
            sys.settrace(self._tracer_for(i))
            try: self.results[i] = self.bodies[i](i)
            finally: sys.settrace(None)
        except BaseException as e:                    # a body catches what Pony raises by itself
            self.errors[i] = '%s: %s' % (type(e).__name__, e)
        try:
            if self.finalizer is not None: self.finalizer(i)
        except BaseException as e:
            self.errors[i] = (self.errors[i] or '') + ' finalizer %s: %s' % (type(e).__name__, e)
        self.done[i] = True
        self.trace.append((i, 'done'))
        nxt = self._decide()
        if nxt is None: self.main.release()
        else: self.sems[nxt].release()
    def _on_call(self, kind, sql, args, con):
        if kind in DRIVER_POINTS:
            i = self.me()
            if i is not None and not self.done[i]: self.point(i, 'db:' + kind)

    # ---- scheduler thread ---------------------------------------------------------------------
    def run(self):
        for l in self.locks: l.ex, l.owner = self, None
        old_handler = dbapi.ENV.handler
        dbapi.ENV.handler = self._on_call
        threads = [threading.Thread(target=self._worker, args=(i,), daemon=True) for i in range(self.n)]
        for t in threads: t.start()
        try:
            first = self._decide()
            if first is not None:
                self.sems[first].release()
                if not self.main.acquire(True, HANG_SECONDS):
                    raise core.HarnessError('C22: execution did not finish within %ds (a thread blocked outside a '
                                            'scheduling point?) trace tail %r' % (HANG_SECONDS, self.trace[-5:]))
            if self.harness_error: raise core.HarnessError(self.harness_error)
        finally:
            dbapi.ENV.handler = old_handler
            for l in self.locks: l.ex = None
        if self.status == 'ok':
            for t in threads: t.join(HANG_SECONDS)
            if any(t.is_alive() for t in threads): raise core.HarnessError('C22: worker thread did not finish')
        return self
    # ---- derived --------------------------------------------------------------------------------
    def taken(self):
        return [d[1] for d in self.decisions]
    def preemptions(self):
        return sum(1 for d in self.decisions if d[2])
    def fingerprint(self, upto=None):
        """hash of the enabled sets of the first `upto` decisions and of everything that happened
        between them (trace entry k follows decision k)"""
        n = len(self.decisions) if upto is None else upto
        h = hashlib.sha1()
        h.update(repr((self.trace[:max(0, n - 1)], [d[0] for d in self.decisions[:n]])).encode())
        return h.hexdigest()[:16]
    def thread_labels(self, i):
        return [l for (t, l) in self.trace if t == i]

class Explorer(object):
    """Stateless search over choice lists with iterative preemption bounding.

    A work item is (cost, prefix, fingerprint, fplen): the choice prefix to replay, the number of
    preemptions it contains, and the fingerprint its parent execution had over the first fplen
    decisions (None for an initial prefix). Children of an execution branch only at decisions at or
    after len(prefix), so the subtrees of distinct items are disjoint: items can be handed to
    different processes (expand() in one process, run() in others)."""
    def __init__(self, make_execution, bound, max_executions=None):
        self.make, self.bound, self.max = make_execution, bound, max_executions
        self.executions = 0
        self.edges = 0                 # distinct edges of the schedule tree that were executed
        self.by_preemptions = {}
        self.capped = False
        self.prefix_checks = 0         # executions whose replayed prefix was compared with the parent's
    def _one(self, item, visit):
        cost0, prefix, fp, fplen = item
        ex = self.make(prefix)            # a completed Execution
        self.executions += 1
        if fp is not None:
            self.prefix_checks += 1
            if ex.fingerprint(fplen) != fp:
                raise core.HarnessError('C22: replaying prefix %r diverged from the execution that scheduled it' % (prefix,))
        self.edges += len(ex.decisions) - max(0, len(prefix) - 1)
        npre = ex.preemptions()
        self.by_preemptions[npre] = self.by_preemptions.get(npre, 0) + 1
        visit(ex)
        taken = ex.taken()
        used, children = 0, []
        for k, (enabled, c, pre, can_continue) in enumerate(ex.decisions):
            if k >= len(prefix) and len(enabled) > 1:
                cost = used + (1 if can_continue else 0)
                if cost <= self.bound:
                    fpk = ex.fingerprint(k + 1)
                    for alt in range(1, len(enabled)):
                        children.append((cost, taken[:k] + [alt], fpk, k + 1))
            if pre: used += 1
        return children
    def expand(self, prefix, visit):
        """execute one initial prefix, return its children (work items)"""
        return self._one((0, list(prefix), None, 0), visit)
    def run(self, visit, items):
        """visit(execution) is called for every completed execution of the subtrees of `items`"""
        heap, seq = [], 0
        for (cost, prefix, fp, fplen) in items:
            heap.append((cost, seq, prefix, fp, fplen)); seq += 1
        heapq.heapify(heap)
        while heap:
            cost, _, prefix, fp, fplen = heapq.heappop(heap)
            if self.max is not None and self.executions >= self.max:
                self.capped = True
                break
            for child in self._one((cost, prefix, fp, fplen), visit):
                heapq.heappush(heap, (child[0], seq) + tuple(child[1:])); seq += 1
        return self
